/-
The `parent` setter of `odml/section.py` (`BaseSection.parent`) for a Section that moves from the child
list of one holder (Document or Section) into the child list of ANOTHER holder, as far as the two child
lists and the parent reference go - which is what the path theorems of C14 depend on (`Doc.wf`: the
child lists are a tree whose sibling names are pairwise distinct).
Added after seeded round 6: a refused move leaves every path valid only because the check that runs
BEFORE the object is taken out of its old child list refuses exactly what the child list of the new
parent refuses afterwards (a taken NAME). `Sectionable.contains` compares name AND type; as a pre-check
it lets a namesake of another type pass, and the refusal then comes when the object is in no list.

    elif self._validate_parent(new_parent):
        if new_parent is not self._parent:
            if self.name in new_parent.sections: raise KeyError      # pre-check, nothing touched
            new_parent._check_no_cycle(self)                         # ValueError, nothing touched
        if self._parent is not None: self._parent.remove(self)
        self._parent = new_parent
        self._parent.append(self)            # SmartList.append: `obj.name in self` -> KeyError

A child list is seen as the list of (name, type) of its entries; the moved object is entry `i` of `old`.
Tied to /repo by `harness/c14.py` (stream `setparent`) on every run.
-/
import OdmlModel.Model.PathTree

namespace PathMove
open PathTree

/-- what the refusal rules look at in an entry of a child list -/
structure Kid where
  name : Str
  type : Str
  deriving DecidableEq, Repr

/-- the holder the moved object names as its parent -/
inductive Par where
  | old
  | new
  deriving DecidableEq, Repr

/-- the state `x.parent = new_parent` leaves: did it raise, the two child lists, `x._parent` -/
structure Moved where
  raised : Bool
  old : List Kid
  new : List Kid
  par : Par
  deriving DecidableEq, Repr

/-- `self.name in new_parent.sections` (`SmartList.__contains__` on a name) -/
def nameTaken (l : List Kid) (x : Kid) : Bool := l.any (fun k => k.name == x.name)

/-- `new_parent.contains(self) is not None` (`Sectionable.contains`: name AND type) -/
def containsLike (l : List Kid) (x : Kid) : Bool := l.any (fun k => k.name == x.name && k.type == x.type)

/-- The setter with the pre-check as a parameter. `below`: `new_parent` is the moved Section or lies
    below it (`_check_no_cycle` raises). -/
def setParentWith (pre : List Kid → Kid → Bool) (old : List Kid) (i : Nat) (new : List Kid)
    (below : Bool) : Moved :=
  match old[i]? with
  | none => ⟨false, old, new, .old⟩
  | some x =>
    if pre new x then ⟨true, old, new, .old⟩                 -- KeyError before anything is touched
    else if below then ⟨true, old, new, .old⟩                -- ValueError before anything is touched
    else if nameTaken new x then ⟨true, old.eraseIdx i, new, .new⟩   -- `append` raises: x is in no list
    else ⟨false, old.eraseIdx i, new ++ [x], .new⟩

/-- `BaseSection.parent` as it is: the pre-check is the name test of the child list -/
def setParent := setParentWith nameTaken

/-- the variant seeded in round 6 (kept for the counterexample theorem only) -/
def setParentContains := setParentWith containsLike

/-- the moved object is an entry of exactly the child list of the holder it names as its parent:
    as often in `old` as before and not added to `new`, or taken out of `old` once and added to `new` -/
def Moved.consistent (m : Moved) (old : List Kid) (i : Nat) (new : List Kid) (x : Kid) : Prop :=
  (m.par = .old ∧ m.old = old ∧ m.new = new) ∨
  (m.par = .new ∧ m.old = old.eraseIdx i ∧ m.new = new ++ [x])

end PathMove
