/-
M-Conv: the odML 1.0 -> 1.1 version converter.

  odml/tools/converters/version_converter.py
      _replace_same_name_entities / _change_entity_name      -> `p1`, `bump`, `nextFree`
      root.set("version", FORMAT_VERSION)                    -> `p2`
      _handle_properties / _handle_value                     -> `p3`, `transformProp`, `valueLoop`,
                                                                `handleValueElems`, `propCleanup`
      the Section loop of _convert                           -> `p4`, `secCleanup`
      the Document loop of _convert                          -> `p5`
      _check_add_ids / _add_id                               -> `p6`, `addId`, `parseUuid`
      _convert                                               -> `convertTree`, `convertLog`, `raises`
      _parse_dict_document / _sections / _properties / _values -> `DDoc.toTree` …
      write_to_file                                          -> `outName`, `writeToFile`
  odml/tools/xmlparser.py
      to_csv / from_csv (csv module, excel dialect)          -> `Xml.toCsv`, `fromCsv` (the model of
                                                                C01: Model/XmlCsv.lean, Py/Csv.lean)
      XMLReader.parse_tag (strict)                           -> `readerAccepts`, `readDoc` …

`_convert` is modelled as the pipeline of the same six tree rewrites in the same order.  Each
rewrite walks the Section skeleton of the document (root -> section -> section …) exactly like
the lxml iterators of the code do on documents of the modelled shape (`Shape10`: sections occur
only under the root or under sections, properties only under the root or sections, value
elements only directly under properties, and everything else contains none of the three).
`_handle_repository` / `_handle_include` need the network and are outside the property.
`uuid.uuid4()` is the parameter `fresh`.  No Mathlib.
-/
import OdmlModel.Model.ConvXml
import OdmlModel.Model.XmlCsv
import OdmlModel.Generated.FormatTables

namespace Conv
open Conv.Xml

/-! ## Tables -/

/-- `Document.arguments_keys`, `Section.arguments_keys`, `Property.arguments_keys`
    (regenerated from odml/format.py on every run). -/
def docKeys : List String := Gen.Format.documentArgs.map Prod.fst
def secKeys : List String := Gen.Format.sectionArgs.map Prod.fst
def propKeys : List String := Gen.Format.propertyArgs.map Prod.fst

/-- `VersionConverter._version_map` (compared with the class attribute on every run). -/
def versionMap : List (String × String) := [("filename", "value_origin"), ("dtype", "type")]

/-! ## uuid.UUID(text) -/

/-- `s.replace(pat, "")`: removes the non-overlapping occurrences from left to right. -/
def removeAllGo (pat : List Char) : Nat → List Char → List Char
  | _, [] => []
  | skip + 1, _ :: cs => removeAllGo pat skip cs
  | 0, c :: cs =>
    if pat.isPrefixOf (c :: cs) && !pat.isEmpty then removeAllGo pat (pat.length - 1) cs
    else c :: removeAllGo pat 0 cs
def removeAll (pat : List Char) (s : List Char) : List Char := removeAllGo pat 0 s

/-- `s.strip("{}")` -/
def stripBraces (s : List Char) : List Char :=
  let isB : Char → Bool := fun c => c == '{' || c == '}'
  ((s.dropWhile isB).reverse.dropWhile isB).reverse

def isHex (c : Char) : Bool :=
  c.isDigit || ('a' ≤ c && c ≤ 'f') || ('A' ≤ c && c ≤ 'F')

/-- The 32 hex digits `uuid.UUID(text)` extracts, if it accepts the text.
    (ASCII restriction: `int(hex, 16)` also accepts `_`, signs, white space, a `0x` prefix and
    non-ASCII digits inside a 32-character string; such ids are kept out of the tie.) -/
def uuidHex (t : List Char) : Option (List Char) :=
  let h := removeAll "uuid:".toList (removeAll "urn:".toList t)
  let h := (stripBraces h).filter (· != '-')
  if h.length = 32 && h.all isHex then some (h.map Char.toLower) else none

/-- `str(uuid.UUID(text))`: 8-4-4-4-12 lower-case. -/
def uuidFmt (h : List Char) : List Char :=
  h.take 8 ++ '-' :: (h.drop 8).take 4 ++ '-' :: (h.drop 12).take 4 ++ '-' :: (h.drop 16).take 4
    ++ '-' :: h.drop 20

def parseUuid (t : List Char) : Option (List Char) := (uuidHex t).map uuidFmt

/-- The text `_add_id` stores for an element whose `id` child has text `t`. -/
def idOf (fresh : List Char) (t : List Char) : List Char :=
  match parseUuid t with
  | some u => u
  | none => fresh

/-- `_add_id(element)` -/
def addId (fresh : List Char) : Xml → Xml
  | .elem t a x ks =>
    match find "id" ks with
    | some oid => .elem t a x (removeFirst "id" ks ++ [leaf "id" (idOf fresh oid.text)])
    | none => .elem t a x (ks ++ [leaf "id" fresh])

/-! ## The conversion log -/

/-- `"%s|%s:%s" % (sname, stype, pname)` kept structured. -/
structure PropId where
  sname : List Char
  stype : List Char
  pname : List Char
  deriving Repr, DecidableEq

/-- One entry of `conversion_log`, by the statement that writes it; texts are what `%s` shows. -/
inductive LogE where
  | unnamedProp                                                    -- property without name: dropped
  | alreadyExported (pid : PropId) (tag : String) (kept dropped : List Char)
  | binaryReplaced (pid : PropId)
  | omittedValueAttr (pid : PropId) (tag : String) (text : List Char)
  | omittedPropAttr (pid : PropId) (tag : String) (text : List Char)
  | omittedSecAttr (sname : List Char) (tag : String) (text : List Char)
  | omittedDocAttr (tag : String) (text : List Char)
  deriving Repr, DecidableEq

abbrev Log := List LogE

/-! ## Stage 1: `_replace_same_name_entities` -/

/-- `elem_map` of `_change_entity_name` for one parent: name text -> occurrences so far. -/
abbrev Counter := List (List Char × Nat)

def setCount (n : List Char) (c : Nat) : Counter → Counter
  | [] => [(n, c)]
  | (n', c') :: rest => if n' = n then (n, c) :: rest else (n', c') :: setCount n c rest

/-- `"-" + str(k)` -/
def suffix (n : List Char) (k : Nat) : List Char := n ++ '-' :: Py.natToDigits k

/-- `while "%s-%s" % (name.text, index) in used: index += 1`, started at `index = k`.  The
    loop leaves after at most `len(used)` rounds (each round finds another element of `used`):
    `fuel` is that bound, the model is total. -/
def nextFree (n : List Char) (used : List (List Char)) : Nat → Nat → Nat
  | 0, k => k
  | fuel + 1, k => if suffix n k ∈ used then nextFree n used fuel (k + 1) else k

/-- `_change_entity_name`: first occurrence keeps its text, the k-th one gets `-k`, or the next
    higher number for which the new name is not in `used` (the names of the other siblings:
    the earlier ones as renamed, the later ones as they are in the source). -/
def bump (m : Counter) (used : List (List Char)) (n : List Char) : Counter × List Char :=
  match m.lookup n with
  | none => ((n, 1) :: m, n)
  | some c => (setCount n (c + 1) m, suffix n (nextFree n used used.length (c + 1)))

/-- `sibling.find("name").text` of the Section / Property children that have a name. -/
def secNames (ks : List Xml) : List (List Char) :=
  (ks.filter (fun k => k.tag == "section" && (find "name" k.kids).isSome)).map
    (fun k => findText "name" k.kids)
def propNames (ks : List Xml) : List (List Char) :=
  (ks.filter (fun k => k.tag == "property" && (find "name" k.kids).isSome)).map
    (fun k => findText "name" k.kids)

/-- `name.text = new` on the first `name` child. -/
def setFirstText (t : String) (new : List Char) : List Xml → List Xml
  | [] => []
  | k :: ks =>
    if k.tag = t then .elem k.tag k.attrs new k.kids :: ks else k :: setFirstText t new ks

def rename (new : List Char) : Xml → Xml
  | .elem t a x ks => .elem t a x (setFirstText "name" new ks)

mutual
/-- Renames inside one skeleton node: the Section children (map `sm`) and, when the node is a
    Section itself, its Property children (map `pm`, cleared per Section in the code).
    `sd` / `pd`: the names the earlier Section / Property siblings have now; the later siblings
    (`ks`) still have the names of the source. -/
def p1 : Xml → Xml
  | .elem t a x ks => .elem t a x (p1Kids (t == "section") [] [] [] [] ks)
def p1Kids (inSec : Bool) (sm pm : Counter) (sd pd : List (List Char)) : List Xml → List Xml
  | [] => []
  | k :: ks =>
    if k.tag = "section" then
      match find "name" k.kids with
      | some nm =>
        let r := bump sm (sd ++ secNames ks) nm.text
        rename r.2 (p1 k) :: p1Kids inSec r.1 pm (sd ++ [r.2]) pd ks
      | none => p1 k :: p1Kids inSec sm pm sd pd ks    -- the code raises here: see `raises`
    else if k.tag = "property" && inSec then
      match find "name" k.kids with
      | some nm =>
        let r := bump pm (pd ++ propNames ks) nm.text
        rename r.2 k :: p1Kids inSec sm r.1 sd (pd ++ [r.2]) ks
      | none => k :: p1Kids inSec sm pm sd pd ks
    else k :: p1Kids inSec sm pm sd pd ks
end

mutual
/-- `raise Exception("Section attribute name is not specified")`: some Section has no name. -/
def raises : Xml → Bool
  | .elem _ _ _ ks => raisesKids ks
def raisesKids : List Xml → Bool
  | [] => false
  | k :: ks =>
    (k.tag == "section" && ((find "name" k.kids).isNone || raises k)) || raisesKids ks
end

/-! ## Stage 2: the version attribute -/

def p2 : Xml → Xml
  | .elem t a x ks => .elem t (setAttr "version" Gen.Format.formatVersion.toList a) x ks

/-! ## Stage 3: `_handle_properties` / `_handle_value` -/

/-- `"binary"` under `type`/`dtype` becomes `"text"` (with a log entry). -/
def isBinary (tag : String) (x : List Char) : Bool :=
  (tag == "type" || tag == "dtype") && x == "binary".toList

/-- The body of `_handle_value` for the sub-elements `ds` of one value element; `cur` are the
    current children of the parent Property. -/
def handleValueElems (pid : PropId) : List Xml → List Xml → Log → List Xml × Log
  | [], cur, log => (cur, log)
  | d :: ds, cur, log =>
    let look := (versionMap.lookup d.tag).getD d.tag
    match find look cur with
    | some ce =>
      handleValueElems pid ds cur
        (if ce.text ≠ d.text then log ++ [.alreadyExported pid d.tag (pyStr ce.text) (pyStr d.text)]
         else log)
    | none =>
      if d.tag ∈ propKeys then
        if isBinary d.tag d.text then
          handleValueElems pid ds (cur ++ [leaf d.tag "text".toList]) (log ++ [.binaryReplaced pid])
        else handleValueElems pid ds (cur ++ [leaf d.tag d.text]) log
      else
        match versionMap.lookup d.tag with
        | some m =>
          if isBinary d.tag d.text then
            handleValueElems pid ds (cur ++ [leaf m "text".toList]) (log ++ [.binaryReplaced pid])
          else handleValueElems pid ds (cur ++ [leaf m d.text]) log
        | none =>
          handleValueElems pid ds cur (log ++ [.omittedValueAttr pid d.tag (pyStr d.text)])

/-- `value.iter()` minus the elements tagged `value`. -/
def valueElems (v : Xml) : List Xml := (descendants v).filter (fun d => d.tag != "value")

/-- State of the `for value in prop.iter("value")` loop. -/
structure VState where
  cur : List Xml                -- children of the Property
  vals : List (List Char)       -- `values`: the texts that hold a value, as they are
  log : Log

/-- `if value.text and value.text.strip(): values.append(value.text)` -/
def collect (vals : List (List Char)) (vtext : List Char) : List (List Char) :=
  if vtext ≠ [] ∧ Py.strip vtext ≠ [] then vals ++ [vtext] else vals

def valueLoop (pid : PropId) : List Xml → VState → VState
  | [], s => s
  | v :: vs, s =>
    let r := handleValueElems pid (valueElems v) s.cur s.log
    valueLoop pid vs { cur := removeFirst "value" r.1, vals := collect s.vals v.text, log := r.2 }

/-- The text of the single 1.1 `value` element: `to_csv(values)`, the encoding of the XML
    writer (`Model/XmlCsv.lean`; strips every value, csv quoting, brackets).  `enc`
    (`encoded_values`): the source already has the current format version; the text of a single
    value element is then the encoded list of a 1.1 Property and is kept (stripped). -/
def mainText (enc : Bool) (vals : List (List Char)) : List Char :=
  if enc then
    match vals with
    | [v] => Py.strip v
    | _ => _root_.Xml.toCsv vals
  else _root_.Xml.toCsv vals

/-- `if elem.tag == "dependency_value": elem.tag = "dependencyvalue"` -/
def respell (t : String) : String := if t = "dependency_value" then "dependencyvalue" else t

/-- The last loop of `_handle_properties`: `dependency_value` is respelled, children that are
    not Property arguments are removed and logged. -/
def propCleanup (pid : PropId) : List Xml → List Xml × Log
  | [] => ([], [])
  | k :: ks =>
    let r := propCleanup pid ks
    if respell k.tag ∈ propKeys then (.elem (respell k.tag) k.attrs k.text k.kids :: r.1, r.2)
    else (r.1, .omittedPropAttr pid (respell k.tag) (pyStr k.text) :: r.2)

/-- One named Property (body of the `for prop in root.iter("property")` loop). -/
def transformProp (enc : Bool) (sname stype : List Char) (p : Xml) : Xml × Log :=
  let pid : PropId := ⟨sname, stype, pyStr (findText "name" p.kids)⟩
  let vals := p.kids.filter (fun k => k.tag == "value")
  let s := valueLoop pid vals { cur := p.kids, vals := [], log := [] }
  let cur2 := if s.vals ≠ [] then s.cur ++ [leaf "value" (mainText enc s.vals)] else s.cur
  let r := propCleanup pid cur2
  (.elem p.tag p.attrs p.text r.1, s.log ++ r.2)

/-- `sname` / `stype` of the log id: `"unnamed"` / `"untyped"` when the parent has no such child. -/
def parentLabel (t : String) (dflt : String) (ks : List Xml) : List Char :=
  match find t ks with
  | some n => pyStr n.text
  | none => dflt.toList

mutual
def p3 (enc : Bool) : Xml → Xml × Log
  | .elem t a x ks =>
    let r := p3Kids enc (parentLabel "name" "unnamed" ks) (parentLabel "type" "untyped" ks) ks
    (.elem t a x r.1, r.2)
def p3Kids (enc : Bool) (sname stype : List Char) : List Xml → List Xml × Log
  | [] => ([], [])
  | k :: ks =>
    let rest := p3Kids enc sname stype ks
    if k.tag = "property" then
      if (find "name" k.kids).isNone then (rest.1, .unnamedProp :: rest.2)
      else
        let r := transformProp enc sname stype k
        (r.1 :: rest.1, r.2 ++ rest.2)
    else if k.tag = "section" then
      let r := p3 enc k
      (r.1 :: rest.1, r.2 ++ rest.2)
    else (k :: rest.1, rest.2)
end

/-! ## Stage 4 and 5: unsupported Section / Document children -/

def secCleanup (sname : List Char) : List Xml → List Xml × Log
  | [] => ([], [])
  | k :: ks =>
    let r := secCleanup sname ks
    if k.tag ∈ secKeys then (k :: r.1, r.2)
    else (r.1, .omittedSecAttr sname k.tag (pyStr k.text) :: r.2)

mutual
def p4 : Xml → Xml × Log
  | .elem t a x ks =>
    let r := p4Kids ks
    if t = "section" then
      let own := secCleanup (pyStr (findText "name" ks)) r.1
      (.elem t a x own.1, own.2 ++ r.2)
    else (.elem t a x r.1, r.2)
def p4Kids : List Xml → List Xml × Log
  | [] => ([], [])
  | k :: ks =>
    let rest := p4Kids ks
    if k.tag = "section" then
      let r := p4 k
      (r.1 :: rest.1, r.2 ++ rest.2)
    else (k :: rest.1, rest.2)
end

def docCleanup : List Xml → List Xml × Log
  | [] => ([], [])
  | k :: ks =>
    let r := docCleanup ks
    if k.tag ∈ docKeys then (k :: r.1, r.2)
    else (r.1, .omittedDocAttr k.tag (pyStr k.text) :: r.2)

def p5 : Xml → Xml × Log
  | .elem t a x ks => let r := docCleanup ks; (.elem t a x r.1, r.2)

/-! ## Stage 6: `_check_add_ids` -/

def iter {α : Type} (f : α → α) : Nat → α → α
  | 0, a => a
  | n + 1, a => iter f n (f a)

mutual
/-- `d` = number of Sections above the children of this node.  `_add_id` runs once on the root
    and on every Section, and once per enclosing Section on every Property. -/
def p6 (fresh : List Char) (d : Nat) : Xml → Xml
  | .elem t a x ks =>
    addId fresh (.elem t a x (p6Kids fresh (if t = "section" then d + 1 else d) ks))
def p6Kids (fresh : List Char) (d : Nat) : List Xml → List Xml
  | [] => []
  | k :: ks =>
    (if k.tag = "section" then p6 fresh d k
     else if k.tag = "property" then iter (addId fresh) d k
     else k) :: p6Kids fresh d ks
end

/-! ## `_convert` -/

/-- `encoded_values = root.get("version") == FORMAT_VERSION` (read before the attribute is set). -/
def encodedValues (x : Xml) : Bool := x.attrs.lookup "version" == some Gen.Format.formatVersion.toList

def stage3 (x : Xml) : Xml × Log := p3 (encodedValues x) (p2 (p1 x))
def stage4 (x : Xml) : Xml × Log := p4 (stage3 x).1
def stage5 (x : Xml) : Xml × Log := p5 (stage4 x).1

/-- The converted tree (when `raises x = false`). -/
def convertTree (fresh : List Char) (x : Xml) : Xml := p6 fresh 0 (stage5 x).1

/-- `conversion_log` after `_convert`. -/
def convertLog (x : Xml) : Log := (stage3 x).2 ++ (stage4 x).2 ++ (stage5 x).2

/-! ## The shape of documents on which the walk above is the walk of the lxml iterators -/

mutual
/-- No section / property / value element at or below this element. -/
def inert : Xml → Bool
  | .elem t _ _ ks => t != "section" && t != "property" && t != "value" && inertL ks
def inertL : List Xml → Bool
  | [] => true
  | k :: ks => inert k && inertL ks
end

def shapeValue (v : Xml) : Bool := inertL v.kids

def shapeProp (p : Xml) : Bool :=
  p.kids.all (fun k => if k.tag = "value" then shapeValue k else inert k)

mutual
def shapeNode : Xml → Bool
  | .elem _ _ _ ks => shapeKids ks
def shapeKids : List Xml → Bool
  | [] => true
  | k :: ks =>
    (if k.tag = "section" then shapeNode k
     else if k.tag = "property" then shapeProp k
     else inert k) && shapeKids ks
end

/-- Modelled shape; additionally no `repository` / `include` (network) anywhere. -/
def Shape10 (x : Xml) : Bool :=
  x.tag == "odML" && shapeNode x &&
  (descendants x).all (fun d => d.tag != "repository" && d.tag != "include")

/-! ## xmlparser.from_csv

The csv module (reader and writer, excel dialect) is the model shared with C01
(`Py/Csv.lean`, `Model/XmlCsv.lean`); the stream `csv` of the tie compares it with the real
`from_csv` on every run. -/

/-- `from_csv(value_string)`; `none` = an exception (of the csv module, or `IndexError`). -/
def fromCsv (t : List Char) : Option (List (List Char)) :=
  match _root_.Xml.fromCsv t with
  | .ok fs => some fs
  | .error _ => none

/-! ## What the strict reader makes of a 1.1 tree (arguments of `fmt.create`) -/

/-- Content of a Property as the property text lists it. -/
structure PropC where
  name : List Char
  values : Option (List (List Char))     -- `none`: from_csv raises on the value text
  unit : List Char
  uncertainty : List Char
  dtype : List Char
  valueOrigin : List Char
  definition : List Char
  reference : List Char
  dependency : List Char
  dependencyValue : List Char
  id : List Char
  deriving Repr, DecidableEq

inductive SecC where
  | mk (name type definition id : List Char) (props : List PropC) (subs : List SecC)
  deriving Repr

structure DocC where
  id : List Char
  secs : List SecC
  deriving Repr

/-- The last child with the tag wins in `parse_tag` (`arguments[tag] = curr_text`). -/
def findLast (t : String) (ks : List Xml) : Option Xml := find t ks.reverse

/-- `node.text.strip() if node.text else None` of the last child with the tag. -/
def lastText (t : String) (ks : List Xml) : List Char :=
  match findLast t ks with
  | some k => Py.strip k.text
  | none => []

/-- `arguments["values"]`: `from_csv(node.text)` when the stripped text is non-empty. -/
def readValues (ks : List Xml) : Option (List (List Char)) :=
  match findLast "value" ks with
  | some k => if Py.strip k.text = [] then some [] else fromCsv k.text
  | none => some []

def readProp (p : Xml) : PropC := {
  name := lastText "name" p.kids, values := readValues p.kids, unit := lastText "unit" p.kids,
  uncertainty := lastText "uncertainty" p.kids, dtype := lastText "type" p.kids,
  valueOrigin := lastText "value_origin" p.kids, definition := lastText "definition" p.kids,
  reference := lastText "reference" p.kids, dependency := lastText "dependency" p.kids,
  dependencyValue := lastText "dependencyvalue" p.kids, id := lastText "id" p.kids }

def readProps : List Xml → List PropC
  | [] => []
  | k :: ks => if k.tag = "property" then readProp k :: readProps ks else readProps ks

mutual
def readSec : Xml → SecC
  | .elem _ _ _ ks =>
    .mk (lastText "name" ks) (lastText "type" ks) (lastText "definition" ks) (lastText "id" ks)
      (readProps ks) (readSecs ks)
def readSecs : List Xml → List SecC
  | [] => []
  | k :: ks => if k.tag = "section" then readSec k :: readSecs ks else readSecs ks
end

/-- The content the strict reader hands to the constructors. -/
def readDoc (x : Xml) : DocC := { id := lastText "id" x.kids, secs := readSecs x.kids }

/-- Structural acceptance conditions of `XMLReader(ignore_errors=False).parse_tag`:
    no XML attributes on Section / Property elements, every child tag is an argument of the
    class, the mandatory arguments are present. -/
def acceptsProp (p : Xml) : Bool :=
  p.attrs.isEmpty && p.kids.all (fun k => k.tag ∈ propKeys) && (find "name" p.kids).isSome

mutual
def acceptsSec : Xml → Bool
  | .elem _ a _ ks =>
    a.isEmpty && (find "name" ks).isSome && (find "type" ks).isSome && acceptsSecKids ks
def acceptsSecKids : List Xml → Bool
  | [] => true
  | k :: ks =>
    (k.tag ∈ secKeys) &&
    (if k.tag = "section" then acceptsSec k
     else if k.tag = "property" then acceptsProp k else true) && acceptsSecKids ks
end

def acceptsDocKids : List Xml → Bool
  | [] => true
  | k :: ks => (k.tag ∈ docKeys) && (if k.tag = "section" then acceptsSec k else true) &&
      acceptsDocKids ks

/-- `_handle_version` + `parse_tag` on the root. -/
def readerAccepts (x : Xml) : Bool :=
  x.tag == "odML" && x.attrs == [("version", Gen.Format.formatVersion.toList)] &&
  acceptsDocKids x.kids

/-! ## Specification: what an odML 1.0 document contains (independent of the rewrites above)

`content10` reads the *source* tree the way the property describes the 1.0 -> 1.1 mapping:
the Section tree; per named Property all non-blank value texts in order; unit, uncertainty,
dtype, file name (as value origin), definition and reference taken from the Property itself
or else from the first value element that carries them; `binary` read as `text`; the k-th
sibling with a name already used gets the suffix `-k`; a valid id is kept (normalised the way
`uuid.UUID` prints it), any other id is a fresh one. -/

/-- The value elements of a Property. -/
def valuesOf (p : Xml) : List Xml := p.kids.filter (fun k => k.tag == "value")

/-- All value texts in order: stripped, blank ones carry no value. -/
def vals10 (p : Xml) : List (List Char) :=
  (valuesOf p).filterMap (fun v => let s := Py.strip v.text; if s = [] then none else some s)

/-- The 1.1 name of a 1.0 value attribute. -/
def map11 (t : String) : String :=
  if t = "filename" then "value_origin" else if t = "dtype" then "type" else t

/-- Attributes kept on the values, in document order, under their 1.1 names. -/
def valueAttrs10 (p : Xml) : List (String × List Char) :=
  (valuesOf p).flatMap (fun v => (valueElems v).map (fun d =>
    (map11 d.tag, if isBinary d.tag d.text then "text".toList else d.text)))

/-- First occurrence wins: the Property's own element, else the first value that has one. -/
def attr10 (t : String) (p : Xml) : List Char :=
  match find t p.kids with
  | some k => Py.strip k.text
  | none =>
    match (valueAttrs10 p).lookup t with
    | some x => Py.strip x
    | none => []

/-- Sibling names are made unique by a numeric suffix: the first sibling with a name keeps it,
    the k-th one gets `-k` - or the next higher number with which the name is not the name of
    another sibling (`used`: the earlier siblings as renamed, the later ones as in the source). -/
def name10 (used prev : List (List Char)) (n : List Char) : List Char :=
  if prev.count n = 0 then n else suffix n (nextFree n used used.length (prev.count n + 1))

/-- Valid ids are kept, missing or malformed ones replaced. -/
def id10 (fresh : List Char) (ks : List Xml) : List Char :=
  match find "id" ks with
  | some k => Py.strip (idOf fresh k.text)
  | none => Py.strip fresh

def propC10 (fresh : List Char) (name : List Char) (p : Xml) : PropC := {
  name := Py.strip name, values := some (vals10 p), unit := attr10 "unit" p,
  uncertainty := attr10 "uncertainty" p, dtype := attr10 "type" p,
  valueOrigin := attr10 "value_origin" p, definition := attr10 "definition" p,
  reference := attr10 "reference" p, dependency := attr10 "dependency" p,
  dependencyValue :=
    (match find "dependency_value" p.kids with
     | some k => Py.strip k.text
     | none => attr10 "dependencyvalue" p),
  id := id10 fresh p.kids }

/-- Named Properties in order (`prev`: source names of the earlier named siblings, `done`: the
    names they got); unnamed dropped. -/
def props10 (fresh : List Char) (done prev : List (List Char)) : List Xml → List PropC
  | [] => []
  | k :: ks =>
    if k.tag = "property" then
      match find "name" k.kids with
      | some nm =>
        let y := name10 (done ++ propNames ks) prev nm.text
        propC10 fresh y k :: props10 fresh (done ++ [y]) (nm.text :: prev) ks
      | none => props10 fresh done prev ks
    else props10 fresh done prev ks

mutual
def secC10 (fresh : List Char) (name : List Char) : Xml → SecC
  | .elem _ _ _ ks =>
    .mk (Py.strip name) (Py.strip (findText "type" ks)) (Py.strip (findText "definition" ks))
      (id10 fresh ks) (props10 fresh [] [] ks) (secs10 fresh [] [] ks)
def secs10 (fresh : List Char) (done prev : List (List Char)) : List Xml → List SecC
  | [] => []
  | k :: ks =>
    if k.tag = "section" then
      let y := name10 (done ++ secNames ks) prev (findText "name" k.kids)
      secC10 fresh y k :: secs10 fresh (done ++ [y]) (findText "name" k.kids :: prev) ks
    else secs10 fresh done prev ks
end

def content10 (fresh : List Char) (x : Xml) : DocC :=
  { id := id10 fresh x.kids, secs := secs10 fresh [] [] x.kids }

/-! ### Decidable side conditions used by the theorems -/

mutual
/-- All Property elements of the Section skeleton, in document order. -/
def allProps : Xml → List Xml
  | .elem _ _ _ ks => allPropsL ks
def allPropsL : List Xml → List Xml
  | [] => []
  | k :: ks =>
    (if k.tag = "property" then [k] else if k.tag = "section" then allProps k else [])
      ++ allPropsL ks
end

mutual
/-- All Section elements of the skeleton, in document order. -/
def allSecs : Xml → List Xml
  | .elem _ _ _ ks => allSecsL ks
def allSecsL : List Xml → List Xml
  | [] => []
  | k :: ks => (if k.tag = "section" then k :: allSecs k else []) ++ allSecsL ks
end

/-! ### Well-formed odML 1.0 documents (hypothesis of the theorems; decidable) -/

/-- Every tag of `ts` occurs at most once among the children. -/
def uniqueTags (ks : List Xml) (ts : List String) : Bool :=
  ts.all (fun t => (ks.filter (fun k => k.tag == t)).length ≤ 1)

/-- Elements that describe the Property itself never sit on a value. -/
def propOnlyTags : List String := ["id", "name", "dependency", "dependencyvalue", "val_cardinality"]

def wfValue (v : Xml) : Bool := (valueElems v).all (fun d => !(propOnlyTags.contains d.tag))

/-- A name is present, non-empty and carries no surrounding white space. -/
def goodName (ks : List Xml) : Bool :=
  match find "name" ks with
  | some n => n.text ≠ [] && Py.strip n.text = n.text
  | none => false

def wfProp (p : Xml) : Bool :=
  p.attrs.isEmpty &&
  uniqueTags p.kids ("dependency_value" :: propKeys.filter (fun t => t != "value")) &&
  !((find "dependency_value" p.kids).isSome && (find "dependencyvalue" p.kids).isSome) &&
  ((find "name" p.kids).isNone || goodName p.kids) &&
  (valuesOf p).all wfValue

def wfSecOwn (s : Xml) : Bool :=
  s.attrs.isEmpty && uniqueTags s.kids ["name", "type", "id", "definition"] && goodName s.kids &&
  (find "type" s.kids).isSome

/-- Well-formed 1.0 document: of the modelled shape, root attributes at most `version` (and
    not the version of the 1.1 format), one id at most on the root, Sections named and typed,
    Properties and values as above. -/
def WF10 (x : Xml) : Bool :=
  Shape10 x && x.attrs.all (fun a => a.1 == "version") && !encodedValues x &&
  uniqueTags x.kids ["id"] &&
  (allSecs x).all wfSecOwn && (allProps x).all wfProp

/-! ## The JSON / YAML front ends (`_parse_dict_*`) -/

/-- Scalars of a parsed JSON / YAML document as far as the converter tells them apart. -/
inductive DScalar where
  | null
  | str (s : List Char)
  | int (i : Int)
  deriving Repr, DecidableEq

/-- A value dict, keys in file order. -/
structure DVal where
  items : List (String × DScalar)
  deriving Repr

inductive DPItem where
  | attr (k : String) (v : DScalar)
  | values (vs : List DVal)
  deriving Repr

/-- A Property dict, keys in file order. -/
structure DProp where
  items : List DPItem
  deriving Repr

mutual
/-- A Section dict (also the `Document` dict), keys in file order. -/
inductive DSec where
  | mk (items : List DSItem)
inductive DSItem where
  | attr (k : String) (v : DScalar)
  | props (ps : List DProp)
  | secs (ss : List DSec)
end

/-- `elem.text = d[key]` (Document / Section / Property level: strings and `None`;
    lxml raises TypeError for other scalars, which the tie keeps out). -/
def scalarText : DScalar → List Char
  | .null => []
  | .str s => s
  | .int i => Py.intToStr i

/-- `str(d[key])` (value level). -/
def scalarStr : DScalar → List Char
  | .null => "None".toList
  | .str s => s
  | .int i => Py.intToStr i

/-- `_parse_dict_values`, one value dict. -/
def valToTree (v : DVal) : Xml :=
  .elem "value" []
    (match v.items.lookup "value" with
     | some s => scalarStr s
     | none => [])
    ((v.items.filter (fun p => p.1 != "value" && p.1 != "")).map (fun p => leaf p.1 (scalarStr p.2)))

def pitemToTree : DPItem → List Xml
  | .attr k v => if k = "" then [] else [leaf k (scalarText v)]
  | .values vs => vs.map valToTree

/-- `_parse_dict_properties`, one Property dict. -/
def propToTree (p : DProp) : Xml := .elem "property" [] [] (p.items.flatMap pitemToTree)

mutual
/-- `_parse_dict_sections`, one Section dict. -/
def secToTree : DSec → Xml
  | .mk items => .elem "section" [] [] (sitemsToTree items)
def sitemsToTree : List DSItem → List Xml
  | [] => []
  | i :: is => sitemToTree i ++ sitemsToTree is
def sitemToTree : DSItem → List Xml
  | .attr k v => if k = "" then [] else [leaf k (scalarText v)]
  | .props ps => ps.map propToTree
  | .secs ss => secsToTree ss
def secsToTree : List DSec → List Xml
  | [] => []
  | s :: ss => secToTree s :: secsToTree ss
end

/-- `_parse_dict_document` on `parsed_doc['Document']`. -/
def docToTree : DSec → Xml
  | .mk items => .elem "odML" [] [] (sitemsToTree items)

/-! ## write_to_file -/

/-- `filename if filename.endswith((".xml", ".odml")) else filename + ".xml"` -/
def outName (f : List Char) : List Char :=
  if ".xml".toList.isSuffixOf f || ".odml".toList.isSuffixOf f then f else f ++ ".xml".toList

/-- A file system: path -> content. -/
abbrev FS := List Char → Option (List Char)

/-- `write_to_file(filename)`: the rendered document `data` replaces the content of exactly
    one path; nothing is written when the conversion raised. -/
def writeToFile (fs : FS) (out : List Char) (data : Option (List Char)) : FS :=
  match data with
  | some d => fun p => if p = outName out then some d else fs p
  | none => fs

end Conv
