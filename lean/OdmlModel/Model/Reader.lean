/-
C16 — model of the control flow of the readers:

* `XMLReader` (`odml/tools/xmlparser.py`): `_handle_version`, `from_string`, `parse_element`,
  `parse_tag` (attribute loop, child loop with `is_valid_argument`, argument collection,
  `check_mandatory_arguments`, object creation inside `try`, child insertion), `error`/`warn`.
* `DictReader` (`odml/tools/dict_parser.py`): `to_odml`, `parse_sections`, `parse_properties`,
  `is_valid_attribute`, `error`/`warn`.

Statement order follows the Python code. What the odML constructors, `from_csv` and `uuid` do is
a parameter (`Env`): the readers only look at *whether* a call raises (and at the name the created
object reports), and the theorems hold for every `Env`.

`Guards` switches the error handling that the `fix:` commits on branch `work-C16` added.
`Guards.fixed` is the code as it is now; `Guards.original` is the code before those commits, on
which the counterexample theorems of `Props/C16.lean` are stated.
-/
import OdmlModel.Py.Str
import OdmlModel.Model.Card
import OdmlModel.Model.ReaderXml
import OdmlModel.Generated.FormatTables

namespace Reader

structure Guards where
  /-- `parse_tag` skips nodes whose tag is not a string -/
  skipNonElem : Bool
  /-- `parse_tag` wraps `obj.append(child)` in `try` → `self.error` -/
  guardAppend : Bool
  /-- `parse_tag` wraps `from_csv` in `try` → `self.error` -/
  guardCsv : Bool
  /-- XML `parse_cardinality` tests `isdecimal()` instead of `isdigit()` -/
  decimalCard : Bool
  /-- `from_string` converts lxml's `ValueError` -/
  convertValueError : Bool
  /-- `to_odml` checks that the root and `Document` are dictionaries -/
  rootIsDict : Bool
  /-- `to_odml` wraps `Document.create(**attrs)` in `try` → `self.error` -/
  guardDocCreate : Bool
  /-- `to_odml` wraps `doc.append(sec)` in `try` → `self.error` -/
  guardDocAppend : Bool
  /-- `parse_sections` / `parse_properties` check list / dictionary shapes -/
  shapeChecks : Bool
  /-- `parse_sections` guards every `sec.append(child)` on its own -/
  perChildAppend : Bool
  deriving Repr

def Guards.fixed : Guards := ⟨true, true, true, true, true, true, true, true, true, true⟩
def Guards.original : Guards := ⟨false, false, false, false, false, false, false, false, false, false⟩

/-! ## Format tables (regenerated from `odml/format.py` on every run) -/

def argTable : Kind → List (String × Nat)
  | .doc => Gen.Format.documentArgs
  | .sec => Gen.Format.sectionArgs
  | .prop => Gen.Format.propertyArgs

def mapTable : Kind → List (String × String)
  | .doc => Gen.Format.documentMap
  | .sec => Gen.Format.sectionMap
  | .prop => Gen.Format.propertyMap

/-- `self.tags`: format name → format -/
def tagsTable : List (String × Kind) :=
  [(Gen.Format.documentName, .doc), (Gen.Format.sectionName, .sec), (Gen.Format.propertyName, .prop)]

/-- `t in fmt.arguments_keys` -/
def isArgKey (k : Kind) (t : Str) : Bool := (argTable k).any (fun p => p.1.toList == t)
/-- `t in fmt.map_keys` -/
def inMapKeys (k : Kind) (t : Str) : Bool := (mapTable k).any (fun p => p.1.toList == t)
/-- `fmt.map(t)` -/
def mapName (k : Kind) (t : Str) : Str :=
  match (mapTable k).find? (fun p => p.1.toList == t) with
  | some p => p.2.toList
  | none => t
/-- `fmt.revmap(t)` -/
def revMap (k : Kind) (t : Str) : Option Str :=
  match (mapTable k).find? (fun p => p.2.toList == t) with
  | some p => some p.1.toList
  | none => none
/-- `self.tags.get(t)` -/
def kindOfTag (t : Str) : Option Kind :=
  match tagsTable.find? (fun p => p.1.toList == t) with
  | some p => some p.2
  | none => none

def endsWith (s suffix : Str) : Bool := suffix.reverse.isPrefixOf s.reverse

/-! ## Objects: creation and `append` -/

/-- `obj.name in smartlist`: only given names can clash (a fresh uuid equals nothing). -/
def clash (eq : ν → ν → Bool) (n : Name ν) (l : List (Obj ν)) : Bool :=
  match n with
  | .fresh => false
  | .given a => l.any (fun o => match o.name with | .given b => eq b a | .fresh => false)

/-- Which child list of a parent of kind `pk` takes a child of kind `ck`
    (`true`: `_sections`, `false`: `_props`; `none`: `append` raises `ValueError`). -/
def slotOf : Kind → Kind → Option Bool
  | .doc, .sec => some true
  | .sec, .sec => some true
  | .sec, .prop => some false
  | _, _ => none

/-- `parent.append(child)` of `Document` (`Sectionable.append`) and `Section`:
    `KeyError` when a sibling of the same sort has the name, `ValueError` for a wrong sort. -/
def appendObj (eq : ν → ν → Bool) (parent child : Obj ν) : Except Leak (Obj ν) :=
  match slotOf parent.kind child.kind with
  | none => .error .valueError
  | some true =>
    if clash eq child.name parent.secs then .error .keyError
    else .ok (.mk parent.kind parent.name parent.made parent.props (parent.secs ++ [child]))
  | some false =>
    if clash eq child.name parent.props then .error .keyError
    else .ok (.mk parent.kind parent.name parent.made (parent.props ++ [child]) parent.secs)

/-! ## XML reader -/

/-- Values of the keyword arguments the XML reader collects for a constructor call. -/
inductive AVal where
  | none
  | text (s : Str)
  | values (raw : Str)          -- `from_csv(raw)`; what it returns is the constructor's business
  | card (c : Card.Card)
  deriving DecidableEq, Repr

abbrev Args := List (Str × AVal)

def Args.has (a : Args) (k : Str) : Bool := a.any (fun p => p.1 == k)
/-- `arguments[k] = v` -/
def Args.set (a : Args) (k : Str) (v : AVal) : Args :=
  if a.has k then a.map (fun p => if p.1 == k then (k, v) else p) else a ++ [(k, v)]
def Args.get (a : Args) (k : Str) : Option AVal :=
  match a.find? (fun p => p.1 == k) with
  | some p => some p.2
  | none => none

/-- What the reader does not decide itself. -/
structure Env where
  /-- `from_csv(raw)` raises `csv.Error` -/
  csvFails : Str → Bool
  /-- `fmt.create(**args)` raises (any exception class) -/
  createFails : Kind → Args → Bool
  /-- name of the object created from `args` when the name argument is empty
      (its id: the canonical form of a valid `oid`, a fresh uuid otherwise) -/
  autoName : Kind → Args → Name Str

/-- The name `fmt.create(**args)` gives the object. -/
def objName (env : Env) (k : Kind) (a : Args) : Name Str :=
  match k with
  | .doc => .fresh
  | _ =>
    match a.get "name".toList with
    | some (.text s) => if s.isEmpty then env.autoName k a else .given s
    | _ => env.autoName k a

/-- `node.text.strip() if node.text else None` -/
def curText : Option Str → AVal
  | none => .none
  | some t => if t.isEmpty then .none else .text (Py.strip t)

def AVal.truthy : AVal → Bool
  | .text s => !s.isEmpty
  | _ => false

/-- A field of a cardinality text that `str.isdigit()` accepts and `int()` refuses
    (superscript digits; the generated texts use ASCII digits and these only). -/
def superDigit (c : Char) : Bool := c == '²' || c == '³' || c == '¹'
def digitNotDecimal (f : Str) : Bool :=
  !f.isEmpty && f.all (fun c => c.isDigit || superDigit c) && f.any superDigit

/-- `int()` raises inside the original `parse_cardinality(val)`. -/
def cardIntRaises (val : Str) : Bool :=
  match Py.splitOn ',' (Py.slice1m1 (Py.strip val)) with
  | [a, b] => digitNotDecimal (Py.strip a) || digitNotDecimal (Py.strip b)
  | _ => false

/-- State of the child loop of `parse_tag`: `arguments`, keys of `extra_args`, `children`,
    number of warnings. -/
structure Loop where
  args : Args
  extra : List Str
  children : List (Obj Str)
  w : Nat

/-- The non-object branch of the child loop: one argument element `<t>text</t>`. -/
def argStep (g : Guards) (env : Env) (m : Mode) (kind : Kind) (t : Str) (text : Option Str)
    (st : Loop) : Except Err Loop :=
  let an := mapName kind t
  -- "Element <..> is given multiple times": a warning in both modes
  let w := if st.args.has an then st.w + 1 else st.w
  let cur := curText text
  let raw := text.getD []
  if an == "values".toList && cur.truthy then
    if env.csvFails raw then
      if g.guardCsv then do
        let w' ← raiseOrWarn m w
        pure { st with w := w' }
      else .error (.leak .csvError)
    else pure { st with args := st.args.set an (.values raw), w := w }
  else if endsWith an "_cardinality".toList && cur.truthy then
    if !g.decimalCard && cardIntRaises raw then .error (.leak .valueError)
    else pure { st with args := st.args.set an (.card (Card.parseCardText raw)), w := w }
  else pure { st with args := st.args.set an cur, w := w }

/-- `check_mandatory_arguments`: one `self.error` per missing mandatory key. -/
def checkMandatory (m : Mode) (kind : Kind) (present : List Str) :
    List (String × Nat) → Nat → Except Err Nat
  | [], w => pure w
  | (k, req) :: rest, w =>
    (if req != 0 && !(present.contains (mapName kind k.toList)) then raiseOrWarn m w else pure w)
      >>= fun w' => checkMandatory m kind present rest w'

/-- the attribute loop of `parse_tag` -/
def attrLoop (m : Mode) (tag : Str) : List (Str × Str) → Nat → Except Err Nat
  | [], w => pure w
  | (k, _) :: rest, w =>
    if Py.lower k == "version".toList && tag == "odML".toList then attrLoop m tag rest w
    else do
      let w' ← raiseOrWarn m w
      attrLoop m tag rest w'

/-- `for child in children: obj.append(child)` -/
def insertChildren (g : Guards) (m : Mode) : Obj Str → List (Obj Str) → Nat → Except Err (Obj Str × Nat)
  | obj, [], w => pure (obj, w)
  | obj, c :: cs, w =>
    match appendObj (· == ·) obj c with
    | .ok obj' => insertChildren g m obj' cs w
    | .error l =>
      if g.guardAppend then do
        let w' ← raiseOrWarn m w
        insertChildren g m obj cs w'
      else .error (.leak l)

/-- the part of `parse_tag` after the child loop -/
def finishTag (g : Guards) (env : Env) (m : Mode) (kind : Kind) (insert : Bool) (st : Loop) :
    Except Err (Obj Str × Nat) :=
  checkMandatory m kind (st.args.map (·.1) ++ st.extra) (argTable kind) st.w >>= fun w1 =>
  -- obj = fmt.create(); try: obj = fmt.create(**arguments) except Exception: self.error(..)
  (if env.createFails kind st.args then
      raiseOrWarn m w1 >>= fun w' => pure (Obj.mk kind Name.fresh false [] [], w')
    else pure (Obj.mk kind (objName env kind st.args) true [] [], w1)) >>= fun p =>
  if insert then insertChildren g m p.1 st.children p.2 else pure p

mutual
/-- `parse_tag(root, fmt, insert_children)`; `tag` is `root.tag` as the parent loop left it
    (lower-cased for every node but the document root). -/
def parseTag (g : Guards) (env : Env) (m : Mode) (kind : Kind) (insert : Bool) (tag : Str) :
    Xml → Nat → Except Err (Obj Str × Nat)
  | .other _, _ => .error (.leak .attributeError)      -- never called on a non-element
  | .elem _ attrs _ kids, w => do
    let w0 ← attrLoop m tag attrs w
    let st ← parseKids g env m kind kids ⟨[], [], [], w0⟩
    finishTag g env m kind insert st

/-- the child loop of `parse_tag` -/
def parseKids (g : Guards) (env : Env) (m : Mode) (kind : Kind) :
    List Xml → Loop → Except Err Loop
  | [], st => pure st
  | .other _ :: rest, st =>
    -- `node.tag.lower()` on a function object
    if g.skipNonElem then parseKids g env m kind rest st
    else .error (.leak .attributeError)
  | .elem t0 attrs text kids :: rest, st =>
    let t := Py.lower t0
    if isArgKey kind t then
      match kindOfTag t, inMapKeys kind t with
      | some k', true => do
        -- sub_obj = self.parse_element(node)
        let (o, w') ← parseTag g env m k' (k' != .prop) t (.elem t0 attrs text kids) st.w
        parseKids g env m kind rest
          { st with extra := st.extra ++ [mapName kind t], children := st.children ++ [o], w := w' }
      | _, _ => do
        let st' ← argStep g env m kind t text st
        parseKids g env m kind rest st'
    else do
      -- is_valid_argument reports it, then the else-branch of the loop reports it again
      let w1 ← raiseOrWarn m st.w
      let w2 ← raiseOrWarn m w1
      parseKids g env m kind rest { st with w := w2 }
end

/-- What `_handle_version(root)` decides. -/
inductive RootVerdict where
  | notOdml | noVersion | wrongVersion | ok
  deriving DecidableEq, Repr

/-- `_handle_version(root)` -/
def rootVerdict : Xml → RootVerdict
  | .other _ => .notOdml
  | .elem tag attrs _ _ =>
    if tag != "odML".toList then .notOdml
    else match attrs.find? (fun p => p.1 == "version".toList) with
      | none => .noVersion
      | some (_, v) => if v != Gen.Format.formatVersion.toList then .wrongVersion else .ok

/-- `parse_element(root)` for a root that passed the version check -/
def parseRoot (g : Guards) (env : Env) (m : Mode) : Xml → Except Err (Obj Str × Nat)
  | .other _ => .error .parserException
  | .elem tag attrs text kids => parseTag g env m .doc true tag (.elem tag attrs text kids) 0

/-- `_handle_version(root)` followed by `parse_element(root)`. -/
def readXml (g : Guards) (env : Env) (m : Mode) (x : Xml) : Except Err (Obj Str × Nat) :=
  match rootVerdict x with
  | .notOdml => .error .parserException
  | .noVersion => .error .parserException
  | .wrongVersion => .error .invalidVersion
  | .ok => parseRoot g env m x

/-- `XMLReader.from_string`. -/
def readXmlText (g : Guards) (env : Env) (m : Mode) : Parsed → Except Err (Obj Str × Nat)
  | .syntaxError => .error .parserException
  | .valueError => if g.convertValueError then .error .parserException else .error (.leak .valueError)
  | .tree x => readXml g env m x

mutual
/-- The constructor calls `fmt.create(**arguments)` a lenient read of the node makes (children
    first), with the collected arguments. The driver uses it to ask the real constructors
    whether they raise (the `Env` of the second request). -/
def callsTag (g : Guards) (env : Env) (kind : Kind) : Xml → List (Kind × Args)
  | .other _ => []
  | .elem _ _ _ kids =>
    match parseKids g env .lenient kind kids ⟨[], [], [], 0⟩ with
    | .ok st => callsKids g env kind kids ++ [(kind, st.args)]
    | .error _ => []
def callsKids (g : Guards) (env : Env) (kind : Kind) : List Xml → List (Kind × Args)
  | [] => []
  | .other _ :: rest => callsKids g env kind rest
  | .elem t0 attrs text kids :: rest =>
    let t := Py.lower t0
    match isArgKey kind t, kindOfTag t, inMapKeys kind t with
    | true, some k', true => callsTag g env k' (.elem t0 attrs text kids) ++ callsKids g env kind rest
    | _, _, _ => callsKids g env kind rest
end

/-! ### Stack need of the XML reader (nesting depth)

The reader is recursive: `parse_element(node)` calls `parse_<tag>(node, fmt)`, that calls
`parse_tag(node, fmt)`, and the child loop of `parse_tag` calls `parse_element` again for every
child that is an odML object. Each of the three is a Python frame, and Python allows only
`sys.getrecursionlimit()` frames. libxml2 refuses documents nested deeper than 256 elements,
so the question "can a document the XML library accepts exhaust the stack" is a statement about
this function. It follows `parseKids`: only the children that `parseKids` hands to `parseTag` cost
frames, one child after the other (the frames of a finished child are given back). -/

/-- frames per nested object: `parse_element` → `parse_<tag>` → `parse_tag` -/
def framesPerObject : Nat := 3

/-- frames of the reader's own module that `parse_tag` puts on top of itself at any one time when it
    does not recurse (`error` → `warn`, `check_mandatory_arguments`, `is_valid_argument`, `from_csv`,
    `parse_cardinality`): an allowance, the code needs 2 -/
def helperFrames : Nat := 8

mutual
/-- frames of `parse_element` / `parse_<tag>` / `parse_tag` on the stack at the deepest point of
    `parse_element(node)` (an upper bound in strict mode, where a read may end early) -/
def stackTag (kind : Kind) : Xml → Nat
  | .other _ => 0
  | .elem _ _ _ kids => framesPerObject + stackKids kind kids
/-- the child loop of `parse_tag` -/
def stackKids (kind : Kind) : List Xml → Nat
  | [] => 0
  | .other _ :: rest => stackKids kind rest
  | .elem t0 attrs text kids :: rest =>
    let t := Py.lower t0
    match isArgKey kind t, kindOfTag t, inMapKeys kind t with
    | true, some k', true => max (stackTag k' (.elem t0 attrs text kids)) (stackKids kind rest)
    | _, _, _ => stackKids kind rest
end

mutual
/-- nesting depth of the elements of a tree (what libxml2 limits); other nodes do not nest -/
def Xml.depth : Xml → Nat
  | .other _ => 0
  | .elem _ _ _ kids => 1 + Xml.depthList kids
def Xml.depthList : List Xml → Nat
  | [] => 0
  | x :: rest => max (Xml.depth x) (Xml.depthList rest)
end

/-- frames of the reader's module during `from_string` / `from_file` of a document with this tree:
    the entry point, the objects, the helpers -/
def readerStack (x : Xml) : Nat := 1 + stackTag .doc x + helperFrames

/-! ## Dictionary reader -/

/-- Python operations on JSON-like values, as far as `DictReader` uses them. -/
def pyIter : J → Except Leak (List J)
  | .str s => .ok (s.map (fun c => J.str [c]))
  | .arr xs => .ok xs
  | .obj kvs => .ok (kvs.map (fun p => J.str p.1))
  | _ => .error .typeError

def isInfix (n : Str) : Str → Bool
  | [] => n.isEmpty
  | c :: cs => n.isPrefixOf (c :: cs) || isInfix n cs

/-- `key in x` for a string key -/
def pyInStr (key : Str) : J → Except Leak Bool
  | .obj kvs => .ok (kvs.any (fun p => p.1 == key))
  | .arr xs => .ok (xs.any (fun v => match v with | .str s => s == key | _ => false))
  | .str s => .ok (isInfix key s)
  | _ => .error .typeError

def lookupKey (key : Str) (kvs : List (Str × J)) : Option J :=
  match kvs.find? (fun p => p.1 == key) with
  | some p => some p.2
  | none => none

/-- `x.get(key)` -/
def pyGet (key : Str) : J → Except Leak J
  | .obj kvs => .ok ((lookupKey key kvs).getD .null)
  | _ => .error .attributeError

/-- `x[key]` for a string key -/
def pyGetItem (key : Str) : J → Except Leak J
  | .obj kvs => match lookupKey key kvs with
    | some v => .ok v
    | none => .error .keyError
  | _ => .error .typeError

def liftLeak : Except Leak α → Except Err α
  | .ok a => .ok a
  | .error l => .error (.leak l)

/-- Keyword argument values of the dictionary reader: the raw value, or a parsed cardinality. -/
inductive DVal where
  | raw (j : J)
  | card (c : Card.Card)
  deriving Repr

def DVal.beq : DVal → DVal → Bool
  | .raw a, .raw b => J.beq a b
  | .card a, .card b => a == b
  | _, _ => false

abbrev DArgs := List (Str × DVal)

def DArgs.has (a : DArgs) (k : Str) : Bool := a.any (fun p => p.1 == k)
def DArgs.set (a : DArgs) (k : Str) (v : DVal) : DArgs :=
  if a.has k then a.map (fun p => if p.1 == k then (k, v) else p) else a ++ [(k, v)]
def DArgs.get (a : DArgs) (k : Str) : Option DVal :=
  match a.find? (fun p => p.1 == k) with
  | some p => some p.2
  | none => none

structure DEnv where
  /-- `fmt.create(**attrs)` raises -/
  createFails : Kind → DArgs → Bool
  /-- name of the created object when the name argument is falsy -/
  autoName : Kind → DArgs → Name J

def dObjName (env : DEnv) (k : Kind) (a : DArgs) : Name J :=
  match k with
  | .doc => .fresh
  | _ =>
    match a.get "name".toList with
    | some (.raw j) => if j.truthy then .given j else env.autoName k a
    | _ => env.autoName k a

def toDIn : J → Card.DIn
  | .null => .nul
  | .bool b => .bool b
  | .num i => .int i
  | .str s => .str (String.ofList s)
  | .flt r => .other (J.truthy (.flt r))
  | .arr xs => .other (!xs.isEmpty)
  | .obj kvs => .other (!kvs.isEmpty)

/-- `dict_parser.parse_cardinality(vals)` -/
def parseCardJ (v : J) : Card.Card :=
  match v with
  | .arr [a, b] => Card.parseCardList (toDIn a) (toDIn b)
  | _ => none

/-- `is_valid_attribute(i, fmt)`: the attribute if valid, else `self.error` and `None`. -/
def validAttr (m : Mode) (kind : Kind) (i : J) (w : Nat) : Except Err (Option Str × Nat) :=
  match i with
  | .str s =>
    if isArgKey kind s || (revMap kind s).isSome then pure (some s, w)
    else do
      let w' ← raiseOrWarn m w
      pure (none, w')
  | .arr _ | .obj _ => .error (.leak .typeError)        -- unhashable in `in dict.keys()`
  | _ => do
    let w' ← raiseOrWarn m w
    pure (none, w')

/-- `attrs[fmt.map(attr)] = content` with the cardinality conversion -/
def setAttr (kind : Kind) (attr : Str) (v : J) (a : DArgs) : DArgs :=
  a.set (mapName kind attr)
    (if endsWith attr "_cardinality".toList then .card (parseCardJ v) else .raw v)

/-- The attribute loop over something that is not a dictionary (only reachable without the
    shape checks): every valid attribute ends in `entry[attr]` → `TypeError`. -/
def nonDictAttrs (m : Mode) (kind : Kind) : List J → Nat → Except Err Nat
  | [], w => pure w
  | i :: rest, w => do
    let (a, w') ← validAttr m kind i w
    match a with
    | some _ => .error (.leak .typeError)
    | none => nonDictAttrs m kind rest w'

/-- The attribute loop of `parse_properties` over one dictionary. -/
def propPairs (m : Mode) : List (Str × J) → DArgs → Nat → Except Err (DArgs × Nat)
  | [], a, w => pure (a, w)
  | (k, v) :: rest, a, w => do
    let (attr, w') ← validAttr m .prop (.str k) w
    match attr with
    | some key => propPairs m rest (setAttr .prop key v a) w'
    | none => propPairs m rest a w'

/-- one entry of `props_list` -/
def parseProp (g : Guards) (env : DEnv) (m : Mode) (entry : J) (acc : List (Obj J)) (w : Nat) :
    Except Err (List (Obj J) × Nat) :=
  if g.shapeChecks && !entry.isDict then do
    let w' ← raiseOrWarn m w
    pure (acc, w')
  else do
    let (attrs, w1) ← match entry with
      | .obj kvs => propPairs m kvs [] w
      | other => do
        let items ← liftLeak (pyIter other)
        let w' ← nonDictAttrs m .prop items w
        pure (([] : DArgs), w')
    if env.createFails .prop attrs then do
      let w' ← raiseOrWarn m w1
      pure (acc, w')
    else pure (acc ++ [Obj.mk .prop (dObjName env .prop attrs) true [] []], w1)

def parsePropList (g : Guards) (env : DEnv) (m : Mode) :
    List J → List (Obj J) → Nat → Except Err (List (Obj J) × Nat)
  | [], acc, w => pure (acc, w)
  | e :: rest, acc, w => do
    let (acc', w') ← parseProp g env m e acc w
    parsePropList g env m rest acc' w'

/-- `parse_properties(props_list)` -/
def parseProps (g : Guards) (env : DEnv) (m : Mode) (pl : J) (w : Nat) :
    Except Err (List (Obj J) × Nat) :=
  if g.shapeChecks && !pl.isList then do
    let w' ← raiseOrWarn m w
    pure ([], w')
  else do
    let items ← liftLeak (pyIter pl)
    parsePropList g env m items [] w

/-- `for child in ...: sec.append(child)`, every refusal reported on its own -/
def insertEach (m : Mode) : Obj J → List (Obj J) → Nat → Except Err (Obj J × Nat)
  | obj, [], w => pure (obj, w)
  | obj, c :: cs, w =>
    match appendObj J.pyEq obj c with
    | .ok obj' => insertEach m obj' cs w
    | .error _ => do
      let w' ← raiseOrWarn m w
      insertEach m obj cs w'

/-- all appends inside one `try`: the first refusal ends it -/
def insertAll : Obj J → List (Obj J) → Option (Obj J)
  | obj, [] => some obj
  | obj, c :: cs =>
    match appendObj J.pyEq obj c with
    | .ok obj' => insertAll obj' cs
    | .error _ => none

/-- creation of one Section and insertion of its parsed children -/
def finishSec (g : Guards) (env : DEnv) (m : Mode) (attrs : DArgs) (props secs : List (Obj J))
    (acc : List (Obj J)) (w : Nat) : Except Err (List (Obj J) × Nat) :=
  if env.createFails .sec attrs then do
    let w' ← raiseOrWarn m w
    pure (acc, w')
  else
    let obj := Obj.mk .sec (dObjName env .sec attrs) true [] []
    if g.perChildAppend then do
      let (obj', w') ← insertEach m obj (props ++ secs) w
      pure (acc ++ [obj'], w')
    else
      match insertAll obj (props ++ secs) with
      | some obj' => pure (acc ++ [obj'], w)
      | none => do
        let w' ← raiseOrWarn m w
        pure (acc, w')

/-- State of the attribute loop of `parse_sections` over one dictionary. -/
structure SecLoop where
  attrs : DArgs
  props : List (Obj J)
  secs : List (Obj J)
  w : Nat

/-- an entry of `section_list` that is not a dictionary (only without the shape checks) -/
def parseSecNonDict (g : Guards) (env : DEnv) (m : Mode) (entry : J) (acc : List (Obj J)) (w : Nat) :
    Except Err (List (Obj J) × Nat) := do
  let items ← liftLeak (pyIter entry)
  let w' ← nonDictAttrs m .sec items w
  finishSec g env m [] [] [] acc w'

mutual
/-- `parse_sections(section_list)` -/
def parseSections (g : Guards) (env : DEnv) (m : Mode) : J → Nat → Except Err (List (Obj J) × Nat)
  | .arr xs, w => parseSecList g env m xs [] w
  | other, w =>
    if g.shapeChecks then do
      let w' ← raiseOrWarn m w
      pure ([], w')
    else do
      -- a string or a dictionary is iterated; its items are strings
      let items ← liftLeak (pyIter other)
      items.foldlM (fun (st : List (Obj J) × Nat) e => parseSecNonDict g env m e st.1 st.2) ([], w)

def parseSecList (g : Guards) (env : DEnv) (m : Mode) :
    List J → List (Obj J) → Nat → Except Err (List (Obj J) × Nat)
  | [], acc, w => pure (acc, w)
  | .obj kvs :: rest, acc, w => do
    let st ← secPairs g env m kvs ⟨[], [], [], w⟩
    let (acc', w') ← finishSec g env m st.attrs st.props st.secs acc st.w
    parseSecList g env m rest acc' w'
  | e :: rest, acc, w =>
    if g.shapeChecks then do
      let w' ← raiseOrWarn m w
      parseSecList g env m rest acc w'
    else do
      let (acc', w') ← parseSecNonDict g env m e acc w
      parseSecList g env m rest acc' w'

/-- the attribute loop of `parse_sections` over one dictionary -/
def secPairs (g : Guards) (env : DEnv) (m : Mode) : List (Str × J) → SecLoop → Except Err SecLoop
  | [], st => pure st
  | (k, v) :: rest, st => do
    let (attr, w') ← validAttr m .sec (.str k) st.w
    match attr with
    | none => secPairs g env m rest { st with w := w' }
    | some key =>
      if key == "properties".toList then do
        let (ps, w'') ← parseProps g env m v w'
        secPairs g env m rest { st with props := ps, w := w'' }
      else if key == "sections".toList then do
        let (ss, w'') ← parseSections g env m v w'
        secPairs g env m rest { st with secs := ss, w := w'' }
      else secPairs g env m rest { st with attrs := setAttr .sec key v st.attrs, w := w' }
end

/-- State of the attribute loop of `to_odml`. -/
structure DocLoop where
  attrs : DArgs
  secs : List (Obj J)
  w : Nat

def docPairs (g : Guards) (env : DEnv) (m : Mode) : List (Str × J) → DocLoop → Except Err DocLoop
  | [], st => pure st
  | (k, v) :: rest, st => do
    let (attr, w') ← validAttr m .doc (.str k) st.w
    match attr with
    | none => docPairs g env m rest { st with w := w' }
    | some key =>
      if key == "sections".toList then do
        let (ss, w'') ← parseSections g env m v w'
        docPairs g env m rest { st with secs := ss, w := w'' }
      else docPairs g env m rest { st with attrs := setAttr .doc key v st.attrs, w := w' }

/-- `for sec in doc_secs: doc.append(sec)` -/
def insertDocSecs (g : Guards) (m : Mode) : Obj J → List (Obj J) → Nat → Except Err (Obj J × Nat)
  | doc, [], w => pure (doc, w)
  | doc, c :: cs, w =>
    match appendObj J.pyEq doc c with
    | .ok doc' => insertDocSecs g m doc' cs w
    | .error l =>
      if g.guardDocAppend then do
        let w' ← raiseOrWarn m w
        insertDocSecs g m doc cs w'
      else .error (.leak l)

/-- `to_odml` after the root and version checks: `d` is `parsed_doc['Document']`. -/
def readDoc (g : Guards) (env : DEnv) (m : Mode) (d : J) : Except Err (Obj J × Nat) :=
  (match d with
    | .obj kvs => docPairs g env m kvs ⟨[], [], 0⟩
    | other =>
      liftLeak (pyIter other) >>= fun items =>
      nonDictAttrs m .doc items 0 >>= fun w => pure (⟨[], [], w⟩ : DocLoop)) >>= fun st =>
  -- doc = Document.create(); try: doc = Document.create(**doc_attrs) except Exception: self.error(..)
  (if env.createFails .doc st.attrs then
      if g.guardDocCreate then
        raiseOrWarn m st.w >>= fun w' => pure (Obj.mk Kind.doc Name.fresh false [] [], w')
      else .error (.leak .ctorError)
    else pure (Obj.mk Kind.doc Name.fresh true [] [], st.w)) >>= fun p =>
  insertDocSecs g m p.1 st.secs p.2

/-- What the root and version checks of `to_odml` decide. -/
inductive DictVerdict where
  | leak (l : Leak) | refused | wrongVersion | ok (d : J)

/-- the statements of `to_odml` up to `self.parsed_doc = self.parsed_doc['Document']` -/
def dictVerdict (g : Guards) (x : J) : DictVerdict :=
  if g.rootIsDict && !x.isDict then .refused else
  match pyInStr "Document".toList x with
  | .error l => .leak l
  | .ok false => .refused
  | .ok true =>
  match pyInStr "odml-version".toList x with
  | .error l => .leak l
  | .ok false => .refused
  | .ok true =>
  match pyGet "odml-version".toList x with
  | .error l => .leak l
  | .ok v =>
  if !(J.beq v (.str Gen.Format.formatVersion.toList)) then .wrongVersion else
  match pyGetItem "Document".toList x with
  | .error l => .leak l
  | .ok d => if g.rootIsDict && !d.isDict then .refused else .ok d

/-- `DictReader.to_odml(parsed_doc)` -/
def readDict (g : Guards) (env : DEnv) (m : Mode) (x : J) : Except Err (Obj J × Nat) :=
  match dictVerdict g x with
  | .leak l => .error (.leak l)
  | .refused => .error .parserException
  | .wrongVersion => .error .invalidVersion
  | .ok d => readDoc g env m d

/-- The constructor calls a lenient read of the Sections / Properties below a value makes. -/
def dPropCalls (m : Mode) : List J → List (Kind × DArgs)
  | [] => []
  | .obj kvs :: rest =>
    (match propPairs m kvs [] 0 with
     | .ok (a, _) => [(Kind.prop, a)]
     | .error _ => []) ++ dPropCalls m rest
  | _ :: rest => dPropCalls m rest

mutual
def dSecCalls (g : Guards) (env : DEnv) : List J → List (Kind × DArgs)
  | [] => []
  | .obj kvs :: rest =>
    dPairCalls g env kvs ++
    (match secPairs g env .lenient kvs ⟨[], [], [], 0⟩ with
     | .ok st => [(Kind.sec, st.attrs)]
     | .error _ => []) ++ dSecCalls g env rest
  | _ :: rest => dSecCalls g env rest
def dPairCalls (g : Guards) (env : DEnv) : List (Str × J) → List (Kind × DArgs)
  | [] => []
  | (k, .arr xs) :: rest =>
    (if k == "properties".toList then dPropCalls .lenient xs
     else if k == "sections".toList then dSecCalls g env xs else []) ++ dPairCalls g env rest
  | _ :: rest => dPairCalls g env rest
end

/-- All constructor calls of a lenient read of a well-shaped root (driver helper). -/
def dCalls (g : Guards) (env : DEnv) (x : J) : List (Kind × DArgs) :=
  match x with
  | .obj top =>
    match lookupKey "Document".toList top with
    | some (.obj kvs) =>
      dPairCalls g env kvs ++
      (match docPairs g env .lenient kvs ⟨[], [], 0⟩ with
       | .ok st => [(Kind.doc, st.attrs)]
       | .error _ => [])
    | _ => []
  | _ => []

end Reader
