import Driver.HeapCommon
import Driver.Loop

def main : IO Unit := Drv.runLoop DrvHeap.handle
