import Driver.Util
import Driver.Loop
open Lean Drv

namespace DrvC03

/-- Stub: replaced when the model of C03 is built. -/
def handle (_j : Json) : Except String Json := throw "model of C03 not built"

end DrvC03

def main : IO Unit := Drv.runLoop DrvC03.handle
