import Driver.HeapCommon
import Driver.Loop
import OdmlModel.Model.HeapExt
open Lean Drv

/-!
C03 driver: the shared heap protocol (`run`, `uuid`: `DrvHeap.handle`, also used by the C04 and C06
checks) plus `runx`: histories over the extended operation set of `Model/HeapExt.lean`
(primitive operations, clone, merge, the link setter, clean), each extended operation with the
oracle tables the harness observed on the implementation before it ran the operation.
Trusted JSON glue, outside the proofs.
-/
namespace DrvC03
open Heap

def pairs (j : Json) (k : String) : Except String (List (Nat × Nat)) :=
  match j.getObjVal? k with
  | .ok (.arr a) => a.toList.mapM fun p => do
      match p with
      | .arr #[x, y] => pure ((← x.getNat?), (← y.getNat?))
      | _ => throw s!"bad pair in {k}"
  | _ => pure []

def strs (j : Json) (k : String) : Except String (List String) :=
  match j.getObjVal? k with
  | .ok (.arr a) => a.toList.mapM fun s => s.getStr?
  | _ => pure []

/-- `base` = number of objects before the operation: fresh ids are listed in creation order. -/
def decOracle (j : Json) (base : Nat) : Except String Oracle := do
  let ty ← strs j "ty"
  let secBad ← pairs j "sec_bad"
  let propBad ← pairs j "prop_bad"
  let eq ← pairs j "eq"
  let relBad ← pairs j "rel_bad"
  let fresh ← strs j "fresh"
  -- the Section found by the link the receiver of a link assignment has stored already
  let oldT ← DrvHeap.optNat j "old_target"
  let recv ← DrvHeap.optNat j "x"
  pure { ty := fun i => ty.getD i "",
         oldLink := fun i => if some i = recv then oldT else none,
         secOk := fun a b => !secBad.contains (a, b),
         propOk := fun a b => !propBad.contains (a, b),
         eq := fun a b => eq.contains (a, b),
         relOk := fun a b => !relBad.contains (a, b),
         ids := fun i => fresh.getD (i - base) "" }

def decXOp (j : Json) : Except String XOp := do
  let op ← getStr j "op"
  match op with
  | "clone" => pure (.clone (← getNat j "x") (← getBool j "children") (← getBool j "keep_id"))
  | "merge" => pure (.merge (← getNat j "dest") (← getNat j "src"))
  | "clean" => pure (.clean (← getNat j "x"))
  | "set_link" =>
    let v ← getStr j "val"
    let lv ← match v with
      | "none" => pure LinkVal.none
      | "falsy" => pure LinkVal.falsy
      | "path" => pure (LinkVal.path (← DrvHeap.optNat j "target"))
      | _ => throw s!"bad link value {v}"
    pure (.setLink (← getNat j "x") lv)
  | _ => pure (.prim (← DrvHeap.decOp j))

def xoutStr : XOut → Json
  | .ok => jstr "ok"
  | .raised e => jstr (DrvHeap.excStr e)
  | .runtime => jstr "RuntimeError"
  | .fuel => jstr "fuel"

def snapshotX (s : X) : Json :=
  jarr ((List.range s.h.size).map fun i =>
    let n := s.h.node i
    jobj [("kind", jstr (DrvHeap.kindStr n.kind)), ("name", jstr (if n.kind = .doc then "" else n.name)),
          ("id", jstr n.id),
          ("parent", match n.parent with | none => Json.null | some p => jnat p),
          ("secs", jarr (n.secs.map jnat)), ("props", jarr (n.props.map jnat)),
          ("merged", match (if n.kind = .sec then s.merged i else none) with
                     | none => Json.null | some p => jnat p),
          ("link", jbool (n.kind = .sec && s.link i)),
          ("doc", DrvHeap.docJson s.h i)])

def runTraceX (fuel : Nat) (ops : List Json) : Except String Json := do
  let rec go (s : X) : List Json → Except String (List Json)
    | [] => pure []
    | j :: rest => do
      let op ← decXOp j
      let O ← decOracle j s.h.size
      let r := stepX fuel s O op
      let tl ← go r.1 rest
      pure (jobj [("out", xoutStr r.2), ("snap", snapshotX r.1)] :: tl)
  pure (jarr (← go X.empty ops))

def handle (j : Json) : Except String Json := do
  let op ← getStr j "op"
  match op with
  | "runx" => runTraceX (← getNat j "fuel") (← getArr j "ops").toList
  | _ => DrvHeap.handle j

end DrvC03

def main : IO Unit := Drv.runLoop DrvC03.handle
