import Driver.Util
import Driver.Loop
open Lean Drv

namespace DrvC08

/-- Stub: replaced when the model of C08 is built. -/
def handle (_j : Json) : Except String Json := throw "model of C08 not built"

end DrvC08

def main : IO Unit := Drv.runLoop DrvC08.handle
