import OdmlModel.Model.Valid
import OdmlModel.Model.ValidWriter
import Driver.ValidCodec
import Driver.Util
import Driver.Loop
open Lean Drv

namespace DrvC08
open Valid DrvValid

def decBackend : String → Except String Backend
  | "XML" => pure .xml
  | "JSON" => pure .json
  | "YAML" => pure .yaml
  | "RDF" => pure .rdf
  | s => throw s!"unknown backend {s}"

def encOutcome : SaveOutcome → Json
  | .raised => jstr "raised"
  | .refused => jstr "refused"
  | .written => jstr "written"

def handle (j : Json) : Except String Json := do
  let op ← getStr j "op"
  match op with
  | "validate" =>
    let n ← decNode (← getStr j "kind") (← getVal j "node")
    pure (encResult (validate n))
  | "blocks_save" =>
    let d ← decDoc (← getVal j "node")
    pure (jbool (blocksSave d))
  | "session" =>
    -- one writer object, the documents handed to write_file one after the other
    let b ← decBackend (← getStr j "parser")
    let ds ← (← getArr j "nodes").toList.mapM decDoc
    pure (jarr (((Writer.fresh b).session ds).map encOutcome))
  | "getok" =>
    let d := (← getStr j "dtype").toList
    let v ← decVal (← getVal j "v")
    if isTupleDtype d then throw "getok on tuple dtype" else pure (jbool (getOk d v))
  | "strclass" => pure (encClass (strClass (← getStr j "s").toList))
  | "int" => pure (match pyIntParse (← getStr j "s").toList with
                   | some i => jint i
                   | none => Json.null)
  | "float" => pure (encFParse (pyFloatParse (← getStr j "s").toList))
  | "infer" => pure (jchars (inferDtype (← decVal (← getVal j "v"))))
  | "registry" =>
    pure (jobj ([Klass.odML, Klass.section, Klass.property].map fun k =>
      (k.name, jarr ((defaultReg k).map fun r => jstr r.name))))
  | _ => throw s!"unknown op {op}"

end DrvC08

def main : IO Unit := Drv.runLoop DrvC08.handle
