import Driver.Util
import Driver.Loop
open Lean Drv

namespace DrvC18

/-- Stub: replaced when the model of C18 is built. -/
def handle (_j : Json) : Except String Json := throw "model of C18 not built"

end DrvC18

def main : IO Unit := Drv.runLoop DrvC18.handle
