import OdmlModel.Model.Loader
import Driver.Util
import Driver.Loop
import Std.Data.HashMap
open Lean Drv

/-
JSON-lines driver of M-Loader (trusted glue, outside the proofs).

  {"op":"run", "graph":[[url,"doc"|"missing"|"garbage",[inc...]]...], "cache":[[url,"fresh"|"stale"]...],
   "prog":[["load"|"deferred"|"refresh", tpl, url]...], "picks":[tid...], "max":n}
     -> steps (per transition: thread, events derived by diffing the shared tables), results,
        tables, cache, picks actually taken, outcome
  {"op":"explore", ..., "limit":n}
     -> one schedule (pick list) per transition of the reachable state graph, #states, #transitions
  {"op":"resolve", "graph":..., "url":u} -> the specification `resolve`
-/
namespace DrvC18
open Loader

structure World where
  g : Url → Res
  urls : List Url
  cache0 : Url → CacheSt
  prog : List Op

def decKind (kind : String) (incs : List Nat) : Except String Res :=
  match kind with
  | "doc" => pure (.doc incs)
  | "missing" => pure .missing
  | "garbage" => pure .garbage
  | _ => throw s!"bad kind {kind}"

def decWorld (j : Json) : Except String World := do
  let gr ← getArr j "graph"
  let mut tab : List (Nat × Res) := []
  for e in gr.toList do
    match e with
    | .arr #[u, kind, incs] =>
      let u ← u.getNat?
      let kind ← kind.getStr?
      let incs ← (← incs.getArr?).toList.mapM (·.getNat?)
      tab := tab ++ [(u, ← decKind kind incs)]
    | _ => throw "bad graph entry"
  let tab' := tab
  let g : Url → Res := fun u => match tab'.find? (·.1 == u) with
    | some (_, r) => r
    | none => .missing
  let mut ctab : List (Nat × CacheSt) := []
  for e in (← getArr j "cache").toList do
    match e with
    | .arr #[u, st] =>
      let u ← u.getNat?
      let st ← st.getStr?
      ctab := ctab ++ [(u, if st == "fresh" then .fresh else if st == "stale" then .stale else .absent)]
    | _ => throw "bad cache entry"
  let ctab' := ctab
  let cache0 : Url → CacheSt := fun u => match ctab'.find? (·.1 == u) with
    | some (_, c) => c
    | none => .absent
  let mut prog : List Op := []
  for e in (← getArr j "prog").toList do
    match e with
    | .arr #[op, tpl, u] =>
      let op ← op.getStr?
      let tpl ← tpl.getBool?
      let u ← u.getNat?
      let k : Key := ⟨tpl, u⟩
      match op with
      | "load" => prog := prog ++ [.load k]
      | "deferred" => prog := prog ++ [.deferred k]
      | "refresh" => prog := prog ++ [.refresh k]
      | _ => throw s!"bad op {op}"
    | _ => throw "bad prog entry"
  pure { g := g, urls := tab.map (·.1), cache0 := cache0, prog := prog }

partial def encTree : Tree → Json
  | .fail => Json.null
  | .node u kids => jobj [("u", jnat u), ("k", jarr (kids.map encTree))]

def encVal : Val → Json
  | none => jobj [("obj", Json.null), ("doc", Json.null)]
  | some o => jobj [("obj", jnat o.id), ("doc", encTree o.tree)]

def tabName (k : Key) (which : String) : String := (if k.tpl then "tpl." else "term.") ++ which

def encOp : Op → Json
  | .load k => jarr [jstr "load", jbool k.tpl, jnat k.url]
  | .deferred k => jarr [jstr "deferred", jbool k.tpl, jnat k.url]
  | .refresh k => jarr [jstr "refresh", jbool k.tpl, jnat k.url]

def keysOf (w : World) : List Key :=
  (w.urls.map fun u => (⟨false, u⟩ : Key)) ++ (w.urls.map fun u => (⟨true, u⟩ : Key))

def nthreads (s : State) : Nat := s.threads.length

def enabledSet (s : State) : List Nat :=
  (List.range (nthreads s + 1)).filter fun t => enabled s t

/-- Events of one transition, by diffing (same vocabulary as harness/sched.py). -/
def events (w : World) (s s' : State) (t : Nat) : List Json := Id.run do
  let mut ev : List Json := []
  match stackOf s t with
  | .join _ j :: _ => ev := ev ++ [jarr [jstr "join", jnat j]]
  | _ => pure ()
  if s'.sh.epoch != s.sh.epoch then
    ev := ev ++ [jarr [jstr "clear", jstr "term.loaded", Json.null]]
  for k in keysOf w do
    match s.sh.loaded k, s'.sh.loaded k with
    | none, some _ => ev := ev ++ [jarr [jstr "set", jstr (tabName k "loaded"), jnat k.url]]
    | _, _ => pure ()
    match s.sh.loading k, s'.sh.loading k with
    | none, some j =>
      ev := ev ++ [jarr [jstr "set", jstr (tabName k "loading"), jnat k.url], jarr [jstr "spawn", jnat j]]
    | some _, none => ev := ev ++ [jarr [jstr "pop", jstr (tabName k "loading"), jnat k.url]]
    | _, _ => pure ()
  let exited := match t with
    | 0 => s'.caller.isEmpty && s'.prog.isEmpty
    | _ => (stackOf s' t).isEmpty
  if exited then ev := ev ++ [jarr [jstr "exit"]]
  return ev

/-- The scheduler's rule: next listed pick that is enabled, else the lowest enabled thread. -/
def choose (en : List Nat) : List Nat → Option (Nat × List Nat)
  | [] => (en.head?).map fun t => (t, [])
  | p :: ps => if en.contains p then some (p, ps) else choose en ps

partial def runLoop (w : World) (s : State) (picks : List Nat) (fuel : Nat)
    (steps : Array Json) (taken : Array Nat) : State × Array Json × Array Nat × String :=
  let en := enabledSet s
  if en.isEmpty then (s, steps, taken, if allDone s then "ok" else "deadlock")
  else if fuel == 0 then (s, steps, taken, "steplimit")
  else
    match choose en picks with
    | none => (s, steps, taken, "deadlock")
    | some (t, picks') =>
      let s' := step w.g s t
      let st := jobj [("t", jnat t), ("ev", jarr (events w s s' t))]
      runLoop w s' picks' (fuel - 1) (steps.push st) (taken.push t)

def encState (w : World) (s : State) : List (String × Json) :=
  let tab (tpl : Bool) : Json :=
    let ks := w.urls.map fun u => (⟨tpl, u⟩ : Key)
    jobj [("loaded", jarr (ks.filterMap fun k => (s.sh.loaded k).map fun v =>
              jarr [jnat k.url, encVal v])),
          ("loading", jarr (ks.filterMap fun k => (s.sh.loading k).map fun _ => jnat k.url))]
  [("results", jarr (s.results.reverse.map fun r =>
      jobj [("op", encOp r.op), ("val", encVal r.val), ("epoch", jnat r.epoch)])),
   ("tables", jobj [("term", tab false), ("tpl", tab true)]),
   ("cache", jarr (w.urls.map fun u => jarr [jnat u,
      jstr (match s.sh.cache u with | .absent => "absent" | .fresh => "fresh" | .stale => "stale"),
      jnat (s.sh.wcount u)])),
   ("threads", jnat (nthreads s + 1)),
   ("err", jbool s.sh.err)]

/-- Canonical text of a state over the finite key universe (for state merging). -/
def stateKey (w : World) (s : State) : String :=
  let ks := keysOf w
  toString (repr (ks.map fun k => (s.sh.loaded k, s.sh.loading k),
                  w.urls.map fun u => (s.sh.cache u, s.sh.wcount u),
                  s.sh.reload, s.sh.nextId, s.sh.epoch, s.sh.err,
                  s.caller, s.prog, s.results, s.threads))

partial def explore (w : World) (limit : Nat) (queue : Array (State × List Nat))
    (seen : Std.HashMap String Unit) (scheds : Array (List Nat)) (i : Nat) (ntrans : Nat) :
    Array (List Nat) × Nat × Nat × Bool :=
  if h : i < queue.size then
    let (s, path) := queue[i]
    let en := enabledSet s
    let (queue', seen', scheds', ntrans') := en.foldl (init := (queue, seen, scheds, ntrans))
      fun (q, sn, sc, nt) t =>
        let s' := step w.g s t
        let key := stateKey w s'
        let p := path ++ [t]
        if sn.contains key then (q, sn, sc.push p, nt + 1)
        else (q.push (s', p), sn.insert key (), sc.push p, nt + 1)
    if seen'.size > limit then (scheds', seen'.size, ntrans', false)
    else explore w limit queue' seen' scheds' (i + 1) ntrans'
  else (scheds, seen.size, ntrans, true)

def handle (j : Json) : Except String Json := do
  let op ← getStr j "op"
  match op with
  | "run" =>
    let w ← decWorld j
    let picks ← (← getArr j "picks").toList.mapM (·.getNat?)
    let fuel := (getNat j "max").toOption.getD 4000
    let s0 := init w.cache0 w.prog
    let (s, steps, taken, outcome) := runLoop w s0 picks fuel #[] #[]
    pure (jobj ([("outcome", jstr outcome), ("steps", Json.arr steps),
                 ("picks", jarr (taken.toList.map jnat))] ++ encState w s))
  | "explore" =>
    let w ← decWorld j
    let limit := (getNat j "limit").toOption.getD 20000
    let s0 := init w.cache0 w.prog
    let seen : Std.HashMap String Unit := (Std.HashMap.emptyWithCapacity 1024).insert (stateKey w s0) ()
    let (scheds, nstates, ntrans, complete) := explore w limit #[(s0, [])] seen #[] 0 0
    pure (jobj [("schedules", jarr (scheds.toList.map fun p => jarr (p.map jnat))),
                ("states", jnat nstates), ("transitions", jnat ntrans), ("complete", jbool complete)])
  | "resolve" =>
    let w ← decWorld j
    let u ← getNat j "url"
    pure (encTree (resolveF w.g (w.urls.length + 1) u))
  | _ => throw s!"unknown op {op}"

end DrvC18

def main : IO Unit := Drv.runLoop DrvC18.handle
