import Driver.Util
import Driver.Loop
open Lean Drv

namespace DrvC01

/-- Stub: replaced when the model of C01 is built. -/
def handle (_j : Json) : Except String Json := throw "model of C01 not built"

end DrvC01

def main : IO Unit := Drv.runLoop DrvC01.handle
