import OdmlModel.Py.Csv
import OdmlModel.Model.XmlCsv
import OdmlModel.Model.XmlDoc
import OdmlModel.Model.Xml
import OdmlModel.Model.XmlRepr
import OdmlModel.Model.XmlTok
import Driver.Util
import Driver.Loop
open Lean Drv

namespace DrvC01
open Xml

def optStr (j : Json) (k : String) : Except String (Option Str) :=
  match j.getObjVal? k with
  | .ok (.str s) => pure (some s.toList)
  | .ok .null => pure none
  | .error _ => pure none
  | .ok _ => throw s!"bad text field {k}"

def encOpt : Option Str → Json
  | none => Json.null
  | some s => jchars s

def decBound (x : Json) : Except String (Option Int) :=
  match x with
  | .null => pure none
  | .num n => pure (some n.mantissa)
  | _ => throw "bad bound"

def decCard (j : Json) (k : String) : Except String Card.Card :=
  match j.getObjVal? k with
  | .ok (.arr #[a, b]) => do pure (some (← decBound a, ← decBound b))
  | .ok .null => pure none
  | .error _ => pure none
  | .ok _ => throw "bad card"

def encCard : Card.Card → Json
  | none => Json.null
  | some (a, b) => jarr [optInt a, optInt b]

def decVal (j : Json) : Except String Val :=
  match j with
  | .null => pure .nul
  | _ => do
    if let .ok s := getStr j "s" then return .str s.toList
    if let .ok i := getInt j "i" then return .int i
    if let .ok b := getBool j "b" then return .bool b
    if let .ok s := getStr j "k" then return .tok s.toList
    if let .ok xs := getArr j "t" then
      return .tuple (← xs.toList.mapM fun x => match x with
        | .str s => pure s.toList
        | _ => throw "bad tuple item")
    throw "bad value"

def encVal : Val → Json
  | .str s => jobj [("s", jchars s)]
  | .int i => jobj [("i", jint i)]
  | .bool b => jobj [("b", jbool b)]
  | .tok s => jobj [("k", jchars s)]
  | .tuple xs => jobj [("t", jarr (xs.map jchars))]
  | .nul => Json.null

def decProp (j : Json) : Except String PropT := do
  let unc ← match j.getObjVal? "uncertainty" with
    | .ok (.obj _) => do
      let u ← getVal j "uncertainty"
      pure (some (⟨← getBool u "num", (← getStr u "text").toList⟩ : Unc))
    | _ => pure none
  pure { id := ← optStr j "id", name := ← optStr j "name",
         values := ← (← getArr j "values").toList.mapM decVal,
         dtype := ← optStr j "dtype", unit := ← optStr j "unit",
         definition := ← optStr j "definition", dependency := ← optStr j "dependency",
         dependencyValue := ← optStr j "dependency_value", uncertainty := unc,
         reference := ← optStr j "reference", valueOrigin := ← optStr j "value_origin",
         valCard := ← decCard j "val_card" }

def encProp (p : PropT) : Json :=
  jobj [("id", encOpt p.id), ("name", encOpt p.name), ("values", jarr (p.values.map encVal)),
        ("dtype", encOpt p.dtype), ("unit", encOpt p.unit), ("definition", encOpt p.definition),
        ("dependency", encOpt p.dependency), ("dependency_value", encOpt p.dependencyValue),
        ("uncertainty", match p.uncertainty with
          | none => Json.null
          | some u => jobj [("num", jbool u.isNum), ("text", jchars u.text)]),
        ("reference", encOpt p.reference), ("value_origin", encOpt p.valueOrigin),
        ("val_card", encCard p.valCard)]

partial def decSec (j : Json) : Except String SecT := do
  let secs ← (← getArr j "secs").toList.mapM decSec
  let props ← (← getArr j "props").toList.mapM decProp
  pure (.mk (← optStr j "id") (← optStr j "name") (← optStr j "type") (← optStr j "definition")
    (← optStr j "reference") (← optStr j "link") (← optStr j "repository") (← optStr j "include")
    secs props (← decCard j "sec_card") (← decCard j "prop_card"))

partial def encSec : SecT → Json
  | .mk id name type defn ref link repo incl secs props sc pc =>
    jobj [("id", encOpt id), ("name", encOpt name), ("type", encOpt type),
          ("definition", encOpt defn), ("reference", encOpt ref), ("link", encOpt link),
          ("repository", encOpt repo), ("include", encOpt incl),
          ("secs", jarr (secs.map encSec)), ("props", jarr (props.map encProp)),
          ("sec_card", encCard sc), ("prop_card", encCard pc)]

def decDoc (j : Json) : Except String DocT := do
  pure { id := ← optStr j "id", version := ← optStr j "version", author := ← optStr j "author",
         date := ← optStr j "date", repository := ← optStr j "repository",
         secs := ← (← getArr j "secs").toList.mapM decSec }

def encDoc (d : DocT) : Json :=
  jobj [("id", encOpt d.id), ("version", encOpt d.version), ("author", encOpt d.author),
        ("date", encOpt d.date), ("repository", encOpt d.repository),
        ("secs", jarr (d.secs.map encSec))]

partial def decX (j : Json) : Except String X := do
  let attrs ← (← getArr j "attrs").toList.mapM fun a =>
    match a with
    | .arr #[.str k, .str v] => pure (k, v.toList)
    | _ => throw "bad attr"
  pure (.elem (← getStr j "tag") attrs (← optStr j "text") (← (← getArr j "kids").toList.mapM decX))

partial def encX : X → Json
  | .elem tag attrs text kids =>
    jobj [("tag", jstr tag), ("attrs", jarr (attrs.map fun kv => jarr [jstr kv.1, jchars kv.2])),
          ("text", encOpt text), ("kids", jarr (kids.map encX))]

def strList (j : Json) (k : String) : Except String (List Str) := do
  (← getArr j k).toList.mapM fun x => match x with
    | .str s => pure s.toList
    | _ => throw "bad string list"

def encCsvRes : Except Py.Csv.Err (List Str) → Json
  | .ok fs => jobj [("ok", jarr (fs.map jchars))]
  | .error .csvError => jobj [("raised", "csv")]
  | .error .noRecord => jobj [("raised", "index")]

/-- the token contract as the driver instantiates it: canonical tokens only (harness keeps
    non-canonical float/date texts out of the modelled stream) -/
def idLib : TokLib := ⟨fun _ t => some t⟩

def encRErr : RErr → Json
  | .parser => "parser"
  | .invalidVersion => "invalidVersion"
  | .leak => "leak"
  | .unmodelled => "unmodelled"

/-- a temporal object of the harness: `a` = the constructor fields, `off` = null or [neg, secs] -/
def decOff (j : Json) : Except String (Option Off) :=
  match j.getObjVal? "off" with
  | .ok (.arr #[.bool n, .num s]) => pure (some ⟨n, s.mantissa.toNat⟩)
  | .ok .null => pure none
  | .error _ => pure none
  | .ok _ => throw "bad offset"

def natsOf (j : Json) (k : String) : Except String (List Nat) := do
  (← getArr j k).toList.mapM fun x => match x with
    | .num n => pure n.mantissa.toNat
    | _ => throw "bad field"

def encOptStr : Option Str → Json
  | none => Json.null
  | some s => jchars s

/-- `tokobj`: object of class `obj` handed to a Property of dtype `kind` ->
    str(obj), the text of the stored value (null: refused), what the reader makes of that text,
    and what it would make of the object's own text -/
def tokObj (j : Json) : Except String Json := do
  let obj ← getStr j "obj"
  let kind ← getStr j "kind"
  let a ← natsOf j "a"
  let off ← decOff j
  let fold := (getBool j "fold").toOption.getD false
  let out (own : Str) (stored : Option Str) : Json :=
    jobj [("str", jchars own), ("stored", encOptStr stored),
          ("back", encOptStr (stored.bind (stdTok kind))), ("own", encOptStr (stdTok kind own))]
  match obj, kind, a with
  | "time", "time", [h, mi, s, us] =>
    let o : TimeObj := ⟨⟨h, mi, s, us⟩, off, fold⟩
    pure (out o.str ((timeGetObj o).map Py.Time.iso))
  | "datetime", "datetime", [y, mo, d, h, mi, s, us] =>
    let o : DateTimeObj := ⟨⟨⟨y, mo, d⟩, ⟨h, mi, s, us⟩⟩, off, fold⟩
    pure (out o.str ((datetimeGetObj o).map Py.DateTime.str))
  | "datetime", "date", [y, mo, d, h, mi, s, us] =>
    let o : DateTimeObj := ⟨⟨⟨y, mo, d⟩, ⟨h, mi, s, us⟩⟩, off, fold⟩
    pure (out o.str ((dateGetDateTimeObj o).map Py.Date.iso))
  | "date", "date", [y, mo, d] =>
    let o : Py.Date := ⟨y, mo, d⟩
    pure (out o.iso ((dateGetObj o).map Py.Date.iso))
  | _, _, _ => throw "bad tokobj request"

def handle (j : Json) : Except String Json := do
  let op ← getStr j "op"
  match op with
  | "tokobj" => tokObj j
  | "csv_write" => pure (jchars (Py.Csv.writeRow (← strList j "row")))
  | "csv_read" => pure (encCsvRes (Py.Csv.readFirst (← getStr j "s").toList))
  | "to_csv" => pure (jchars (toCsv (← strList j "vals")))
  | "to_csv_legacy" => pure (jchars (toCsvLegacy (← strList j "vals")))
  | "from_csv" => pure (encCsvRes (fromCsv (← getStr j "s").toList))
  | "write" =>
    let d ← decDoc (← getVal j "doc")
    let flags := [("wf", jbool (wfDoc idLib d)), ("repr", jbool (xmlRepr d)),
                  ("trim", encDoc (trimDoc d))]
    match writeXml d with
    | .ok x => pure (jobj (("ok", encX x) :: flags))
    | .error .parser => pure (jobj (("raised", "ParserException") :: flags))
    | .error .valueError => pure (jobj (("raised", "ValueError") :: flags))
  | "read" =>
    let x ← decX (← getVal j "x")
    let m := if (← getStr j "mode") == "strict" then Mode.strict else Mode.lenient
    match readXml m idLib x with
    | .ok (d, w) => pure (jobj [("ok", encDoc d), ("warns", jnat w)])
    | .error e => pure (jobj [("raised", encRErr e)])
  | _ => throw s!"unknown op {op}"

end DrvC01

def main : IO Unit := Drv.runLoop DrvC01.handle
