import Driver.Util
import Driver.Loop
open Lean Drv

namespace DrvC06

/-- Stub: replaced when the model of C06 is built. -/
def handle (_j : Json) : Except String Json := throw "model of C06 not built"

end DrvC06

def main : IO Unit := Drv.runLoop DrvC06.handle
