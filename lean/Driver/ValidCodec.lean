/- JSON codec for the validation models (Model/Valid.lean): shared by the C08 and C19 drivers.
   Trusted glue, outside the proofs. -/
import OdmlModel.Model.Valid
import Driver.Util
open Lean Drv

namespace DrvValid
open Valid

def decOptStr (j : Json) (k : String) : Except String (Option Str) :=
  match j.getObjVal? k with
  | .ok (.str s) => pure (some s.toList)
  | .ok .null => pure none
  | .error _ => pure none
  | .ok _ => throw s!"bad optional string {k}"

def decCard (j : Json) (k : String) : Except String Card.Card :=
  match j.getObjVal? k with
  | .ok (.arr #[a, b]) => do
    let f : Json → Except String (Option Int) := fun x =>
      match x with
      | .null => pure none
      | .num n => pure (some n.mantissa)
      | _ => throw "bad bound"
    pure (some (← f a, ← f b))
  | .ok .null => pure none
  | .error _ => pure none
  | .ok _ => throw s!"bad cardinality {k}"

def decVal (j : Json) : Except String Val :=
  match j with
  | .null => pure .none
  | .obj _ => do
    if let .ok i := getInt j "i" then return .int i
    if let .ok b := getBool j "b" then return .bool b
    if let .ok s := getStr j "s" then return .str s.toList
    if let .ok n := getNat j "l" then return .list n
    if let .ok f := getStr j "f" then
      match f with
      | "zero" => return .float .zero
      | "one" => return .float .one
      | "finite" => return .float .finite
      | "inf" => return .float .inf
      | "nan" => return .float .nan
      | _ => throw "bad float kind"
    if let .ok d := getStr j "d" then
      match d with
      | "date" => return .date
      | "time" => return .time
      | "datetime" => return .datetime
      | _ => throw "bad date kind"
    throw "bad value"
  | _ => throw "bad value"

def decPrp (j : Json) : Except String Prp := do
  let vals ← (← getArr j "values").toList.mapM decVal
  pure { id := (← getStr j "id").toList, name := (← getStr j "name").toList,
         dtype := ← decOptStr j "dtype", values := vals,
         dependency := ← decOptStr j "dep", depValue := ← decOptStr j "dv",
         valCard := ← decCard j "card" }

partial def decSec (j : Json) : Except String Sec := do
  let props ← (← getArr j "props").toList.mapM decPrp
  let subs ← (← getArr j "subs").toList.mapM decSec
  pure (.mk (← getStr j "id").toList (← getStr j "name").toList (← decOptStr j "type")
        (← decCard j "sc") (← decCard j "pc") props subs)

def decDoc (j : Json) : Except String Doc := do
  let secs ← (← getArr j "secs").toList.mapM decSec
  pure { id := (← getStr j "id").toList, secs := secs }

def decNode (kind : String) (j : Json) : Except String Node :=
  match kind with
  | "doc" => do pure (.doc (← decDoc j))
  | "sec" => do pure (.sec (← decSec j))
  | "prop" => do pure (.prop (← decPrp j))
  | _ => throw s!"unknown kind {kind}"

def pathStr (p : List Nat) : String := String.join (p.map fun i => s!"/{i}")

def encRef : Ref → Json
  | .doc => jstr "D"
  | .sec p => jstr ("S" ++ pathStr p)
  | .prop p i => jstr ("P" ++ pathStr p ++ s!"#{i}")

def encIssue (i : Issue) : Json :=
  jarr [encRef i.ref, jnat i.id.code, jstr i.rank.label]

def encResult : Result → Json
  | .crash => jobj [("crash", jbool true), ("issues", jarr [])]
  | .ok l => jobj [("crash", jbool false), ("issues", jarr (l.map encIssue))]

def encClass : StrClass → Json
  | .string => jstr "string"
  | .int => jstr "int"
  | .date => jstr "date"
  | .datetime => jstr "datetime"
  | .time => jstr "time"
  | .float => jstr "float"
  | .tuple 0 => jstr "tuple"
  | .tuple n => jstr s!"{n + 1}-tuple"
  | .boolean => jstr "boolean"
  | .text => jstr "text"

def encFParse : FParse → Json
  | .bad => jstr "bad"
  | .finite => jstr "finite"
  | .inf => jstr "inf"
  | .nan => jstr "nan"


end DrvValid
