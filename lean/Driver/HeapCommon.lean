import OdmlModel.Model.Heap
import OdmlModel.Model.HeapQuery
import OdmlModel.Py.Uuid
import Driver.Util
open Lean Drv

/-! JSON glue for the heap model (shared by the C03 / C04 / C06 / C11 drivers). -/
namespace DrvHeap
open Heap

def decKind (s : String) : Except String Kind :=
  match s with
  | "doc" => pure .doc
  | "sec" => pure .sec
  | "prop" => pure .prop
  | _ => throw s!"bad kind {s}"

def optNat (j : Json) (k : String) : Except String (Option Nat) :=
  match j.getObjVal? k with
  | .ok .null => pure none
  | .ok v => do let n ← v.getNat?; pure (some n)
  | .error _ => pure none

/-- The id text a constructor / new_id ends up with: `oid` through the UUID model, `fresh` is the
    text of the uuid4 the implementation drew (only used when no valid oid was given). -/
def optStr (j : Json) (k : String) : Option String :=
  match j.getObjVal? k with
  | .ok (.str s) => some s
  | _ => none

def ctorIdText (j : Json) : Except String String := do
  let fresh ← getStr j "fresh"
  match optStr j "oid" with
  | none => pure fresh
  | some s => match Py.Uuid.parse s.toList with
    | some n => pure (String.ofList (Py.Uuid.render n))
    | none => pure fresh

def decOp (j : Json) : Except String Op := do
  let op ← getStr j "op"
  match op with
  | "construct" =>
    pure (.construct (← decKind (← getStr j "kind")) (← getStr j "name") (← ctorIdText j)
      (← optNat j "parent") (← getBool j "args_ok"))
  | "append" => pure (.append (← getNat j "p") (← getNat j "x"))
  | "insert" => pure (.insert (← getNat j "p") (← getInt j "pos") (← getNat j "x"))
  | "extend" =>
    let xs ← getArr j "xs"
    pure (.extend (← getNat j "p") (← xs.toList.mapM (fun v => v.getNat?)))
  | "remove" => pure (.remove (← getNat j "p") (← getNat j "x"))
  | "set_parent" => pure (.setParent (← getNat j "x") (← optNat j "np"))
  | "set_item" => pure (.setItem (← getNat j "p") (← getBool j "sec_list") (← getInt j "key") (← getNat j "v"))
  | "reorder" => pure (.reorder (← getNat j "x") (← getInt j "idx"))
  | "rename" => pure (.rename (← getNat j "x") (← getStr j "new"))
  | "new_id" =>
    let fresh ← getStr j "fresh"
    match optStr j "oid" with
    | none => pure (.newId (← getNat j "x") (some fresh))
    | some s => match Py.Uuid.parse s.toList with
      | some n => pure (.newId (← getNat j "x") (some (String.ofList (Py.Uuid.render n))))
      | none => pure (.newId (← getNat j "x") none)
  | _ => throw s!"unknown heap op {op}"

def kindStr : Kind → String
  | .doc => "doc" | .sec => "sec" | .prop => "prop"

/-- `obj.document` of the query model (`Model/HeapQuery.lean`) as JSON: a handle or null. -/
def docJson (h : H) (i : Nat) : Json :=
  match Heap.document h i with
  | none => Json.null
  | some r => jnat r

def snapshot (h : H) : Json :=
  jarr ((List.range h.size).map fun i =>
    let n := h.node i
    jobj [("kind", jstr (kindStr n.kind)), ("name", jstr (if n.kind = .doc then "" else n.name)),
          ("id", jstr n.id),
          ("parent", match n.parent with | none => Json.null | some p => jnat p),
          ("secs", jarr (n.secs.map jnat)), ("props", jarr (n.props.map jnat)),
          ("doc", docJson h i)])

def excStr : Exc → String
  | .valueError => "ValueError" | .keyError => "KeyError" | .indexError => "IndexError"
  | .typeError => "TypeError" | .attributeError => "AttributeError"

def outStr : Outcome → Json
  | .ok => jstr "ok"
  | .raised e => jstr (excStr e)

/-- Runs an op list from the empty heap; answers outcome and snapshot after every op. -/
def runTrace (ops : List Op) : Json :=
  let rec go (h : H) : List Op → List Json
    | [] => []
    | op :: rest =>
      let r := step h op
      jobj [("out", outStr r.2), ("snap", snapshot r.1)] :: go r.1 rest
  jarr (go Heap.empty ops)

def handle (j : Json) : Except String Json := do
  let op ← getStr j "op"
  match op with
  | "run" =>
    let ops ← (← getArr j "ops").toList.mapM decOp
    pure (runTrace ops)
  | "uuid" =>
    match Py.Uuid.parse (← getStr j "s").toList with
    | some n => pure (jstr (String.ofList (Py.Uuid.render n)))
    | none => pure Json.null
  | _ => throw s!"unknown op {op}"

end DrvHeap
