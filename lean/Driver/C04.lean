import Driver.Util
import Driver.Loop
open Lean Drv

namespace DrvC04

/-- Stub: replaced when the model of C04 is built. -/
def handle (_j : Json) : Except String Json := throw "model of C04 not built"

end DrvC04

def main : IO Unit := Drv.runLoop DrvC04.handle
