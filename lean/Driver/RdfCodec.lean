/- JSON codecs for the RDF model (shared by the C10 and C20 drivers; trusted glue). -/
import OdmlModel.Model.Rdf
import Driver.Util
open Lean Drv

namespace RdfCodec
open Rdf

def decPyVal (j : Json) : Except String PyVal := do
  if let .ok s := getStr j "s" then return .str s.toList
  if let .ok s := getStr j "f" then return .float s.toList
  if let .ok i := getInt j "i" then return .int i
  if let .ok s := getStr j "d" then return .date s.toList
  throw "bad PyVal"

def decAttrs (j : Json) : Except String Attrs := do
  let arr ← getArr j "attrs"
  arr.toList.mapM fun e => do
    match e with
    | .arr #[.str k, v] => pure (k, ← decPyVal v)
    | _ => throw "bad attr"

def decLit (j : Json) : Except String Lit :=
  match j with
  | .arr #[.str l, .str d] => pure ⟨l.toList, d.toList⟩
  | _ => throw "bad Lit"

def decProp (j : Json) : Except String PropT := do
  let vs ← getArr j "values"
  pure ⟨(← getStr j "id").toList, ← decAttrs j, ← vs.toList.mapM decLit⟩

partial def decSec (j : Json) : Except String SecT := do
  let ps ← getArr j "props"
  let ss ← getArr j "subs"
  pure (.mk (← getStr j "id").toList (← decAttrs j) (← ps.toList.mapM decProp) (← ss.toList.mapM decSec))

def decDoc (j : Json) : Except String DocT := do
  let ss ← getArr j "secs"
  let origin : Option Str := match getStr j "origin" with
    | .ok s => some s.toList
    | .error _ => none
  pure ⟨(← getStr j "id").toList, ← decAttrs j, origin, ← ss.toList.mapM decSec⟩

def decPairs (j : Json) (k : String) : Except String (List (Str × Str)) := do
  let arr ← getArr j k
  arr.toList.mapM fun e =>
    match e with
    | .arr #[.str a, .str b] => pure (a.toList, b.toList)
    | _ => throw "bad pair"

def decTerm (j : Json) : Except String Rdf.Term :=
  match j with
  | .arr #[.str "i", .str s] => pure (.iri s.toList)
  | .arr #[.str "q", .str s] => pure (.seqn s.toList)
  | .arr #[.str "t", .str s] => pure (.tnode s.toList)
  | .arr #[.str "l", .str l, .str d] => pure (.lit l.toList d.toList)
  | _ => throw "bad term"

def decTriple (j : Json) : Except String Triple :=
  match j with
  | .arr #[a, b, c] => do pure ⟨← decTerm a, ← decTerm b, ← decTerm c⟩
  | _ => throw "bad triple"

def encTerm : Rdf.Term → Json
  | .iri s => jarr [jstr "i", jchars s]
  | .seqn s => jarr [jstr "q", jchars s]
  | .tnode s => jarr [jstr "t", jchars s]
  | .lit l d => jarr [jstr "l", jchars l, jchars d]

def encTriple (t : Triple) : Json := jarr [encTerm t.s, encTerm t.p, encTerm t.o]

def encPyVal : PyVal → Json
  | .str s => jobj [("s", jchars s)]
  | .float s => jobj [("f", jchars s)]
  | .int i => jobj [("i", jint i)]
  | .date s => jobj [("d", jchars s)]

def encAttrs (a : Attrs) : Json := jarr (a.map fun e => jarr [jstr e.1, encPyVal e.2])

def encProp (p : PropT) : Json :=
  jobj [("id", jchars p.id), ("attrs", encAttrs p.attrs),
        ("values", jarr (p.values.map fun v => jarr [jchars v.lex, jchars v.dt]))]

partial def encSec : SecT → Json
  | .mk id a ps ss => jobj [("id", jchars id), ("attrs", encAttrs a),
                            ("props", jarr (ps.map encProp)), ("subs", jarr (ss.map encSec))]

def encDoc (d : DocT) : Json :=
  jobj [("id", jchars d.id), ("attrs", encAttrs d.attrs),
        ("origin", match d.origin with | some s => jchars s | none => Json.null),
        ("secs", jarr (d.secs.map encSec))]

def encErr : RErr → Json
  | .parser => jstr "parser"
  | .recursion => jstr "recursion"
  | .other => jstr "other"

def encImport : Except RErr (List DocT) → Json
  | .ok ds => jobj [("ok", jarr (ds.map encDoc))]
  | .error e => jobj [("raised", encErr e)]

end RdfCodec
