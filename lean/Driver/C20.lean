import Driver.Util
import Driver.Loop
open Lean Drv

namespace DrvC20

/-- Stub: replaced when the model of C20 is built. -/
def handle (_j : Json) : Except String Json := throw "model of C20 not built"

end DrvC20

def main : IO Unit := Drv.runLoop DrvC20.handle
