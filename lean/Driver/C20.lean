import OdmlModel.Model.Rdf
import OdmlModel.Model.Query
import OdmlModel.Model.QuerySpec
import Driver.Util
import Driver.Loop
import Driver.RdfCodec
open Lean Drv

namespace DrvC20
open Rdf Query RdfCodec

def decKind (s : String) : Except String Kind :=
  match s with
  | "Doc" => pure .doc
  | "Sec" => pure .sec
  | "Prop" => pure .prop
  | _ => throw "bad kind"

def encKind : Kind → Json
  | .doc => jstr "Doc"
  | .sec => jstr "Sec"
  | .prop => jstr "Prop"

def decStrs (j : Json) (k : String) : Except String (List Str) := do
  (← getArr j k).toList.mapM fun x => match x with
    | .str s => pure s.toList
    | _ => throw "bad string list"

def decPair (j : Json) : Except String Pair := do
  let vs : List Str := match decStrs j "vs" with
    | .ok l => l
    | .error _ => []
  pure ⟨← decKind (← getStr j "k"), (← getStr j "a").toList, (← getStr j "v").toList, vs⟩

def encPair (p : Pair) : Json :=
  jobj [("k", encKind p.kind), ("a", jchars p.attr), ("v", jchars p.val),
        ("vs", jarr (p.vals.map jchars))]

def encOptTerm : Option Rdf.Term → Json
  | none => Json.null
  | some t => encTerm t

def encRow (r : Option Rdf.Term × Option Rdf.Term × Option Rdf.Term) : Json :=
  jarr [encOptTerm r.1, encOptTerm r.2.1, encOptTerm r.2.2]

def encQ (q : QParams) : Json := jarr ((q.doc ++ q.sec ++ q.prop).map encPair)

def decPT (j : Json) : Except String PT :=
  match j with
  | .str "?d" => pure (.var .d)
  | .str "?s" => pure (.var .s)
  | .str "?p" => pure (.var .p)
  | .str "?v" => pure (.var .v)
  | .arr #[.str "str", .str s] => pure (.str s.toList)
  | other => do pure (.const (← decTerm other))

def decVar (j : Json) : Except String Var :=
  match j with
  | .str "?d" => pure .d
  | .str "?s" => pure .s
  | .str "?p" => pure .p
  | .str "?v" => pure .v
  | _ => throw "bad variable"

def decFlt (j : Json) : Except String Flt :=
  match j with
  | .arr #[.str "strEq", x, .str s] => do pure (.strEq (← decVar x) s.toList)
  | .arr #[.str "member", x, .str s] => do pure (.member (← decVar x) s.toList)
  | .arr #[.str "typedBy", x, pred, .str s] => do pure (.typedBy (← decVar x) (← decTerm pred) s.toList)
  | _ => throw "bad filter"

def decPat (j : Json) : Except String Pat :=
  match j with
  | .arr #[a, b, c] => do pure ⟨← decPT a, ← decPT b, ← decPT c⟩
  | _ => throw "bad pattern"

def encBinding (b : Binding) : Json :=
  jarr [encOptTerm b.d, encOptTerm b.s, encOptTerm b.p, encOptTerm b.v]

def noSub : Cfg := ⟨false, []⟩

def handle (j : Json) : Except String Json := do
  let op ← getStr j "op"
  match op with
  | "subsets" =>
    let pairs ← (← getArr j "pairs").toList.mapM decPair
    pure (jarr ((subsets pairs).map fun c => jarr (c.map encPair)))
  | "fuzzy" =>
    let f : FParams := ⟨← decStrs j "doc", ← decStrs j "sec", ← decStrs j "prop", ← decStrs j "search"⟩
    pure (jobj [("pairs", jarr ((fuzzyPairs f).map encPair)),
                ("as_match", jarr ((matchPairs (fuzzyAsMatch f)).map encPair))])
  | "find" =>
    let docs ← (← getArr j "docs").toList.mapM decDoc
    let pairs ← (← getArr j "pairs").toList.mapM decPair
    let g := exportRdf noSub docs
    -- `findRows` (the function the reporting theorems are about) is evaluated once; the rows of a
    -- combination it reports are taken from its answer (it reports `queryRows g (groupPairs c)` for
    -- exactly the combinations with a hit), the combinations it omits are evaluated by `queryRows`.
    let reported := findRows g pairs
    let sameQ (a b : QParams) : Bool := a.doc == b.doc && a.sec == b.sec && a.prop == b.prop
    let rowsOf (q : QParams) : Except QErr (List (Option Rdf.Term × Option Rdf.Term × Option Rdf.Term)) :=
      match reported with
      | .ok l => match l.find? (fun e => sameQ e.1 q) with
        | some e => .ok e.2
        | none => queryRows g q
      | .error _ => queryRows g q
    -- the two direct specifications are evaluated where the harness looks at them: inside the
    -- hypotheses of `query_sound_complete` / `query_sound_complete_full` (`directEvalU = directEval`,
    -- `directEvalU' = directEval'`: `Proofs/QueryFull.lean`)
    let inside := wfDocsB docs && rdfReprB docs
    let inside1 := inside && noRepoB docs
    let inside2 := inside && repoOKB docs
    let executed := jarr ((subsets pairs).map fun c =>
      let q := groupPairs c
      jobj [("q", encQ q), ("safe", jbool (querySafeB q)),
            ("rows", match rowsOf q with
              | .ok rows => jarr (rows.map encRow)
              | .error _ => jstr "parse-error"),
            ("direct", if inside1 && querySafeB q then jarr ((directEvalU docs q).map encRow) else Json.null),
            -- the specification of `C20.query_sound_complete_full` / `match_search_reports_exact`:
            -- `directEval'` of the combination, and whether it is inside `QueryFull`
            ("full", jbool (queryFullB q)),
            ("direct2", if inside2 && queryFullB q then jarr ((directEvalU' docs q).map encRow) else Json.null)])
    let found := match reported with
      | .ok l => jarr (l.map fun e => jobj [("q", encQ e.1), ("rows", jarr (e.2.map encRow))])
      | .error _ => jstr "parse-error"
    pure (jobj [("all", executed), ("found", found),
                ("wf", jbool (wfDocsB docs)), ("repr", jbool (rdfReprB docs)),
                ("norepo", jbool (noRepoB docs)), ("repook", jbool (repoOKB docs))])
  | "bgp" =>
    let g ← (← getArr j "triples").toList.mapM decTriple
    let pats ← (← getArr j "pats").toList.mapM decPat
    let fs ← match getArr j "filters" with
      | .ok a => a.toList.mapM decFlt
      | .error _ => pure []
    pure (jarr ((filtered g pats fs).map encBinding))
  | _ => throw s!"unknown op {op}"

end DrvC20

def main : IO Unit := Drv.runLoop DrvC20.handle
