import OdmlModel.Py.Posix
import OdmlModel.Model.PathTree
import OdmlModel.Model.Path
import OdmlModel.Model.PathName
import OdmlModel.Model.PathMove
import Driver.Util
import Driver.Loop
open Lean Drv

namespace DrvC14
open PathTree Path

def decStr (j : Json) : Except String (List Char) :=
  match j with
  | .str s => pure s.toList
  | _ => throw "string expected"

def decOptStr (j : Json) : Except String (Option (List Char)) :=
  match j with
  | .null => pure none
  | .str s => pure (some s.toList)
  | _ => throw "string or null expected"

def decInt (j : Json) : Except String Int :=
  match j with
  | .num n => if n.exponent == 0 then pure n.mantissa else throw "non-int number"
  | _ => throw "int expected"

def decNat (j : Json) : Except String Nat := do
  let i ← decInt j
  if i < 0 then throw "nat expected" else pure i.toNat

def decPos (j : Json) : Except String Pos :=
  match j with
  | .arr xs => xs.toList.mapM decNat
  | _ => throw "position expected"

def decProp (j : Json) : Except String PropT := do
  let n ← getStr j "n"
  let vs ← getArr j "v"
  pure { name := n.toList, vals := ← vs.toList.mapM decInt }

partial def decSec (j : Json) : Except String Sec := do
  let n ← getStr j "n"
  let t ← getStr j "t"
  let ps ← getArr j "p"
  let ss ← getArr j "s"
  pure (.mk n.toList t.toList (← ps.toList.mapM decProp) (← ss.toList.mapM decSec))

def decDoc (j : Json) : Except String Doc := do
  let ss ← getArr j "s"
  pure { secs := ← ss.toList.mapM decSec }

def encPos (p : Pos) : Json := jarr (p.map jnat)
def encPK (x : Pos × Nat) : Json := jarr [encPos x.1, jnat x.2]

def encOptStr : Option (List Char) → Json
  | none => Json.null
  | some s => jchars s

def encRes {α} (enc : α → Json) : Res α → Json
  | .ok a => jobj [("ok", enc a)]
  | .valueError => jobj [("raised", "ValueError")]
  | .attributeError => jobj [("raised", "AttributeError")]

def encFound : Found → Json
  | .none => Json.null
  | .one p => jobj [("one", encPos p)]
  | .many ps => jobj [("many", jarr (ps.map encPos))]

def decMd (j : Json) : Except String (Option Int) :=
  match j with
  | .null => pure none
  | _ => some <$> decInt j

def secFilter (j : Json) : Except String (Sec → Bool) := do
  let k ← getStr j "k"
  match k with
  | "all" => pure fun _ => true
  | "none" => pure fun _ => false
  | "name_has" => do
    let c ← getStr j "c"
    pure fun s => c.toList.all (fun ch => s.name.contains ch)
  | "type_eq" => do
    let t ← getStr j "t"
    pure fun s => s.type == t.toList
  | _ => throw s!"unknown section filter {k}"

def propFilter (j : Json) : Except String (PropT → Bool) := do
  let k ← getStr j "k"
  match k with
  | "all" => pure fun _ => true
  | "none" => pure fun _ => false
  | "name_has" => do
    let c ← getStr j "c"
    pure fun p => c.toList.all (fun ch => p.name.contains ch)
  | _ => throw s!"unknown property filter {k}"

def valFilter (j : Json) : Except String (List Int → Bool) := do
  let k ← getStr j "k"
  match k with
  | "all" => pure fun _ => true
  | "none" => pure fun _ => false
  | "len_ge" => do
    let n ← getNat j "n"
    pure fun v => decide (n ≤ v.length)
  | "has" => do
    let n ← getInt j "n"
    pure fun v => v.contains n
  | _ => throw s!"unknown value filter {k}"

/-- `str.lower` for the strings of one case: `Py.lower` (ASCII), extended by the table the harness
    sends (the real `str.lower` of every string of the case with letters outside ASCII, and of the
    results). The model and its theorems take the function as a parameter. -/
def lowerWith (tbl : List (List Char × List Char)) (s : List Char) : List Char :=
  match tbl.lookup s with
  | some t => t
  | none => Py.lower s

def decLowerTable (j : Json) : Except String (List (List Char × List Char)) :=
  match j.getObjVal? "lower" with
  | .ok (.arr xs) => xs.toList.mapM (fun e =>
      match e with
      | .arr #[.str a, .str b] => pure (a.toList, b.toList)
      | _ => throw "lower: [string, string] expected")
  | .ok .null => pure []
  | .ok _ => throw "lower: array expected"
  | .error _ => pure []

def query (lw : List Char → List Char) (d : Doc) (j : Json) : Except String Json := do
  let q ← getStr j "q"
  match q with
  | "wf" => pure (jbool d.wf)
  | "path" => pure (encOptStr (getPath d (← decPos (← getVal j "pos"))))
  | "ppath" => pure (encOptStr (propPath d (← decPos (← getVal j "pos")) (← getNat j "k")))
  | "sec" =>
    pure (encRes encPos (getSectionByPath d (← decPos (← getVal j "cur")) (← getStr j "path").toList))
  | "sec_legacy" =>
    pure (encRes encPos (resolveSegsLegacy d (← decPos (← getVal j "cur"))
      (Py.splitOn '/' (← getStr j "path").toList)))
  | "prop" =>
    pure (encRes encPK (getPropertyByPath d (← decPos (← getVal j "cur")) (← getStr j "path").toList))
  | "rel" =>
    pure (encOptStr (getRelativePath d (← decPos (← getVal j "a")) (← decPos (← getVal j "b"))))
  | "abs" =>
    let cur ← decPos (← getVal j "cur")
    match getPath d (← decPos (← getVal j "target")) with
    | some path => pure (jobj [("path", jchars path), ("res", encRes encPos (getSectionByPath d cur path))])
    | none => throw "abs: no such target"
  | "absp" =>
    let cur ← decPos (← getVal j "cur")
    match propPath d (← decPos (← getVal j "target")) (← getNat j "k") with
    | some path => pure (jobj [("path", jchars path), ("res", encRes encPK (getPropertyByPath d cur path))])
    | none => throw "absp: no such target"
  | "relres" =>
    let a ← decPos (← getVal j "a")
    match getRelativePath d a (← decPos (← getVal j "b")) with
    | some path => pure (jobj [("path", jchars path), ("res", encRes encPos (getSectionByPath d a path))])
    | none => throw "relres: no such section"
  | "relp" =>
    let a ← decPos (← getVal j "a")
    let b ← decPos (← getVal j "b")
    let k ← getNat j "k"
    match getRelativePath d a b, (secAt d.secs b).bind (fun s => s.props[k]?) with
    | some rel, some pr =>
      let path := rel ++ ':' :: pr.name
      pure (jobj [("path", jchars path), ("res", encRes encPK (getPropertyByPath d a path))])
    | _, _ => throw "relp: no such object"
  | "itersec" =>
    let r := itersections d (← decPos (← getVal j "start")) (← decMd (← getVal j "md"))
      (← getBool j "ys") (← secFilter (← getVal j "f"))
    pure (jarr (r.map encPos))
  | "iterprop" =>
    let r := iterproperties d (← decPos (← getVal j "start")) (← decMd (← getVal j "md"))
      (← propFilter (← getVal j "f"))
    pure (jarr (r.map encPK))
  | "iterval" =>
    let r := itervalues d (← decPos (← getVal j "start")) (← decMd (← getVal j "md"))
      (← valFilter (← getVal j "f"))
    pure (jarr (r.map encPK))
  | "find" =>
    pure (encFound (find lw d (← decPos (← getVal j "cur")) (← decOptStr (← getVal j "key"))
      (← decOptStr (← getVal j "type")) (← getBool j "all") (← getBool j "sub")))
  | "related" =>
    pure (encFound (findRelated lw d (← decPos (← getVal j "cur")) (← decOptStr (← getVal j "key"))
      (← decOptStr (← getVal j "type")) (← getBool j "children") (← getBool j "siblings")
      (← getBool j "parents") (← getBool j "recursive") (← getBool j "all")))
  | _ => throw s!"unknown query {q}"

def handle (j : Json) : Except String Json := do
  let op ← getStr j "op"
  match op with
  | "tree" =>
    let d ← decDoc (← getVal j "doc")
    let qs ← getArr j "qs"
    let tbl ← decLowerTable j
    pure (jarr (← qs.toList.mapM (query (lowerWith tbl) d)))
  | "posix" =>
    let f ← getStr j "f"
    let a := (← getStr j "a").toList
    match f with
    | "dirname" => pure (jchars (Py.Posix.dirname a))
    | "normpath" => pure (jchars (Py.Posix.normpath a))
    | "commonprefix" => pure (jchars (Py.Posix.commonPrefix a (← getStr j "b").toList))
    | "relpath" => pure (jchars (Py.Posix.relpath a (← getStr j "b").toList))
    | "relative" => pure (jchars (relativePath a (← getStr j "b").toList))
    | _ => throw s!"unknown posix function {f}"
  | "setname" =>
    -- child.name = new for the child at index i of a child list with the names sibs (Model/PathName.lean)
    let sibs ← (← getArr j "sibs").toList.mapM decStr
    let r := PathName.setName sibs (← getNat j "i") (← getStr j "oid").toList (← decOptStr (← getVal j "new"))
    match r with
    | .ok names => pure (jobj [("ok", jarr (names.map jchars))])
    | .keyError => pure (jobj [("raised", Json.bool true)])
  | "setparent" =>
    -- x.parent = new_parent for entry i of the child list `old` (Model/PathMove.lean); entries: [name, type]
    let decKid (k : Json) : Except String PathMove.Kid := do
      match k with
      | .arr a =>
        if h : a.size = 2 then pure ⟨← decStr a[0], ← decStr a[1]⟩ else throw "[name, type] expected"
      | _ => throw "[name, type] expected"
    let encKid (k : PathMove.Kid) : Json := jarr [jchars k.name, jchars k.type]
    let old ← (← getArr j "old").toList.mapM decKid
    let new ← (← getArr j "new").toList.mapM decKid
    let m := PathMove.setParent old (← getNat j "i") new (← getBool j "below")
    pure (jobj [("raised", Json.bool m.raised), ("old", jarr (m.old.map encKid)), ("new", jarr (m.new.map encKid)),
      ("par", Json.str (match m.par with | .old => "old" | .new => "new"))])
  | _ => throw s!"unknown op {op}"

end DrvC14

def main : IO Unit := Drv.runLoop DrvC14.handle
