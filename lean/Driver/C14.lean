import Driver.Util
import Driver.Loop
open Lean Drv

namespace DrvC14

/-- Stub: replaced when the model of C14 is built. -/
def handle (_j : Json) : Except String Json := throw "model of C14 not built"

end DrvC14

def main : IO Unit := Drv.runLoop DrvC14.handle
