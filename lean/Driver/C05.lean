import Driver.Util
import Driver.Loop
open Lean Drv

namespace DrvC05

/-- Stub: replaced when the model of C05 is built. -/
def handle (_j : Json) : Except String Json := throw "model of C05 not built"

end DrvC05

def main : IO Unit := Drv.runLoop DrvC05.handle
