import OdmlModel.Model.DTypes
import Driver.Util
import Driver.Loop
open Lean Drv

namespace DrvC05
open DT Py

def getNats (j : Json) (k : String) : Except String (List Nat) := do
  let a ← getArr j k
  a.toList.mapM (fun x => match x with
    | .num n => if n.exponent == 0 && n.mantissa ≥ 0 then pure n.mantissa.toNat else throw "bad nat"
    | _ => throw "bad nat")

def decAtom (j : Json) : Except String Atom :=
  match j with
  | .null => pure .none
  | .bool b => pure (.bool b)
  | .num n => if n.exponent == 0 then pure (.int n.mantissa) else throw "non-int number"
  | .str s => pure (.str s.toList)
  | .obj _ => do
    if let .ok r := getStr j "f" then
      match parseFloat r.toList with
      | some f => return .float f
      | none => throw s!"bad float {r}"
    if let .ok [y, m, d] := getNats j "d" then return .date ⟨y, m, d⟩
    if let .ok [h, mi, s, us] := getNats j "t" then return .time ⟨h, mi, s, us⟩
    if let .ok [y, m, d, h, mi, s, us] := getNats j "dt" then return .datetime ⟨⟨y, m, d⟩, ⟨h, mi, s, us⟩⟩
    if let .ok t := getStr j "o" then return .dict t.toList
    throw "bad atom"
  | .arr _ => throw "bad atom (array)"

def decElem (j : Json) : Except String Elem := do
  if let .ok xs := getArr j "l" then return .seq false (← xs.toList.mapM decAtom)
  if let .ok xs := getArr j "tu" then return .seq true (← xs.toList.mapM decAtom)
  return .atom (← decAtom j)

def decInp (j : Json) : Except String Inp := do
  if let .ok xs := getArr j "l" then return .seq false (← xs.toList.mapM decElem)
  if let .ok xs := getArr j "tu" then return .seq true (← xs.toList.mapM decElem)
  return .one (← decAtom j)

def decDtIn (j : Json) : Except String DtIn :=
  match j with
  | .null => pure .none
  | .str s => pure (.str s.toList)
  | _ => pure .other

def decDType (j : Json) : Except String DType :=
  match j with
  | .null => pure none
  | .str s => pure (some s.toList)
  | _ => throw "bad dtype"

def decNow (j : Json) : Except String DateTime := do
  match ← getNats j "now" with
  | [y, m, d, h, mi, s] => pure ⟨⟨y, m, d⟩, ⟨h, mi, s, 0⟩⟩
  | _ => throw "bad now"

def encAtom : Atom → Json
  | .none => Json.null
  | .bool b => jbool b
  | .int i => jint i
  | .float f => jobj [("f", jchars f.repr)]
  | .str s => jchars s
  | .date d => jobj [("d", jarr [jnat d.y, jnat d.m, jnat d.d])]
  | .time t => jobj [("t", jarr [jnat t.h, jnat t.mi, jnat t.s, jnat t.us])]
  | .datetime x => jobj [("dt", jarr [jnat x.date.y, jnat x.date.m, jnat x.date.d,
                                      jnat x.time.h, jnat x.time.mi, jnat x.time.s, jnat x.time.us])]
  | .dict t => jobj [("o", jchars t)]

def encElem : Elem → Json
  | .atom a => encAtom a
  | .seq false xs => jobj [("l", jarr (xs.map encAtom))]
  | .seq true xs => jobj [("tu", jarr (xs.map encAtom))]

def excName : Exc → String
  | .value => "ValueError"
  | .type => "TypeError"
  | .attr => "AttributeError"
  | .index => "IndexError"
  | .overflow => "OverflowError"

def encR : R Elem → Json
  | .ok v => jobj [("ok", encElem v)]
  | .error e => jobj [("raised", excName e)]

def encDType : DType → Json
  | none => Json.null
  | some d => jchars d

def encOutcome : Outcome → Json
  | .ok => jstr "ok"
  | .raised e => jstr (excName e)

def encState (s : PropState) (o : Outcome) : Json :=
  jobj [("outcome", encOutcome o), ("values", jarr (s.values.map encElem)), ("dtype", encDType s.dtype)]

def decOp (j : Json) : Except String Op := do
  let k ← getStr j "k"
  match k with
  | "values" => pure (.setValues (← decInp (← getVal j "v")))
  | "dtype" => pure (.setDtype (← decDtIn (← getVal j "d")))
  | "append" => pure (.append (← decInp (← getVal j "v")) (← getBool j "strict"))
  | "extend" => pure (.extend (← decInp (← getVal j "v")) (← getBool j "strict"))
  | "extend_prop" =>
    pure (.extendProp (← (← getArr j "vals").toList.mapM decElem) (← getBool j "same_unit"))
  | "insert" => pure (.insert (← getInt j "i") (← decInp (← getVal j "v")) (← getBool j "strict"))
  | "setitem" => pure (.setItem (← getInt j "i") (← decElem (← getVal j "v")))
  | "remove" => pure (.remove (← decElem (← getVal j "v")))
  | "merge" =>
    pure (.merge (← (← getArr j "vals").toList.mapM decElem) (← decDType (← getVal j "d"))
      (← getBool j "strict"))
  | "clone" => pure .clone
  | _ => throw s!"unknown op kind {k}"

def runTrace (now : DateTime) : PropState → List Op → List Json
  | _, [] => []
  | s, op :: ops =>
    let r := step now s op
    encState r.1 r.2 :: runTrace now r.1 ops

def handle (j : Json) : Except String Json := do
  let op ← getStr j "op"
  match op with
  | "valid_type" => pure (jbool (validType (← decDtIn (← getVal j "d"))))
  | "infer" => pure (jchars (inferDtype (← decElem (← getVal j "v"))))
  | "get" =>
    pure (encR (get (← decNow j) (← decElem (← getVal j "v")) (← decDType (← getVal j "d"))))
  | "set" =>
    pure (encR (set (← decNow j) (← decElem (← getVal j "v")) (← decDType (← getVal j "d"))))
  | "history" =>
    let now ← decNow j
    let c ← getVal j "ctor"
    let ops ← (← getArr j "ops").toList.mapM decOp
    match ctor now (← decDtIn (← getVal c "d")) (← decInp (← getVal c "values"))
        (← decInp (← getVal c "value")) with
    | .error e => pure (jobj [("ctor", jstr (excName e)), ("trace", jarr [])])
    | .ok s0 => pure (jobj [("ctor", jstr "ok"), ("trace", jarr (encState s0 .ok :: runTrace now s0 ops))])
  | _ => throw s!"unknown op {op}"

end DrvC05

def main : IO Unit := Drv.runLoop DrvC05.handle
