import Driver.Util
import Driver.Loop
open Lean Drv

namespace DrvC15

/-- Stub: replaced when the model of C15 is built. -/
def handle (_j : Json) : Except String Json := throw "model of C15 not built"

end DrvC15

def main : IO Unit := Drv.runLoop DrvC15.handle
