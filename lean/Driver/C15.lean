import OdmlModel.Model.Conv
import OdmlModel.Model.ConvText
import Driver.Util
import Driver.Loop
open Lean Drv

namespace DrvC15
open Conv

/-- tree = [tag, [[key, value] …], text, [kids …]] -/
partial def decXml (j : Json) : Except String Xml :=
  match j with
  | .arr #[.str t, .arr attrs, .str x, .arr kids] => do
    let as ← attrs.toList.mapM (fun a =>
      match a with
      | .arr #[.str k, .str v] => pure (k, v.toList)
      | _ => throw "bad attribute")
    let ks ← kids.toList.mapM decXml
    pure (.elem t as x.toList ks)
  | _ => throw "bad tree"

partial def encXml : Xml → Json
  | .elem t a x ks =>
    jarr [jstr t, jarr (a.map (fun p => jarr [jstr p.1, jchars p.2])), jchars x, jarr (ks.map encXml)]

def encPid (p : PropId) : Json := jarr [jchars p.sname, jchars p.stype, jchars p.pname]

def encLog : LogE → Json
  | .unnamedProp => jobj [("k", "unnamedProp")]
  | .alreadyExported pid tag kept dropped =>
    jobj [("k", "alreadyExported"), ("pid", encPid pid), ("tag", jstr tag), ("kept", jchars kept),
          ("text", jchars dropped)]
  | .binaryReplaced pid => jobj [("k", "binaryReplaced"), ("pid", encPid pid)]
  | .omittedValueAttr pid tag text =>
    jobj [("k", "omittedValueAttr"), ("pid", encPid pid), ("tag", jstr tag), ("text", jchars text)]
  | .omittedPropAttr pid tag text =>
    jobj [("k", "omittedPropAttr"), ("pid", encPid pid), ("tag", jstr tag), ("text", jchars text)]
  | .omittedSecAttr sname tag text =>
    jobj [("k", "omittedSecAttr"), ("sname", jchars sname), ("tag", jstr tag), ("text", jchars text)]
  | .omittedDocAttr tag text =>
    jobj [("k", "omittedDocAttr"), ("tag", jstr tag), ("text", jchars text)]

def encOptFields : Option (List (List Char)) → Json
  | none => Json.null
  | some fs => jarr (fs.map jchars)

def encProp (p : PropC) : Json :=
  jobj [("name", jchars p.name), ("values", encOptFields p.values), ("unit", jchars p.unit),
        ("uncertainty", jchars p.uncertainty), ("dtype", jchars p.dtype),
        ("value_origin", jchars p.valueOrigin), ("definition", jchars p.definition),
        ("reference", jchars p.reference), ("dependency", jchars p.dependency),
        ("dependency_value", jchars p.dependencyValue), ("id", jchars p.id)]

partial def encSec : SecC → Json
  | .mk n t d i ps ss =>
    jobj [("name", jchars n), ("type", jchars t), ("definition", jchars d), ("id", jchars i),
          ("props", jarr (ps.map encProp)), ("secs", jarr (ss.map encSec))]

def encDoc (d : DocC) : Json := jobj [("id", jchars d.id), ("secs", jarr (d.secs.map encSec))]

/-- typed 1.0 dict documents: see `Conv.DDoc` -/
def decScalar (j : Json) : Except String DScalar :=
  match j with
  | .null => pure .null
  | .str s => pure (.str s.toList)
  | .num n => if n.exponent == 0 then pure (.int n.mantissa) else throw "non-int number"
  | _ => throw "bad scalar"

def decPairs (j : Json) (f : Json → Except String α) : Except String (List (String × α)) :=
  match j with
  | .arr xs => xs.toList.mapM (fun p =>
      match p with
      | .arr #[.str k, v] => do pure (k, ← f v)
      | _ => throw "bad pair")
  | _ => throw "bad pairs"

def decDVal (j : Json) : Except String DVal := do pure ⟨← decPairs j decScalar⟩

def decDPItem (j : Json) : Except String DPItem :=
  match j with
  | .arr #[.str "attr", .str k, v] => do pure (.attr k (← decScalar v))
  | .arr #[.str "values", .arr vs] => do pure (.values (← vs.toList.mapM decDVal))
  | _ => throw "bad property item"

def decDProp (j : Json) : Except String DProp :=
  match j with
  | .arr xs => do pure ⟨← xs.toList.mapM decDPItem⟩
  | _ => throw "bad property"

partial def decDSec (j : Json) : Except String DSec :=
  match j with
  | .arr xs => do
    let items ← xs.toList.mapM (fun i =>
      match i with
      | .arr #[.str "attr", .str k, v] => do pure (DSItem.attr k (← decScalar v))
      | .arr #[.str "props", .arr ps] => do pure (DSItem.props (← ps.toList.mapM decDProp))
      | .arr #[.str "secs", .arr ss] => do pure (DSItem.secs (← ss.toList.mapM decDSec))
      | _ => throw "bad section item")
    pure (.mk items)
  | _ => throw "bad section"

def handle (j : Json) : Except String Json := do
  let op ← getStr j "op"
  match op with
  | "convert" | "dict" =>
    let fresh := (← getStr j "fresh").toList
    let x ← (if op == "dict" then do
               let d ← decDSec (← getVal j "doc")
               pure (docToTree d)
             else do
               let tj ← getVal j "tree"
               decXml tj)
    let t := convertTree fresh x
    pure (jobj [
      ("source", encXml x),
      ("raises", jbool (raises x)),
      ("shape", jbool (Shape10 x)),
      ("wf", jbool (WF10 x)),
      ("tree", encXml t),
      ("log", jarr ((convertLog x).map encLog)),
      ("accepts", jbool (readerAccepts t)),
      ("read", encDoc (readDoc t)),
      ("spec", encDoc (content10 fresh x))])
  | "csv" => pure (encOptFields (fromCsv (← getStr j "s").toList))
  | "uuid" =>
    pure (match parseUuid (← getStr j "s").toList with
          | some u => jchars u
          | none => Json.null)
  | "outname" => pure (jchars (outName (← getStr j "s").toList))
  | "decl" => pure (jchars (dropDecl (← getStr j "s").toList))
  | "tables" =>
    pure (jobj [("version_map", jarr (versionMap.map (fun p => jarr [jstr p.1, jstr p.2])))])
  | _ => throw s!"unknown op {op}"

end DrvC15

def main : IO Unit := Drv.runLoop DrvC15.handle
