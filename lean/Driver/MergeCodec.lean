/- JSON codec of the Section / Property trees of Model/Merge.lean, shared by the C12 and C13
   drivers (trusted glue, outside the proofs). -/
import OdmlModel.Model.Merge
import Driver.Util
open Lean Drv

namespace DrvMerge

open Merge

def optStr (j : Json) (k : String) : Except String (Option Str) :=
  match j.getObjVal? k with
  | .ok (.str s) => pure (some s.toList)
  | .ok .null => pure none
  | .error _ => pure none
  | .ok _ => throw s!"bad string field {k}"

def optInt' (j : Json) (k : String) : Except String (Option Int) :=
  match j.getObjVal? k with
  | .ok (.num n) => if n.exponent == 0 then pure (some n.mantissa) else throw "non-int number"
  | .ok .null => pure none
  | .error _ => pure none
  | .ok _ => throw s!"bad int field {k}"

def decDType (s : String) : Except String DType :=
  match s with
  | "string" => pure .string | "text" => pure .text | "int" => pure .int
  | "float" => pure .float | "url" => pure .url | "datetime" => pure .datetime
  | "date" => pure .date | "time" => pure .time | "boolean" => pure .boolean
  | "person" => pure .person
  | _ => throw s!"unknown dtype {s}"

def encDType : DType → String
  | .string => "string" | .text => "text" | .int => "int" | .float => "float" | .url => "url"
  | .datetime => "datetime" | .date => "date" | .time => "time" | .boolean => "boolean"
  | .person => "person"

def optDType (j : Json) (k : String) : Except String (Option DType) :=
  match j.getObjVal? k with
  | .ok (.str s) => do pure (some (← decDType s))
  | .ok .null => pure none
  | .error _ => pure none
  | .ok _ => throw s!"bad dtype field {k}"

def decVal (j : Json) : Except String Val := do
  if let .ok s := getStr j "s" then return .str s.toList
  if let .ok i := getInt j "i" then return .int i
  if let .ok h := getInt j "f" then return .flt h
  if let .ok b := getBool j "b" then return .bool b
  if let .ok s := getStr j "dt" then return .dtime s.toList
  if let .ok s := getStr j "d" then return .date s.toList
  if let .ok s := getStr j "t" then return .time s.toList
  throw "bad value"

def encVal : Val → Json
  | .str s => jobj [("s", jchars s)]
  | .int i => jobj [("i", jint i)]
  | .flt h => jobj [("f", jint h)]
  | .bool b => jobj [("b", jbool b)]
  | .date s => jobj [("d", jchars s)]
  | .time s => jobj [("t", jchars s)]
  | .dtime s => jobj [("dt", jchars s)]

def encOptStr : Option Str → Json
  | none => Json.null
  | some s => jchars s

def decProp (j : Json) : Except String (PropT Val) := do
  let vs ← (← getArr j "values").toList.mapM decVal
  pure { name := (← getStr j "name").toList, dtype := ← optDType j "dtype", values := vs,
         unit := ← optStr j "unit", uncertainty := ← optInt' j "unc",
         definition := ← optStr j "def", reference := ← optStr j "ref",
         origin := ← optStr j "origin" }

def encProp (p : PropT Val) : Json :=
  jobj [("name", jchars p.name),
        ("dtype", match p.dtype with | none => Json.null | some t => jstr (encDType t)),
        ("values", jarr (p.values.map encVal)), ("unit", encOptStr p.unit),
        ("unc", optInt p.uncertainty), ("def", encOptStr p.definition),
        ("ref", encOptStr p.reference), ("origin", encOptStr p.origin)]

partial def decSec (j : Json) : Except String (Sec Val) := do
  let props ← (← getArr j "props").toList.mapM decProp
  let secs ← (← getArr j "secs").toList.mapM decSec
  let merged := match getBool j "merged" with
    | .ok true => some (default : Ref)
    | _ => none
  pure (.mk { name := (← getStr j "name").toList, type := (← getStr j "type").toList,
              definition := ← optStr j "def", reference := ← optStr j "ref",
              link := ← optStr j "link", incl := ← optStr j "incl", merged := merged }
            props secs)

partial def encSec (s : Sec Val) : Json :=
  jobj [("name", jchars s.name), ("type", jchars s.type),
        ("def", encOptStr s.attrs.definition), ("ref", encOptStr s.attrs.reference),
        ("link", encOptStr s.attrs.link), ("incl", encOptStr s.attrs.incl),
        ("merged", jbool s.attrs.merged.isSome),
        ("props", jarr (s.props.map encProp)), ("secs", jarr (s.secs.map encSec))]

def encOutcome : Outcome → Json
  | .ok => jstr "ok"
  | .raised .valueError => jstr "ValueError"
  | .raised .keyError => jstr "KeyError"
  | .raised .attributeError => jstr "AttributeError"


end DrvMerge
