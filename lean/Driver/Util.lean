/- JSON helpers for the line-protocol driver (trusted glue, outside the proofs). -/
import Lean.Data.Json
open Lean

namespace Drv

def getStr (j : Json) (k : String) : Except String String := j.getObjValAs? String k
def getInt (j : Json) (k : String) : Except String Int := j.getObjValAs? Int k
def getNat (j : Json) (k : String) : Except String Nat := j.getObjValAs? Nat k
def getBool (j : Json) (k : String) : Except String Bool := j.getObjValAs? Bool k
def getArr (j : Json) (k : String) : Except String (Array Json) := j.getObjValAs? (Array Json) k
def getVal (j : Json) (k : String) : Except String Json := j.getObjVal? k

def optInt : Option Int → Json
  | none => Json.null
  | some i => Json.num (JsonNumber.fromInt i)

def jstr (s : String) : Json := Json.str s
def jchars (s : List Char) : Json := Json.str (String.ofList s)
def jbool (b : Bool) : Json := Json.bool b
def jnat (n : Nat) : Json := Json.num (JsonNumber.fromNat n)
def jint (n : Int) : Json := Json.num (JsonNumber.fromInt n)
def jarr (l : List Json) : Json := Json.arr l.toArray
def jobj (l : List (String × Json)) : Json := Json.mkObj l

end Drv
