import OdmlModel.Model.Dict
import OdmlModel.Model.DictDoc
import Driver.Util
import Driver.Loop
open Lean Drv

/-
JSON-lines handler for C02 (trusted glue, outside the proofs).

Encoding of `Dict.J`:  null, true/false, integers, strings as themselves; arrays as arrays;
  {"f": repr} float, {"d": iso} date, {"t": iso} time, {"dt": iso} datetime,
  {"o": [[key, value], ...]} dictionary (ordered).
-/
namespace DrvC02
open Dict

partial def decJ (j : Json) : Except String J :=
  match j with
  | .null => pure .null
  | .bool b => pure (.bool b)
  | .num n => if n.exponent == 0 then pure (.int n.mantissa) else throw "non-integer number"
  | .str s => pure (.str s)
  | .arr xs => do pure (.arr (← xs.toList.mapM decJ))
  | .obj _ => do
    if let .ok t := getStr j "f" then return .float t
    if let .ok t := getStr j "d" then return .date t
    if let .ok t := getStr j "t" then return .time t
    if let .ok t := getStr j "dt" then return .datetime t
    if let .ok kvs := getArr j "o" then
      let pairs ← kvs.toList.mapM (fun p =>
        match p with
        | .arr #[.str k, v] => do pure (k, ← decJ v)
        | _ => throw "bad pair")
      return .obj pairs
    throw "bad J"

/-- Output strings: plain when printable ASCII, otherwise `{"cp": [code points]}` (the shared loop
    prints raw non-ASCII characters, some of which Python's `splitlines` treats as line ends). -/
def sstr (s : String) : Json :=
  if s.toList.all (fun c => 0x20 ≤ c.toNat && c.toNat ≤ 0x7E) then jstr s
  else jobj [("cp", jarr (s.toList.map (fun c => jnat c.toNat)))]

partial def encJ : J → Json
  | .null => Json.null
  | .bool b => Json.bool b
  | .int i => jint i
  | .float t => jobj [("f", sstr t)]
  | .str s => sstr s
  | .date s => jobj [("d", sstr s)]
  | .time s => jobj [("t", sstr s)]
  | .datetime s => jobj [("dt", sstr s)]
  | .arr xs => jarr (xs.map encJ)
  | .obj kvs => jobj [("o", jarr (kvs.map (fun kv => jarr [sstr kv.1, encJ kv.2])))]

def decCard (j : Json) : Except String Card.Card :=
  match j with
  | .null => pure none
  | .arr #[a, b] => do
    let f : Json → Except String (Option Int) := fun x =>
      match x with
      | .null => pure none
      | .num n => pure (some n.mantissa)
      | _ => throw "bad bound"
    pure (some (← f a, ← f b))
  | _ => throw "bad card"

def encCard : Card.Card → Json
  | none => Json.null
  | some (a, b) => jarr [optInt a, optInt b]

def fieldJ (j : Json) (k : String) : Except String J := do decJ (← getVal j k)

def optStr (j : Json) (k : String) : Except String (Option String) := do
  match ← getVal j k with
  | .null => pure none
  | .str s => pure (some s)
  | _ => throw s!"bad optional string {k}"

def decProp (j : Json) : Except String Prp := do
  let vals ← getArr j "values"
  pure { id := ← getStr j "id", name := ← fieldJ j "name", values := ← vals.toList.mapM decJ,
         unit := ← fieldJ j "unit", definition := ← fieldJ j "definition",
         dependency := ← fieldJ j "dependency", dependencyValue := ← fieldJ j "dependency_value",
         uncertainty := ← fieldJ j "uncertainty", reference := ← fieldJ j "reference",
         dtype := ← optStr j "dtype", valueOrigin := ← fieldJ j "value_origin",
         valCard := ← decCard (← getVal j "val_card") }

partial def decSec (j : Json) : Except String Sec := do
  let props ← (← getArr j "props").toList.mapM decProp
  let secs ← (← getArr j "secs").toList.mapM decSec
  pure (.mk (← getStr j "id") (← fieldJ j "name") (← fieldJ j "type") (← fieldJ j "definition")
    (← fieldJ j "reference") (← fieldJ j "link") (← fieldJ j "repository") (← fieldJ j "include")
    (← decCard (← getVal j "sec_card")) (← decCard (← getVal j "prop_card")) props secs)

def decDoc (j : Json) : Except String Doc := do
  let secs ← (← getArr j "secs").toList.mapM decSec
  pure { id := ← getStr j "id", version := ← fieldJ j "version", author := ← fieldJ j "author",
         date := ← fieldJ j "date", repository := ← fieldJ j "repository", secs := secs }

def encOptStr : Option String → Json
  | none => Json.null
  | some s => sstr s

def encProp (p : Prp) : Json :=
  jobj [("id", sstr p.id), ("name", encJ p.name), ("values", jarr (p.values.map encJ)),
        ("unit", encJ p.unit), ("definition", encJ p.definition), ("dependency", encJ p.dependency),
        ("dependency_value", encJ p.dependencyValue), ("uncertainty", encJ p.uncertainty),
        ("reference", encJ p.reference), ("dtype", encOptStr p.dtype),
        ("value_origin", encJ p.valueOrigin), ("val_card", encCard p.valCard)]

partial def encSec : Sec → Json
  | .mk id name type d r l rp inc sc pc props secs =>
    jobj [("id", sstr id), ("name", encJ name), ("type", encJ type), ("definition", encJ d),
          ("reference", encJ r), ("link", encJ l), ("repository", encJ rp), ("include", encJ inc),
          ("sec_card", encCard sc), ("prop_card", encCard pc),
          ("props", jarr (props.map encProp)), ("secs", jarr (secs.map encSec))]

def encDoc (d : Doc) : Json :=
  jobj [("id", sstr d.id), ("version", encJ d.version), ("author", encJ d.author),
        ("date", encJ d.date), ("repository", encJ d.repository),
        ("secs", jarr (d.secs.map encSec))]

/-- A table `[[key, value-or-null], ...]` of a library function on strings. -/
def strTable (j : Json) (k : String) : Except String (String → Option String) := do
  let rows ← (getArr j k <|> pure #[])
  let tbl ← rows.toList.mapM (fun r =>
    match r with
    | .arr #[.str a, .str b] => pure (a, some b)
    | .arr #[.str a, .null] => pure (a, (none : Option String))
    | _ => throw s!"bad row in {k}")
  pure (fun s => (tbl.lookup s).join)

def strIntTable (j : Json) (k : String) : Except String (String → Option Int) := do
  let rows ← (getArr j k <|> pure #[])
  let tbl ← rows.toList.mapM (fun r =>
    match r with
    | .arr #[.str a, .num n] => pure (a, some n.mantissa)
    | .arr #[.str a, .null] => pure (a, (none : Option Int))
    | _ => throw s!"bad row in {k}")
  pure (fun s => (tbl.lookup s).join)

def intStrTable (j : Json) (k : String) : Except String (Int → Option String) := do
  let rows ← (getArr j k <|> pure #[])
  let tbl ← rows.toList.mapM (fun r =>
    match r with
    | .arr #[.num n, .str b] => pure (n.mantissa, some b)
    | .arr #[.num n, .null] => pure (n.mantissa, (none : Option String))
    | _ => throw s!"bad row in {k}")
  pure (fun i => (tbl.lookup i).join)

def decLib (j : Json) : Except String Lib := do
  pure { uuid := ← strTable j "uuid", pyInt := ← strIntTable j "int", pyFloat := ← strTable j "float",
         floatOfInt := ← intStrTable j "f_of_i", intOfFloat := ← strIntTable j "i_of_f",
         dateOfStr := ← strTable j "date", timeOfStr := ← strTable j "time",
         datetimeOfStr := ← strTable j "datetime", timeNorm := ← strTable j "time_norm",
         datetimeNorm := ← strTable j "datetime_norm" }

def encWarn : Warn → Json
  | .invalidAttr k => jobj [("invalid_attr", sstr k)]
  | .propNotCreated => jstr "prop_not_created"
  | .secNotCreated => jstr "sec_not_created"
  | .docNotCreated => jstr "doc_not_created"
  | .childRefused => jstr "child_refused"
  | .badEntry => jstr "bad_entry"

def encErr : Err → Json
  | .parser => jstr "parser"
  | .invalidVersion => jstr "invalid_version"
  | .leak => jstr "leak"
  | .unmodelled => jstr "unmodelled"

def decMode (s : String) : Except String Mode :=
  match s with
  | "strict" => pure .strict
  | "lenient" => pure .lenient
  | _ => throw "bad mode"

def handle (j : Json) : Except String Json := do
  let op ← getStr j "op"
  match op with
  | "write" =>
    let d ← decDoc (← getVal j "doc")
    let lib ← decLib (← getVal j "lib")
    pure (jobj [("dict", encJ (wrap (writeDoc d))), ("ok", jbool (writeOk d && !writeRefused d)), ("refused", jbool (writeRefused d)),
                ("wf", jbool (wfDoc lib d)), ("repr", jbool (dictRepr d)),
                ("layout", jbool (layoutOK (wrap (writeDoc d))))])
  | "read" =>
    let lib ← decLib (← getVal j "lib")
    let m ← decMode (← getStr j "mode")
    let v ← decJ (← getVal j "j")
    match readDict lib m v with
    | .ok (d, ws) => pure (jobj [("doc", encDoc d), ("warnings", jarr (ws.map encWarn))])
    | .error e => pure (jobj [("error", encErr e)])
  | "layout" =>
    let v ← decJ (← getVal j "j")
    pure (jbool (layoutOK v))
  | "denote" =>
    let lib ← decLib (← getVal j "lib")
    let v ← decJ (← getVal j "j")
    match denote lib v with
    | some d => pure (jobj [("doc", encDoc d)])
    | none => pure Json.null
  | _ => throw s!"unknown op {op}"

end DrvC02

def main : IO Unit := Drv.runLoop DrvC02.handle
