import Driver.Util
import Driver.Loop
open Lean Drv

namespace DrvC02

/-- Stub: replaced when the model of C02 is built. -/
def handle (_j : Json) : Except String Json := throw "model of C02 not built"

end DrvC02

def main : IO Unit := Drv.runLoop DrvC02.handle
