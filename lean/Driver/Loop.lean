/-
Line-protocol loop shared by the per-property drivers: one JSON request per line on stdin,
one JSON answer per line on stdout. Answers are `{"r": ...}` or `{"err": "..."}`
(protocol error; never a model outcome). Trusted glue, outside the proofs.
-/
import Lean.Data.Json
open Lean

namespace Drv

partial def loop (handle : Json → Except String Json) (hin hout : IO.FS.Stream) : IO Unit := do
  let line ← hin.getLine
  if line.isEmpty then return ()
  let ans : Json :=
    match Json.parse line with
    | .error e => Json.mkObj [("err", Json.str s!"parse: {e}")]
    | .ok j =>
      match handle j with
      | .ok r => Json.mkObj [("r", r)]
      | .error e => Json.mkObj [("err", Json.str e)]
  hout.putStrLn ans.compress
  loop handle hin hout

def runLoop (handle : Json → Except String Json) : IO Unit := do
  let hin ← IO.getStdin
  let hout ← IO.getStdout
  loop handle hin hout
  hout.flush

end Drv
