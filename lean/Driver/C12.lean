import OdmlModel.Model.Link
import Driver.Util
import Driver.Loop
import Driver.MergeCodec
open Lean Drv

namespace DrvC12
open Merge Link DrvMerge

def decDoc (j : Json) : Except String (Doc Val) :=
  match j with
  | .arr xs => xs.toList.mapM decSec
  | _ => throw "bad document"

def encDoc (d : Doc Val) : Json := jarr (d.map encSec)

def encPath (p : List Str) : Json := jarr (p.map jchars)

/-- `fetch` from the `files` object of the request -/
def mkFetch (files : List (String × Doc Val)) (u : Str) : Option (Doc Val) :=
  (files.find? (fun f => f.1.toList == u)).map (·.2)

def runOps (fetch : Str → Option (Doc Val)) : Doc Val → List String → Except String (List Json)
  | _, [] => pure []
  | d, op :: ops => do
    let (d', out) ← match op with
      | "finalize" => pure (finalize convC fetch d)
      | "clean" => pure (cleanDoc convC fetch d, Outcome.ok)
      | "reload" => pure (d, Outcome.ok)
      | _ => throw s!"unknown doc op {op}"
    let rest ← runOps fetch d' ops
    pure (jobj [("out", encOutcome out), ("doc", encDoc d')] :: rest)

def linkerInfo (fetch : Str → Option (Doc Val)) (doc : Doc Val) (p : List Str) : Json :=
  match secAt doc p with
  | none => Json.null
  | some l =>
    let tgt : Option (Sec Val) := match l.attrs.link, l.attrs.incl with
      | some txt, _ => secAt doc (parsePath txt)
      | none, some txt =>
        (match fetch (parseInclude txt).1 with
         | some term => (match (parseInclude txt).2 with
           | some tp => secAt term tp
           | none => term.head?)
         | none => none)
      | none, none => none
    match tgt with
    | none => jobj [("path", encPath p), ("target", Json.null)]
    | some t => jobj [("path", encPath p), ("target", encSec t), ("noClash", jbool (noClash l t)),
                      ("noFill", jbool (noFill l t))]

def handle (j : Json) : Except String Json := do
  let op ← getStr j "op"
  match op with
  | "cycle" =>
    let doc ← decDoc (← getVal j "doc")
    let filesJ ← getVal j "files"
    let files ← match filesJ with
      | .obj kvs => kvs.toList.mapM (fun (k, v) => do pure (k, ← decDoc v))
      | _ => throw "bad files"
    let fetch := mkFetch files
    let ops ← (← getArr j "ops").toList.mapM (fun o => match o with
      | .str s => pure s
      | _ => throw "bad op")
    let states ← runOps fetch doc ops
    pure (jobj [("states", jarr states), ("regime", jbool (inRegime fetch doc)),
                ("linkers", jarr ((linkers doc).map (linkerInfo fetch doc)))])
  | "split" =>
    -- the raw text of an include as the setter reads it: `url, path = new_value.split('#', 1)`
    let txt ← getStr j "text"
    let r := splitFirst '#' txt.toList
    pure (jobj [("url", jchars r.1),
                ("path", match r.2 with | some p => jchars p | none => Json.null)])
  | _ => throw s!"unknown op {op}"

end DrvC12

def main : IO Unit := Drv.runLoop DrvC12.handle
