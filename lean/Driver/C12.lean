import Driver.Util
import Driver.Loop
open Lean Drv

namespace DrvC12

/-- Stub: replaced when the model of C12 is built. -/
def handle (_j : Json) : Except String Json := throw "model of C12 not built"

end DrvC12

def main : IO Unit := Drv.runLoop DrvC12.handle
