import OdmlModel.Model.Card
import OdmlModel.Model.CardObj
import Driver.Util
import Driver.Loop
open Lean Drv

namespace DrvC09
open Card

partial def decIn (j : Json) : Except String In :=
  match j with
  | .null => pure .nul
  | .bool b => pure (.bool b)
  | .num n => if n.exponent == 0 then pure (.int n.mantissa) else throw "non-int number"
  | .str s => pure (.str s)
  | .obj _ => do
    if let .ok z := getBool j "f" then return .float z
    if let .ok t := getBool j "o" then return .other t
    if let .ok xs := getArr j "t" then return .seq true (← xs.toList.mapM decIn)
    if let .ok xs := getArr j "l" then return .seq false (← xs.toList.mapM decIn)
    throw "bad In"
  | .arr _ => throw "bad In (array)"

def decDIn (j : Json) : Except String DIn :=
  match j with
  | .null => pure .nul
  | .bool b => pure (.bool b)
  | .num n => if n.exponent == 0 then pure (.int n.mantissa) else pure (.other (n.mantissa != 0))
  | .str s => pure (.str s)
  | .obj _ => do
    let t ← getBool j "o"
    pure (.other t)
  | .arr xs => pure (.other (!xs.isEmpty))

def encCard : Card → Json
  | none => Json.null
  | some (a, b) => jarr [optInt a, optInt b]

def decCard (j : Json) : Except String Card :=
  match j with
  | .null => pure none
  | .arr #[a, b] => do
    let f : Json → Except String (Option Int) := fun x =>
      match x with
      | .null => pure none
      | .num n => pure (some n.mantissa)
      | _ => throw "bad bound"
    pure (some (← f a, ← f b))
  | _ => throw "bad card"

/-- A stored bound as the object it is: `null`, a number (exact int), `true` / `false` (a bool). -/
def encPyBound : PyBound → Json
  | .nul => Json.null
  | .int i => jint i
  | .bool b => Json.bool b

def encObjCard : ObjCard → Json
  | none => Json.null
  | some (a, b) => jarr [encPyBound a, encPyBound b]

def encObjRes : ObjRes → Json
  | .ok c => jobj [("ok", encObjCard c)]
  | .valueError => jobj [("raised", "ValueError")]

def encRes : Res → Json
  | .ok c => jobj [("ok", encCard c)]
  | .valueError => jobj [("raised", "ValueError")]

def encCause : Option Cause → Json
  | none => Json.null
  | some (.minimum m) => jobj [("minimum", jint m)]
  | some (.maximum m) => jobj [("maximum", jint m)]

def handle (j : Json) : Except String Json := do
  let op ← getStr j "op"
  match op with
  | "fmt" => pure (encRes (formatCard (← decIn (← getVal j "v"))))
  | "set" =>
    let old ← decCard (← getVal j "old")
    let r := setCard old (← decIn (← getVal j "v"))
    let v ← decIn (← getVal j "v")
    -- "stored": the objects `format_cardinality` hands to the slot (exact ints, never bools)
    pure (jobj [("card", encCard r.1), ("ok", r.2), ("stored", encObjRes (formatCardObj pyInt v)),
                ("unbool", encObjRes (formatCardObj pyInt v.unbool))])
  | "issue" =>
    let c ← decCard (← getVal j "c")
    pure (encCause (cardIssue c (← getNat j "n")))
  | "fmt_obj" => pure (encObjRes (formatCardObj pyInt (← decIn (← getVal j "v"))))
  | "render_obj" =>
    match ← getVal j "c" with
    | .arr #[a, b] =>
      let f : Json → Except String PyBound := fun x =>
        match x with
        | .null => pure .nul
        | .bool t => pure (.bool t)
        | .num n => pure (.int n.mantissa)
        | _ => throw "bad bound"
      pure (jchars (renderObjText (← f a, ← f b)))
    | _ => throw "render_obj: pair expected"
  | "render" =>
    match ← decCard (← getVal j "c") with
    | some p => pure (jchars (renderCardText p))
    | none => throw "render none"
  | "parse_text" => pure (encCard (parseCardText (← getStr j "s").toList))
  | "parse_list" =>
    pure (encCard (parseCardList (← decDIn (← getVal j "a")) (← decDIn (← getVal j "b"))))
  | _ => throw s!"unknown op {op}"

end DrvC09

def main : IO Unit := Drv.runLoop DrvC09.handle
