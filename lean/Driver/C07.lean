import Driver.Util
import Driver.Loop
open Lean Drv

namespace DrvC07

/-- Stub: replaced when the model of C07 is built. -/
def handle (_j : Json) : Except String Json := throw "model of C07 not built"

end DrvC07

def main : IO Unit := Drv.runLoop DrvC07.handle
