import OdmlModel.Model.FS
import Driver.Util
import Driver.Loop
open Lean Drv

namespace DrvC07
open FS

def excOfName (s : String) : Exc :=
  match s with
  | "ParserException" => .parserException
  | "NotImplementedError" => .notImplemented
  | _ => .other s

def excName : Exc → String
  | .parserException => "ParserException"
  | .notImplemented => "NotImplementedError"
  | .valueError => "ValueError"
  | .userWarning => "UserWarning"
  | .osError => "OSError"
  | .other s => s

/-- `{"ok": x}` / `{"raise": "Cls"}` -/
def decRes {α} (j : Json) (dec : Json → Except String α) : Except String (Except Exc α) :=
  match j.getObjVal? "raise" with
  | .ok r => do pure (.error (excOfName (← r.getStr?)))
  | .error _ => do pure (.ok (← dec (← getVal j "ok")))

def decRanks (j : Json) : Except String (List Rank) := do
  let xs ← j.getArr?
  xs.toList.mapM fun x => do
    let s ← x.getStr?
    if s == "error" then pure Rank.error else pure Rank.warning

def decBytes (j : Json) : Except String Bytes := do pure (← j.getStr?).toList

def decFs (j : Json) : Except String (List (Path × Bytes)) := do
  let xs ← j.getArr?
  xs.toList.mapM fun x => do
    match x with
    | .arr #[a, b] => pure ((← a.getStr?).toList, (← b.getStr?).toList)
    | _ => throw "bad fs entry"

def decOptStr (j : Json) (k : String) : Option (List Char) :=
  match j.getObjVal? k with
  | .ok (.str s) => some s.toList
  | _ => none

def handle (j : Json) : Except String Json := do
  let op ← getStr j "op"
  match op with
  | "save" =>
    let entry ← getStr j "entry"
    let backend := (← getStr j "backend").toList
    let fmt := decOptStr j "rdf_format"
    let path := (← getStr j "path").toList
    let files ← decFs (← getVal j "fs")
    let vres ← decRes (← getVal j "validate") decRanks
    let rres ← decRes (← getVal j "render") decBytes
    let sres ← decRes (← getVal j "serialize") decBytes
    let dres ← decRes (← getVal j "decorate") (fun _ => pure ())
    let blocked := ((← getArr j "blocked").toList.filterMap (fun x => x.getStr?.toOption)).map String.toList
    let warnRaises ← getBool j "warn_raises"
    let legacy := (getBool j "legacy").toOption.getD false
    let query := ((← getArr j "query").toList.filterMap (fun x => x.getStr?.toOption)).map String.toList
    let env : Env Unit :=
      { validate := fun _ => vres, render := fun _ _ => rres, serialize := fun _ _ => sres,
        decorate := fun x => match dres with | .ok _ => .ok x | .error e => .error e,
        canOpen := fun p => !blocked.contains p, warnRaises := warnRaises }
    let fs := Fs.ofList files
    let (res, target) ← (match entry with
      | "fileio" => pure (fileioSave env backend fmt () path fs, savePath path backend)
      | "odmlwriter" =>
        match parseBackend backend with
        | none => pure ((fs, Outcome.raised .notImplemented), path)
        | some b =>
          if legacy then pure (odmlWriterWriteFileLegacy env b fmt () path fs, path)
          else pure (odmlWriterWriteFile env b fmt () path fs, path)
      | "xmlwriter" => pure (xmlWriterWriteFile env () path fs, path)
      | "rdfwriter" =>
        let f := fmt.getD "turtle".toList
        pure (rdfWriterWriteFile env f () path fs, rdfTarget f path)
      | _ => throw s!"unknown entry {entry}" : Except String ((Fs × Outcome) × Path))
    let filesOut := query.map fun q =>
      jarr [jchars q, match res.1 q with | some b => jchars b | none => Json.null]
    let oc := match res.2 with
      | .ok w => [("outcome", jstr "ok"), ("warned", jbool w)]
      | .raised e => [("outcome", jstr "raised"), ("exc", jstr (excName e))]
    let tc := match res.1 target with | some b => jchars b | none => Json.null
    -- the rank the table of rules gives each issue (by the registered rule it comes from)
    let issueRules := match j.getObjVal? "issue_rules" with
      | .ok (.arr xs) => xs.toList.filterMap (fun (x : Json) => x.getStr?.toOption)
      | _ => ([] : List String)
    let ruleRanks := issueRules.map fun r =>
      match ruleRank r with
      | some .error => jstr "error"
      | some .warning => jstr "warning"
      | none => jstr "undecided"
    pure (jobj (oc ++ [("target", jchars target), ("target_content", tc), ("files", jarr filesOut),
                       ("rule_ranks", jarr ruleRanks)]))
  | "idrule" =>
    -- (round 6) the id rule over the id texts in the order the rule meets them; the text `new_id` /
    -- the constructor argument store for each text handed to them
    let ids := ((← getArr j "ids").toList.filterMap (fun x => x.getStr?.toOption)).map String.toList
    let edits := match j.getObjVal? "edits" with
      | .ok (.arr xs) => xs.toList.filterMap (fun (x : Json) => x.getStr?.toOption)
      | _ => ([] : List String)
    let stored := edits.map fun e =>
      match Py.Uuid.newId (some e.toList) 0 with
      | some t => jchars t
      | none => Json.null
    pure (jobj [("issues", jarr ((uniqueIdIssues ids).map jchars)), ("stored", jarr stored)])
  | "savepath" =>
    pure (jchars (savePath (← getStr j "path").toList (← getStr j "backend").toList))
  | "rdftarget" =>
    pure (jchars (rdfTarget (← getStr j "fmt").toList (← getStr j "path").toList))
  | "rdfknown" => pure (jbool (rdfFormatKnown (← getStr j "fmt").toList))
  | _ => throw s!"unknown op {op}"

end DrvC07

def main : IO Unit := Drv.runLoop DrvC07.handle
