import Driver.Util
import Driver.Loop
open Lean Drv

namespace DrvC11

/-- Stub: replaced when the model of C11 is built. -/
def handle (_j : Json) : Except String Json := throw "model of C11 not built"

end DrvC11

def main : IO Unit := Drv.runLoop DrvC11.handle
