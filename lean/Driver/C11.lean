import OdmlModel.Model.Clone
import Driver.Util
import Driver.Loop
open Lean Drv

/-
Driver of C11. One request = one case:
  {"init":[obj…], "ops":[op…]}
`init` is a table of objects in creation order ({"kind","name","id","attrs","parent","vals","merged"},
parent / merged = table index or null). Objects and caller-held lists are addressed by their index in
two tables (`objs`, `lists`) which the harness keeps in the same way on the implementation side:
every object of a tree returned by clone / export_leaf is registered in the order node, sections
(recursively), properties; new_obj / get_values / new_list register their result.
Answer: {"steps":[{"out":…,"snap":…}…]} with a snapshot of every parentless registered object (tree,
values resolved through the cells, table index of every node) and of every list after each op.

The record of a merge (`_merged_attrs`, address space `dcell`): with `"rec":true` in the request every
Section node of every snapshot also carries "ma" = the items of its record ([[position, text]…], sorted;
1 = definition, 2 = reference) and "mc" = the address of the dict (objects with the same "mc" SHARE the
dict; to be numbered by first occurrence before comparing). An init object may carry "ma" (the items of
its record) and "mc" (a class number: objects with the same number share one dict); a Section without
"ma" gets a new empty dict (`__init__`). Ops {"o":"merge_attrs","x","s","record"} = `x._merge(s, False,
record)` for an `s` without children, {"o":"unmerge_attrs","x"} = the attribute part of `x.unmerge(…)`.
Without "rec" the snapshots are exactly what they were.
Trusted glue, outside the proofs.
-/
namespace DrvC11
open Clone

structure St where
  h : H
  objs : Array Nat
  lists : Array Nat
  withRec : Bool := false

def decLit (j : Json) : Except String Lit :=
  match j.getObjValAs? String "a" with
  | .ok s => pure (.atom s)
  | .error _ => do
    let xs ← getArr j "t"
    let ss ← xs.toList.mapM (fun x => x.getStr?)
    pure (.tup ss)

def decLits (j : Json) (k : String) : Except String (List Lit) := do
  let xs ← getArr j k
  xs.toList.mapM decLit

def decKind (s : String) : Except String Kind :=
  match s with
  | "doc" => pure .doc
  | "sec" => pure .sec
  | "prop" => pure .prop
  | _ => throw s!"bad kind {s}"

def kindStr : Kind → String
  | .doc => "doc"
  | .sec => "sec"
  | .prop => "prop"

def optNat (j : Json) (k : String) : Option Nat :=
  match j.getObjValAs? Nat k with
  | .ok n => some n
  | .error _ => none

def strList (j : Json) (k : String) : Except String (List String) := do
  let xs ← getArr j k
  xs.toList.mapM (fun x => x.getStr?)

def idxOf (a : Array Nat) (x : Nat) : Json :=
  match a.toList.findIdx? (· == x) with
  | some i => jnat i
  | none => Json.null

def encItems (h : H) (items : List Item) : Json :=
  jarr (items.map fun
    | .atom s => jstr s
    | .ref t => jarr ((h.tcell t).map jstr))

partial def encTree (st : St) (x : Nat) : Json :=
  let n := st.h.node x
  jobj ([("h", idxOf st.objs x), ("k", jstr (kindStr n.kind)), ("n", jstr n.name), ("id", jnat n.id),
        ("a", jarr (n.attrs.map jstr)),
        ("v", match n.vals with | some c => encItems st.h (st.h.vcell c) | none => Json.null),
        ("m", match n.merged with | some m => idxOf st.objs m | none => Json.null)] ++
       (if st.withRec && n.kind == .sec then
          [("ma", jarr (((recOf st.h x).toArray.qsort (fun a b => a.1 < b.1)).toList.map
                    (fun kv => jarr [jnat kv.1, jstr kv.2]))),
           ("mc", jnat n.mattrs)]
        else []) ++
       [
        -- what the object answers for its repository (`get_repository()`): its own or the one of the
        -- nearest object above it that has one
        ("r", match n.kind with
              | .prop => Json.null
              | _ => match inherited st.h (st.h.nN + 1) x repoAttr with
                     | some v => jstr v
                     | none => Json.null),
        ("s", jarr (n.secs.map (encTree st))), ("p", jarr (n.props.map (encTree st)))])

def snap (st : St) : Json :=
  let roots := (List.range st.objs.size).filterMap fun i =>
    let x := st.objs[i]!
    if (st.h.node x).parent.isNone then some (toString i, encTree st x) else none
  jobj [("roots", Json.mkObj roots),
        ("lists", jarr (st.lists.toList.map fun c => encItems st.h (st.h.vcell c)))]

/-- Registers the tree at `x`: node, sections (recursively), properties. -/
partial def register (h : H) (objs : Array Nat) (x : Nat) : Array Nat :=
  let objs := objs.push x
  let objs := (h.node x).secs.foldl (fun o s => register h o s) objs
  (h.node x).props.foldl (fun o p => o.push p) objs

def decRec (o : Json) : Except String (Option (List (Nat × String))) :=
  match o.getObjVal? "ma" with
  | .ok (.arr xs) => do
    let items ← xs.toList.mapM (fun kv => do
      match kv with
      | .arr #[k, v] => pure ((← k.getNat?), (← v.getStr?))
      | _ => throw "bad ma item")
    pure (some items)
  | _ => pure none

def build (init : Array Json) (withRec : Bool := false) : Except String St := do
  let mut h : H := Clone.empty
  let mut objs : Array Nat := #[]
  let mut maxId := 0
  let mut classes : List (Nat × Nat) := []      -- sharing class of the request ↦ dict address
  for o in init do
    let k ← decKind (← getStr o "kind")
    let id ← getNat o "id"
    let name ← getStr o "name"
    let attrs ← strList o "attrs"
    let (h1, x) := allocN h { kind := k, name := name, id := id, attrs := attrs, parent := none,
                              secs := [], props := [], vals := none, merged := none }
    h := h1
    if k == .prop then
      h := setValuesLits h x (← decLits o "vals")
    if k == .sec then
      -- `_merged_attrs`: a dict of its own (`__init__`), or the one an earlier object of the class holds
      let items := (← decRec o).getD []
      match optNat o "mc" with
      | some cl =>
        match classes.lookup cl with
        | some d => h := updN h x (fun n => { n with mattrs := d })
        | none =>
          let (h2, d) := allocD h items
          h := updN h2 x (fun n => { n with mattrs := d })
          classes := (cl, d) :: classes
      | none =>
        let (h2, d) := allocD h items
        h := updN h2 x (fun n => { n with mattrs := d })
    match optNat o "parent" with
    | some pi =>
      let p := objs[pi]!
      h := setChildList h p (k != .prop) (fun l => l ++ [x])
      h := updN h x (fun n => { n with parent := some p })
    | none => pure ()
    objs := objs.push x
    if id ≥ maxId then maxId := id + 1
  -- second pass: merged references
  let mut i := 0
  for o in init do
    match optNat o "merged" with
    | some mi =>
      let tgt := objs[mi]!
      h := updN h objs[i]! (fun n => { n with merged := some tgt })
    | none => pure ()
    i := i + 1
  h := { h with nextId := maxId }
  pure { h := h, objs := objs, lists := #[], withRec := withRec }

def obj (st : St) (j : Json) (k : String) : Except String Nat := do
  let i ← getNat j k
  -- an index the model's table does not have (the implementation registered something the model
  -- did not create) is answered by the model as "not an object", never as a protocol error
  pure (st.objs[i]?.getD 1000000000)

def lst (st : St) (j : Json) (k : String) : Except String Nat := do
  let i ← getNat j k
  pure (st.lists[i]?.getD 1000000000)

def decOp (st : St) (j : Json) : Except String Op := do
  let o ← getStr j "o"
  match o with
  | "clone" => pure (.clone (← obj st j "x") (← getBool j "children") (← getBool j "keep"))
  | "export" => pure (.exportLeaf (← obj st j "x"))
  | "get_values" => pure (.getValues (← obj st j "p"))
  | "set_values_from" => pure (.setValuesFrom (← obj st j "p") (← lst st j "l"))
  | "set_values" => pure (.setValuesLits (← obj st j "p") (← decLits j "v"))
  | "append_value" => pure (.appendValue (← obj st j "p") (← decLit (← getVal j "v")))
  | "set_value_at" => pure (.setValueAt (← obj st j "p") (← getNat j "i") (← decLit (← getVal j "v")))
  | "set_dtype" => pure (.setDtype (← obj st j "p") (← getStr j "v"))
  | "new_list" => pure (.newList (← decLits j "v"))
  | "list_append" => pure (.listAppend (← lst st j "l") (← decLit (← getVal j "v")))
  | "list_set" => pure (.listSet (← lst st j "l") (← getNat j "i") (← decLit (← getVal j "v")))
  | "list_del" => pure (.listDel (← lst st j "l") (← getNat j "i"))
  | "list_inner_set" =>
    pure (.listInnerSet (← lst st j "l") (← getNat j "i") (← getNat j "j") (← getStr j "s"))
  | "value_inner_set" =>
    pure (.valueInnerSet (← obj st j "p") (← getNat j "i") (← getNat j "j") (← getStr j "s"))
  | "new_obj" =>
    pure (.newObj (← decKind (← getStr j "kind")) (← getStr j "name") (← strList j "attrs")
      (← decLits j "v"))
  | "append" => pure (.append (← obj st j "p") (← obj st j "x"))
  | "remove" => pure (.remove (← obj st j "p") (← obj st j "x"))
  | "rename" => pure (.rename (← obj st j "x") (← getStr j "new"))
  | "set_attr" => pure (.setAttr (← obj st j "x") (← getNat j "i") (← getStr j "v"))
  | "new_id" => pure (.newId (← obj st j "x"))
  | "merge_attrs" => pure (.mergeAttrs (← obj st j "x") (← obj st j "s") (← getBool j "record"))
  | "unmerge_attrs" => pure (.unmergeAttrs (← obj st j "x"))
  | _ => throw s!"unknown op {o}"

def errStr : Err → String
  | .keyError => "KeyError"
  | .valueError => "ValueError"
  | .indexError => "IndexError"
  | .typeError => "TypeError"
  | .attributeError => "AttributeError"
  | .fuel => "RecursionError"

def exec (st : St) (op : Op) : St × Json :=
  let (h1, r) := step st.h op
  let st1 := { st with h := h1 }
  match r with
  | .err e => (st1, jobj [("raised", jstr (errStr e))])
  | .ok ret =>
    match op with
    | .clone .. | .exportLeaf .. =>
      let objs := register h1 st1.objs ret
      ({ st1 with objs := objs }, jobj [("ok", idxOf objs ret)])
    | .newObj .. => ({ st1 with objs := st1.objs.push ret }, jobj [("ok", jnat st1.objs.size)])
    | .getValues .. | .newList .. =>
      ({ st1 with lists := st1.lists.push ret }, jobj [("ok", jnat st1.lists.size)])
    | _ => (st1, jobj [("ok", Json.null)])

def handle (j : Json) : Except String Json := do
  let init ← getArr j "init"
  let ops ← getArr j "ops"
  let withRec := match j.getObjValAs? Bool "rec" with | .ok b => b | .error _ => false
  let mut st ← build init withRec
  let mut steps : Array Json := #[jobj [("out", Json.null), ("snap", snap st)]]
  for oj in ops do
    let op ← decOp st oj
    let (st1, out) := exec st op
    st := st1
    steps := steps.push (jobj [("out", out), ("snap", snap st)])
  pure (jobj [("steps", Json.arr steps)])

end DrvC11

def main : IO Unit := Drv.runLoop DrvC11.handle
