import OdmlModel.Model.Reader
import Driver.Util
import Driver.Loop
open Lean Drv

namespace DrvC16
open Reader

/-! JSON glue for the reader models (trusted, outside the proofs).

Requests
  {"op":"xml_calls","tree":X,"csvfail":[raw...]}
  {"op":"xml_read","tree":X,"mode":"strict"|"lenient","guards":"fixed"|"original",
   "csvfail":[raw...],"env":[{"kind":K,"args":A,"fail":b,"auto":null|"name"}...]}
  {"op":"xml_text","parsed":"syntaxError"|"valueError","mode":..,"guards":..}
  {"op":"xml_stack","tree":X}
  {"op":"dict_calls","value":J}
  {"op":"dict_read","value":J,"mode":..,"guards":..,"env":[{"kind":K,"args":D,"fail":b,"auto":null|J}...]}
-/

def chars (j : Json) : Except String Str :=
  match j with
  | .str s => pure s.toList
  | _ => throw "string expected"

partial def decXml (j : Json) : Except String Xml := do
  if let .ok o := getStr j "o" then
    return .other (if o == "pi" then .pi else if o == "comment" then .comment else .entity)
  let tag ← getStr j "t"
  let attrs ← (← getArr j "a").toList.mapM fun p =>
    match p with
    | .arr #[.str k, .str v] => pure (k.toList, v.toList)
    | _ => throw "bad attribute"
  let text ← match ← getVal j "x" with
    | .null => pure none
    | .str s => pure (some s.toList)
    | _ => throw "bad text"
  let kids ← (← getArr j "k").toList.mapM decXml
  pure (.elem tag.toList attrs text kids)

partial def decJ (j : Json) : Except String J :=
  match j with
  | .null => pure .null
  | .bool b => pure (.bool b)
  | .num n => if n.exponent == 0 then pure (.num n.mantissa) else throw "ints only; floats are {f:repr}"
  | .str s => pure (.str s.toList)
  | .arr xs => do pure (.arr (← xs.toList.mapM decJ))
  | .obj _ => do
    if let .ok r := getStr j "f" then return .flt r.toList
    let ps ← getArr j "o"
    let kvs ← ps.toList.mapM fun p =>
      match p with
      | .arr #[.str k, v] => do pure (k.toList, ← decJ v)
      | _ => throw "bad pair"
    pure (.obj kvs)

partial def encJ : J → Json
  | .null => Json.null
  | .bool b => Json.bool b
  | .num i => jint i
  | .flt r => jobj [("f", jchars r)]
  | .str s => jchars s
  | .arr xs => jarr (xs.map encJ)
  | .obj kvs => jobj [("o", jarr (kvs.map fun p => jarr [jchars p.1, encJ p.2]))]

def decKind (s : String) : Except String Kind :=
  match s with
  | "odML" => pure .doc
  | "section" => pure .sec
  | "property" => pure .prop
  | _ => throw s!"bad kind {s}"

def encKind : Kind → Json
  | .doc => "odML"
  | .sec => "section"
  | .prop => "property"

def encCard : Card.Card → Json
  | none => Json.null
  | some (a, b) => jarr [optInt a, optInt b]

def decCard (j : Json) : Except String Card.Card :=
  match j with
  | .null => pure none
  | .arr #[a, b] => do
    let f : Json → Except String (Option Int) := fun x =>
      match x with
      | .null => pure none
      | .num n => pure (some n.mantissa)
      | _ => throw "bad bound"
    pure (some (← f a, ← f b))
  | _ => throw "bad card"

def encAVal : AVal → Json
  | .none => Json.null
  | .text s => jobj [("s", jchars s)]
  | .values raw => jobj [("csv", jchars raw)]
  | .card c => jobj [("card", encCard c)]

def decAVal (j : Json) : Except String AVal :=
  match j with
  | .null => pure .none
  | _ => do
    if let .ok s := getStr j "s" then return .text s.toList
    if let .ok s := getStr j "csv" then return .values s.toList
    pure (.card (← decCard (← getVal j "card")))

def encArgs (a : Args) : Json := jarr (a.map fun p => jarr [jchars p.1, encAVal p.2])

def decArgs (j : Json) : Except String Args :=
  match j with
  | .arr xs => xs.toList.mapM fun p =>
    match p with
    | .arr #[.str k, v] => do pure (k.toList, ← decAVal v)
    | _ => throw "bad arg"
  | _ => throw "bad args"

def encDVal : DVal → Json
  | .raw j => jobj [("raw", encJ j)]
  | .card c => jobj [("card", encCard c)]

def decDVal (j : Json) : Except String DVal := do
  if let .ok v := getVal j "raw" then return .raw (← decJ v)
  pure (.card (← decCard (← getVal j "card")))

def encDArgs (a : DArgs) : Json := jarr (a.map fun p => jarr [jchars p.1, encDVal p.2])

def decDArgs (j : Json) : Except String DArgs :=
  match j with
  | .arr xs => xs.toList.mapM fun p =>
    match p with
    | .arr #[.str k, v] => do pure (k.toList, ← decDVal v)
    | _ => throw "bad arg"
  | _ => throw "bad args"

def dargsEq : DArgs → DArgs → Bool
  | [], [] => true
  | (k, x) :: xs, (l, y) :: ys => k == l && DVal.beq x y && dargsEq xs ys
  | _, _ => false

def decMode (j : Json) : Except String Mode := do
  match ← getStr j "mode" with
  | "strict" => pure .strict
  | "lenient" => pure .lenient
  | s => throw s!"bad mode {s}"

def decGuards (j : Json) : Except String Guards := do
  match ← getStr j "guards" with
  | "fixed" => pure Guards.fixed
  | "original" => pure Guards.original
  | s => throw s!"bad guards {s}"

def decCsvFail (j : Json) : Except String (Str → Bool) := do
  let l ← (← getArr j "csvfail").toList.mapM chars
  pure (fun s => l.contains s)

structure XEntry where
  kind : Kind
  args : Args
  fail : Bool
  auto : Name Str

def decEnv (j : Json) : Except String Env := do
  let csv ← decCsvFail j
  let entries ← match j.getObjVal? "env" with
    | .ok (.arr xs) => xs.toList.mapM fun e => do
      let auto ← match ← getVal e "auto" with
        | .null => pure Name.fresh
        | .str s => pure (Name.given s.toList)
        | _ => throw "bad auto"
      pure (XEntry.mk (← decKind (← getStr e "kind")) (← decArgs (← getVal e "args")) (← getBool e "fail") auto)
    | _ => pure []
  let find := fun (k : Kind) (a : Args) => entries.find? (fun e => e.kind == k && e.args == a)
  pure { csvFails := csv
         createFails := fun k a => match find k a with | some e => e.fail | none => false
         autoName := fun k a => match find k a with | some e => e.auto | none => .fresh }

structure DEntry where
  kind : Kind
  args : DArgs
  fail : Bool
  auto : Name J

def decDEnv (j : Json) : Except String DEnv := do
  let entries ← match j.getObjVal? "env" with
    | .ok (.arr xs) => xs.toList.mapM fun e => do
      let auto ← match ← getVal e "auto" with
        | .null => pure Name.fresh
        | v => do pure (Name.given (← decJ (← getVal v "g")))
      pure (DEntry.mk (← decKind (← getStr e "kind")) (← decDArgs (← getVal e "args")) (← getBool e "fail") auto)
    | _ => pure []
  let find := fun (k : Kind) (a : DArgs) => entries.find? (fun e => e.kind == k && dargsEq e.args a)
  pure { createFails := fun k a => match find k a with | some e => e.fail | none => false
         autoName := fun k a => match find k a with | some e => e.auto | none => .fresh }

partial def encObj (encName : ν → Json) : Obj ν → Json
  | .mk k n made props secs =>
    jobj [("kind", encKind k),
          ("name", match n with | .fresh => Json.null | .given x => jobj [("g", encName x)]),
          ("made", jbool made),
          ("props", jarr (props.map (encObj encName))),
          ("secs", jarr (secs.map (encObj encName)))]

def encLeak : Leak → String
  | .attributeError => "AttributeError"
  | .keyError => "KeyError"
  | .csvError => "Error"
  | .valueError => "ValueError"
  | .typeError => "TypeError"
  | .ctorError => "constructor"

def encRes (encName : ν → Json) : Except Err (Obj ν × Nat) → Json
  | .ok (o, w) => jobj [("outcome", "doc"), ("warnings", jnat w), ("doc", encObj encName o)]
  | .error .parserException => jobj [("outcome", "ParserException")]
  | .error .invalidVersion => jobj [("outcome", "InvalidVersionException")]
  | .error (.leak l) => jobj [("outcome", "leak"), ("class", encLeak l)]

def handle (j : Json) : Except String Json := do
  let op ← getStr j "op"
  match op with
  | "xml_calls" =>
    let x ← decXml (← getVal j "tree")
    let env ← decEnv j
    let calls := callsTag Guards.fixed env .doc x
    pure (jarr (calls.map fun c => jobj [("kind", encKind c.1), ("args", encArgs c.2)]))
  | "xml_read" =>
    let x ← decXml (← getVal j "tree")
    let env ← decEnv j
    pure (encRes jchars (readXml (← decGuards j) env (← decMode j) x))
  | "xml_stack" =>
    -- frames of the reader's module the model allows for this tree, and the nesting depth of its elements
    let x ← decXml (← getVal j "tree")
    pure (jobj [("stack", jnat (readerStack x)), ("depth", jnat (Xml.depth x))])
  | "xml_text" =>
    let p ← match ← getStr j "parsed" with
      | "syntaxError" => pure Parsed.syntaxError
      | "valueError" => pure Parsed.valueError
      | s => throw s!"bad parsed {s}"
    let env : Env := ⟨fun _ => false, fun _ _ => false, fun _ _ => .fresh⟩
    pure (encRes jchars (readXmlText (← decGuards j) env (← decMode j) p))
  | "dict_calls" =>
    let x ← decJ (← getVal j "value")
    let env : DEnv := ⟨fun _ _ => false, fun _ _ => .fresh⟩
    let calls := dCalls Guards.fixed env x
    pure (jarr (calls.map fun c => jobj [("kind", encKind c.1), ("args", encDArgs c.2)]))
  | "dict_read" =>
    let x ← decJ (← getVal j "value")
    let env ← decDEnv j
    pure (encRes encJ (readDict (← decGuards j) env (← decMode j) x))
  | _ => throw s!"unknown op {op}"

end DrvC16

/-- Same protocol as `Drv.runLoop`, but every answer is flushed: the harness keeps one driver
    process per worker and asks it one request at a time (the constructor calls of the first
    answer are executed on the real library before the second request can be written). -/
partial def DrvC16.loop (hin hout : IO.FS.Stream) : IO Unit := do
  let line ← hin.getLine
  if line.isEmpty then return ()
  let ans : Json :=
    match Json.parse line with
    | .error e => Json.mkObj [("err", Json.str s!"parse: {e}")]
    | .ok j =>
      match DrvC16.handle j with
      | .ok r => Json.mkObj [("r", r)]
      | .error e => Json.mkObj [("err", Json.str e)]
  hout.putStrLn ans.compress
  hout.flush
  DrvC16.loop hin hout

def main : IO Unit := do
  DrvC16.loop (← IO.getStdin) (← IO.getStdout)
