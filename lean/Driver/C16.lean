import Driver.Util
import Driver.Loop
open Lean Drv

namespace DrvC16

/-- Stub: replaced when the model of C16 is built. -/
def handle (_j : Json) : Except String Json := throw "model of C16 not built"

end DrvC16

def main : IO Unit := Drv.runLoop DrvC16.handle
