import Driver.Util
import Driver.Loop
open Lean Drv

namespace DrvC19

/-- Stub: replaced when the model of C19 is built. -/
def handle (_j : Json) : Except String Json := throw "model of C19 not built"

end DrvC19

def main : IO Unit := Drv.runLoop DrvC19.handle
