import OdmlModel.Model.Registry
import OdmlModel.Model.TermLoad
import Driver.ValidCodec
import Driver.Util
import Driver.Loop
open Lean Drv

namespace DrvC19
open Valid Registry

/-- The user-defined handlers of harness/c19.py (same numbering). -/
def cust (n : Nat) (v : Visit) : List Issue :=
  let name : Option Str := match v.obj with
    | .sec s => some s.name
    | .prop _ p => some p.name
    | .doc _ => none
  match n with
  | 1 => [⟨v.ref, .custom, .warning⟩]
  | 2 => match name with
    | some ('a' :: _) => [⟨v.ref, .custom, .error⟩]
    | _ => []
  | _ => []

def decKlass (s : String) : Except String Klass :=
  match s with
  | "odML" => pure .odML
  | "section" => pure .section
  | "property" => pure .property
  | _ => throw s!"bad klass {s}"

def decHandler (j : Json) : Except String Handler := do
  if let .ok c := getNat j "c" then return .custom c
  let r ← getStr j "r"
  match Rule.ofName r with
  | some x => pure (.rule x)
  | none => throw s!"unknown rule {r}"

def handlerName : Handler → String
  | .rule r => r.name
  | .custom n => s!"custom_{n}"

def decMacro (s : String) : Except String Registry.Macro :=
  match s with
  | "defaultValidation" => pure .defaultValidation
  | "customValidation" => pure .customValidation
  | "constructSection" => pure .constructSection
  | "constructPropertyValues" => pure (.constructProperty true)
  | "constructProperty" => pure (.constructProperty false)
  | "setSecCardinality" => pure .setSecCardinality
  | "setPropCardinality" => pure .setPropCardinality
  | "setValCardinality" => pure .setValCardinality
  | "assignValues" => pure .assignValues
  | "save" => pure .save
  | "load" => pure .load
  | _ => throw s!"unknown macro {s}"

def encTable (t : Table) : Json :=
  jobj ([Klass.odML, Klass.section, Klass.property].map fun k =>
    (k.name, jarr ((((t k).map handlerName).toArray.qsort (· < ·)).toList.map jstr)))

structure Run where
  st : State
  users : List (Nat × Nat)      -- user handle -> index of the validation object
  out : List Json

def lookupUser (r : Run) (u : Nat) : Except String Nat :=
  match r.users.lookup u with
  | some i => pure i
  | none => throw s!"unknown validation handle {u}"

def stepJson (r : Run) (j : Json) : Except String Run := do
  let t ← getStr j "t"
  let (st', users', extra) ← (match t with
    | "new" => do
      let u ← getNat j "u"
      let reset ← getBool j "reset"
      pure (act r.st (.op (.newValidation reset)), (u, r.st.insts.length) :: r.users,
            ([] : List (String × Json)))
    | "custom" => do
      let i ← lookupUser r (← getNat j "u")
      let k ← decKlass (← getStr j "k")
      let h ← decHandler (← getVal j "h")
      pure (act r.st (.op (.registerCustom i k h)), r.users, [])
    | "global" => do
      let k ← decKlass (← getStr j "k")
      let h ← decHandler (← getVal j "h")
      pure (act r.st (.op (.registerGlobal k h)), r.users, [])
    | "run" => do
      let i ← lookupUser r (← getNat j "u")
      let n ← DrvValid.decNode (← getStr j "kind") (← getVal j "node")
      let st' := act r.st (.op (.run i))
      let iss := report cust st' i n
      pure (st', r.users, [("issues", jarr (iss.map DrvValid.encIssue)),
                           ("table", encTable (effective st' i))])
    | "lib" => do
      let m ← decMacro (← getStr j "m")
      pure (act r.st (.lib m), r.users, [])
    | _ => throw s!"unknown act {t}")
  let obs := jobj ([("global", encTable st'.global), ("objects", jnat st'.insts.length)] ++ extra)
  pure { st := st', users := users', out := obs :: r.out }

/-! The terminology loader (Model/TermLoad.lean): a case names the stage at which each of its files
    ends and a sequence of entries into the loader. -/

def decFile (s : String) : Except String TermLoad.FileState :=
  match s with
  | "unreachable" => pure .unreachable
  | "unparsable" => pure .unparsable
  | "unfinalizable" => pure .unfinalizable
  | "good" => pure .good
  | _ => throw s!"bad file state {s}"

def encOutcome : TermLoad.Outcome → Json
  | .doc => jstr "doc"
  | .none => jstr "none"
  | .raised => jstr "raised"

def encLoaded (t : TermLoad.Table) : Json :=
  jarr ((t.toArray.qsort (fun a b => a.1 < b.1)).toList.map fun e => jarr [jnat e.1, jbool e.2])

def loaderStep (files : Nat → TermLoad.FileState) (acc : TermLoad.Table × List Json) (j : Json) :
    Except String (TermLoad.Table × List Json) := do
  let t ← getStr j "t"
  let u ← getNat j "u"
  match t with
  | "load" =>
    let r := TermLoad.load files acc.1 u
    pure (r.2, jobj [("outcome", encOutcome r.1), ("table", encLoaded r.2)] :: acc.2)
  | "deferred" =>
    let t' := TermLoad.deferredLoad files acc.1 u
    pure (t', jobj [("table", encLoaded t')] :: acc.2)
  | "rule" =>
    let r := TermLoad.load files acc.1 u
    let w := TermLoad.sectionWarnings r.1 (← getBool j "hasType")
    pure (r.2, jobj [("warnings", jnat w), ("table", encLoaded r.2)] :: acc.2)
  | "prule" =>
    let r := TermLoad.load files acc.1 u
    let w := match TermLoad.propertyWarnings r.1 (← getBool j "hasType") (← getBool j "hasName") with
      | some n => jnat n
      | none => jstr "raised"
    pure (r.2, jobj [("warnings", w), ("table", encLoaded r.2)] :: acc.2)
  | _ => throw s!"unknown loader op {t}"

def handle (j : Json) : Except String Json := do
  let op ← getStr j "op"
  match op with
  | "history" =>
    let acts ← getArr j "acts"
    let r ← acts.toList.foldlM stepJson { st := init, users := [], out := [] }
    pure (jarr r.out.reverse)
  | "loader" =>
    let states ← (← getArr j "files").toList.mapM fun f => do
      match f with
      | .str s => decFile s
      | _ => throw "bad file state"
    let files : Nat → TermLoad.FileState := fun u => (states[u]?).getD .unreachable
    let r ← (← getArr j "ops").toList.foldlM (loaderStep files) (([] : TermLoad.Table), ([] : List Json))
    pure (jarr r.2.reverse)
  | "validate_with" =>
    -- issues for an explicit handler order: {"odML": [...], "section": [...], "property": [...]}
    let n ← DrvValid.decNode (← getStr j "kind") (← getVal j "node")
    let tab ← getVal j "table"
    let row : String → Except String (List Handler) := fun k => do
      (← getArr tab k).toList.mapM decHandler
    let o ← row "odML"
    let s ← row "section"
    let p ← row "property"
    let t : Table := fun k => match k with
      | .odML => o
      | .section => s
      | .property => p
    pure (jarr ((issuesWith (applyH cust) t n).map DrvValid.encIssue))
  | _ => throw s!"unknown op {op}"

end DrvC19

def main : IO Unit := Drv.runLoop DrvC19.handle
