import OdmlModel.Model.Merge
import Driver.Util
import Driver.Loop
import Driver.MergeCodec
open Lean Drv

namespace DrvC13
open Merge DrvMerge

def handle (j : Json) : Except String Json := do
  let op ← getStr j "op"
  match op with
  | "merge" =>
    let d ← decSec (← getVal j "d")
    let s ← decSec (← getVal j "s")
    let k ← getBool j "strict"
    let r := merge convC k default d s
    pure (jobj [("out", encOutcome r.2), ("d", encSec r.1),
                ("check", encOutcome (mergeCheck convC k d s)),
                ("clash", jbool (typeClash d s)), ("wf", jbool (wfSec convC s)),
                ("typed", jbool (typedSec d)), ("conflict", jbool (treeConflict d s))])
  | "check" =>
    let d ← decSec (← getVal j "d")
    let s ← decSec (← getVal j "s")
    pure (encOutcome (mergeCheck convC (← getBool j "strict") d s))
  | "pmerge" =>
    let d ← decProp (← getVal j "d")
    let s ← decProp (← getVal j "s")
    let k ← getBool j "strict"
    let r := propMerge convC k d s
    pure (jobj [("out", encOutcome r.2), ("d", encProp r.1),
                ("check", encOutcome (propMergeCheck convC k d s))])
  | "extend" =>
    let d ← decProp (← getVal j "d")
    let vs ← (← getArr j "vs").toList.mapM decVal
    let r := extend convC d vs (← getBool j "strict")
    pure (jobj [("out", encOutcome r.2), ("d", encProp r.1)])
  | "get" =>
    let v ← decVal (← getVal j "v")
    pure (match getC (← optDType j "dtype") v with
          | none => Json.null
          | some w => encVal w)
  | "infer" => pure (jstr (encDType (inferC (← decVal (← getVal j "v")))))
  | "eq" => pure (jbool (eqC (← decVal (← getVal j "a")) (← decVal (← getVal j "b"))))
  | "norm" => pure (jchars (normText (← getStr j "s").toList))
  | _ => throw s!"unknown op {op}"

end DrvC13

def main : IO Unit := Drv.runLoop DrvC13.handle
