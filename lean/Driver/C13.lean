import Driver.Util
import Driver.Loop
open Lean Drv

namespace DrvC13

/-- Stub: replaced when the model of C13 is built. -/
def handle (_j : Json) : Except String Json := throw "model of C13 not built"

end DrvC13

def main : IO Unit := Drv.runLoop DrvC13.handle
