import OdmlModel.Model.Rdf
import Driver.Util
import Driver.Loop
import Driver.RdfCodec
open Lean Drv

namespace DrvC10
open Rdf RdfCodec

def handle (j : Json) : Except String Json := do
  let op ← getStr j "op"
  match op with
  | "export" =>
    let docs ← (← getArr j "docs").toList.mapM decDoc
    let dflt ← decPairs j "default"
    let custom ← decPairs j "custom"
    match mkCfg (← getBool j "subclassing") dflt custom with
    | none => pure (jobj [("raised", jstr "ValueError")])
    | some cfg =>
      let g := exportRdf cfg docs
      pure (jobj [("triples", jarr (g.map encTriple)), ("import", encImport (importRdf g)),
                  ("import_rev", encImport (importRdf g.reverse)),
                  -- the hypotheses of C10.rdf_roundtrip / _partial, evaluated on this case
                  ("wf", jbool (wfDocsB docs)), ("repr", jbool (rdfReprB docs)),
                  ("nounc", jbool (noUncB docs))])
  | "import" =>
    let g ← (← getArr j "triples").toList.mapM decTriple
    pure (encImport (importRdf g))
  | "format" =>
    let fs ← (← getArr j "formats").toList.mapM fun x => match x with
      | .str s => pure s | _ => throw "bad format"
    pure (jbool (formatAccepted fs (← getStr j "fmt")))
  | _ => throw s!"unknown op {op}"

end DrvC10

def main : IO Unit := Drv.runLoop DrvC10.handle
