import Driver.Util
import Driver.Loop
open Lean Drv

namespace DrvC10

/-- Stub: replaced when the model of C10 is built. -/
def handle (_j : Json) : Except String Json := throw "model of C10 not built"

end DrvC10

def main : IO Unit := Drv.runLoop DrvC10.handle
