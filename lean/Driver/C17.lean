import Driver.Util
import Driver.Loop
open Lean Drv

namespace DrvC17

/-- Stub: replaced when the model of C17 is built. -/
def handle (_j : Json) : Except String Json := throw "model of C17 not built"

end DrvC17

def main : IO Unit := Drv.runLoop DrvC17.handle
