import OdmlModel.Model.Batch
import Driver.Util
import Driver.Loop
open Lean Drv

namespace DrvC17
open FS Batch

def strs (j : Json) (k : String) : Except String (List (List Char)) := do
  pure (((← getArr j k).toList.filterMap (fun x => x.getStr?.toOption)).map String.toList)

/-- `{"content": value}` tables. -/
def table (j : Json) (k : String) : Except String (List (List Char × Json)) := do
  match ← getVal j k with
  | .obj kvs => pure (kvs.toList.map (fun (a, b) => (a.toList, b)))
  | _ => throw s!"bad table {k}"

/-- Tables are keyed by the bytes found at the path (what the per-file functions read). -/
def lookup (t : List (List Char × Json)) (c : Option Bytes) : Option Json :=
  match c with
  | none => none
  | some b => (t.find? (fun e => e.1 == b)).map (·.2)

def decFs (j : Json) : Except String (List (Path × Bytes)) := do
  let xs ← j.getArr?
  xs.toList.mapM fun x => do
    match x with
    | .arr #[a, b] => pure ((← a.getStr?).toList, (← b.getStr?).toList)
    | _ => throw "bad fs entry"

/-- Tool tables: loads: name -> bool; convert: name -> "err" | null | text; render: name -> "err" | text.
    A name missing from a table fails. -/
def mkTool (loads conv rend : List (List Char × Json)) : Tool :=
  { loads := fun _ c => match lookup loads c with | some (.bool b) => b | _ => false,
    convert := fun _ c => match lookup conv c with
      | some .null => .ok none
      | some (.str s) => if s == "err" then .error (.other "conv") else .ok (some s.toList)
      | _ => .error (.other "conv"),
    render := fun _ c => match lookup rend c with
      | some (.str s) => if s == "err" then .error (.other "render") else .ok s.toList
      | _ => .error (.other "render") }

def repName : Report → String
  | .skipped => "skipped" | .converted => "converted" | .nothing => "nothing"
  | .convError => "convError" | .exported => "exported"
  | .convertedExported => "convertedExported" | .rdfError => "rdfError" | .done => "done"

def filesOut (fs : Fs) (query : List Path) : Json :=
  jarr (query.map fun q => jarr [jchars q, match fs q with | some b => jchars b | none => Json.null])

def decFmt (j : Json) : Except String ResFormat := do
  match ← getVal j "fmt" with
  | .str "v1_1" => pure .v1_1
  | .str "odml" => pure .odml
  | .obj _ => do
    let ext ← getStr (← getVal j "fmt") "rdf"
    pure (.rdf ext.toList)
  | _ => throw "bad fmt"

def handle (j : Json) : Except String Json := do
  let op ← getStr j "op"
  match op with
  | "stem" => pure (jchars (stem (← getStr j "path").toList))
  | "splitext" =>
    let r := splitextPath (← getStr j "path").toList
    pure (jarr [jchars r.1, jchars r.2])
  | "basename" => pure (jchars (basename (← getStr j "path").toList))
  | "join" => pure (jchars (pyJoin (← getStr j "a").toList (← getStr j "b").toList))
  | "outname" => pure (jchars (outName (← decFmt j) (← getStr j "path").toList))
  | "dirname" => pure (jchars (dirname (← getStr j "path").toList))
  | "implicit_out" =>
    pure (jchars (implicitOutDir (← getStr j "in").toList (← getStr j "fmt").toList))
  | "mapdir" =>
    pure (jchars (mapDir (← getStr j "in").toList (← getStr j "out").toList (← getStr j "dir").toList))
  | "cli" =>
    let tool ← getStr j "tool"
    let outDir := (← getStr j "out_dir").toList
    -- with "tree": the file list is what the model's `discover` finds in the tree below "root"
    -- (`main`); without: the list as given (`run_conversion` entered directly)
    let files ← (match (getVal j "tree").toOption with
      | some t => do
        let xs ← t.getArr?
        let tree ← xs.toList.mapM fun x => do
          match x with
          | .arr #[a, b] => pure ((← a.getStr?).toList, (← b.getStr?).toList)
          | _ => throw "bad tree entry"
        let rec_ := (getBool j "recursive").toOption.getD false
        pure (discover (← getStr j "root").toList rec_ tree)
      | none => strs j "files" : Except String (List Path))
    let fs := Fs.ofList (← decFs (← getVal j "fs"))
    let T := mkTool (← table j "loads") (← table j "convert") (← table j "render")
    let (step, outs) ← (match tool with
      | "convert" => pure (convStep T outDir, convOuts outDir)
      | "rdf" => do
        let rdfDir := (← getStr j "rdf_dir").toList
        pure (rdfStep T outDir rdfDir, rdfOuts outDir rdfDir)
      | _ => throw "unknown tool" : Except String (Step × (Path → List Path)))
    let res := loop step files fs
    let query := files ++ files.flatMap outs
    let oc := match res.2 with
      | .ok rs => jobj [("ok", jarr (rs.map (fun r => jstr (repName r))))]
      | .error _ => jobj [("raised", jbool true)]
    pure (jobj [("outcome", oc), ("files", filesOut res.1 query), ("discovered", jarr (files.map jchars))])
  | "convert_dir" =>
    let fmt ← decFmt j
    let inDir := (← getStr j "in").toList
    let outDir := (← getStr j "out").toList
    let legacy := (getBool j "legacy_unmatched").toOption.getD false
    let entries ← (do
      let xs ← getArr j "entries"
      xs.toList.mapM fun x => do
        match x with
        | .arr #[a, b] => pure ((← a.getStr?).toList, (← b.getStr?).toList)
        | _ => throw "bad entry" : Except String (List (Path × List Char)))
    let fs := Fs.ofList (← decFs (← getVal j "fs"))
    let T := mkTool [] (← table j "convert") (← table j "render")
    let mapd : Path → Path := if legacy then id else mapDir inDir outDir
    let res := convertDirLoop T fmt mapd entries fs
    let query := entries.flatMap fun e => [pyJoin e.1 e.2, outName fmt (pyJoin (mapd e.1) e.2)]
    pure (jobj [("ok", jbool res.2.isOk), ("files", filesOut res.1 query)])
  | _ => throw s!"unknown op {op}"

end DrvC17

def main : IO Unit := Drv.runLoop DrvC17.handle
