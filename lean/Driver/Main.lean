/-
Line-protocol driver: one JSON request per line on stdin, one JSON answer per line on stdout.
`{"p": "C09", "op": ..., ...}` is dispatched to the handler of that property's model.
Answers are `{"r": ...}` or `{"err": "..."}` (protocol error; never a model outcome).
-/
import Driver.C09
open Lean

def dispatch (j : Json) : Except String Json := do
  let p ← j.getObjValAs? String "p"
  match p with
  | "C09" => DrvC09.handle j
  | _ => throw s!"unknown property {p}"

partial def loop (hin hout : IO.FS.Stream) : IO Unit := do
  let line ← hin.getLine
  if line.isEmpty then return ()
  let ans : Json :=
    match Json.parse line with
    | .error e => Json.mkObj [("err", Json.str s!"parse: {e}")]
    | .ok j =>
      match dispatch j with
      | .ok r => Json.mkObj [("r", r)]
      | .error e => Json.mkObj [("err", Json.str e)]
  hout.putStrLn ans.compress
  loop hin hout

def main : IO Unit := do
  let hin ← IO.getStdin
  let hout ← IO.getStdout
  loop hin hout
  hout.flush
