# -*- coding: utf-8 -*-
"""
C08 - Validation reports exactly the issues the documented rules prescribe.

Tie between lean/OdmlModel/Model/Valid.lean and /repo/odml/validation.py.

A case is a small tree description.  The harness builds it with the public API (constructors
with oid=, parent=, public setters), falls back to private attributes only where the API
refuses what the property calls "made invalid on purpose" (duplicate sibling names, empty
names, values that do not fit the dtype), reads the built objects back through the public
getters (the *snapshot*), runs `Validation(root)` and
  - compares the multiset of (object, IssueID, rank) with the compiled Lean model run on the
    snapshot (correspondence),
  - evaluates the property restated over the snapshot (oracle, independent of the model).
"""
import atexit
import datetime as dt
import os
import re
import shutil
import signal
import sys
import tempfile
import threading
import uuid

import framework as fw

NS = uuid.UUID("12345678-1234-5678-1234-567812345678")

ERR, WARN = "error", "warning"
RANK_OF = {101: ERR, 200: ERR, 201: ERR, 202: ERR, 203: ERR,
           102: WARN, 300: WARN, 401: WARN, 402: WARN, 403: WARN, 500: WARN, 501: WARN, 502: WARN}

DATE = dt.date(2020, 1, 2)
TIME = dt.time(12, 30, 0)
DATETIME = dt.datetime(2020, 1, 2, 12, 30, 0)


def tok_id(tok):
    # "raw:<uuid>" (seeded round 5): the id itself, so that ids which differ in a single character
    # can be placed next to each other; every other token is hashed into a uuid as before
    if tok.startswith("raw:"):
        return tok[4:]
    return str(uuid.uuid5(NS, tok))


# ----------------------------------------------------------------------------- values
def val_to_py(enc):
    if enc is None:
        return None
    if "i" in enc:
        return enc["i"]
    if "b" in enc:
        return enc["b"]
    if "s" in enc:
        return enc["s"]
    if "fl" in enc:
        return float(enc["fl"])
    if "d" in enc:
        if "v" in enc:
            return temporal(enc)
        return {"date": DATE, "time": TIME, "datetime": DATETIME}[enc["d"]]
    if "l" in enc:
        return [str(k) for k in range(enc["l"])]
    if "x" in enc:
        return exotic(enc["x"])
    raise ValueError(enc)


def temporal(enc):
    """{"d": kind, "v": [fields], "tz": minutes east of UTC or None} -> date / time / datetime object.
    (added after seeded round 3: the three constants above were the only stored temporal values)"""
    tz = enc.get("tz")
    tzinfo = None if tz is None else dt.timezone(dt.timedelta(minutes=tz))
    if enc["d"] == "date":
        return dt.date(*enc["v"])
    if enc["d"] == "time":
        return dt.time(*enc["v"], tzinfo=tzinfo)
    return dt.datetime(*enc["v"], tzinfo=tzinfo)


def exotic(tok):
    """stored values of Python types the converters were not written for (oracle only)"""
    import decimal
    import fractions
    return {"tuple0": (), "tuple1": ("1",), "tuple2": ("1", "2"), "tuple3": ("a", "b", "c"),
            "dict0": {}, "dict1": {"a": 1}, "bytes": b"1", "bytes0": b"", "bytearray": bytearray(b"12"),
            "complex": 1j, "decimal": decimal.Decimal("1.5"), "decimal1": decimal.Decimal(1),
            "fraction": fractions.Fraction(1, 2), "set0": frozenset(), "set1": frozenset(["1"]),
            "listint": [1, 2], "listint0": [0], "nested": [[]], "nested2": [["1", "2"]],
            "range2": range(2), "ellipsis": Ellipsis}[tok]


def val_to_model(v):
    """Python value as stored -> driver encoding, or raises Unsupported."""
    if v is None:
        return None
    if isinstance(v, bool):
        return {"b": v}
    if isinstance(v, int):
        if abs(v) > 10 ** 15:
            raise Unsupported("huge int")
        return {"i": v}
    if isinstance(v, float):
        if v != v:
            return {"f": "nan"}
        if v in (float("inf"), float("-inf")):
            return {"f": "inf"}
        return {"f": "zero" if v == 0 else "one" if v == 1 else "finite"}
    if isinstance(v, str):
        if not v.isascii() or "_" in v:
            raise Unsupported("non-ascii / underscore string value")
        if re.search(r"[eE][+-]?[0-9]{3,}", v):
            raise Unsupported("decimal exponent beyond the modelled range (see the assumptions)")
        return {"s": v}
    if isinstance(v, dt.datetime):
        return {"d": "datetime"}
    if isinstance(v, dt.date):
        return {"d": "date"}
    if isinstance(v, dt.time):
        return {"d": "time"}
    if isinstance(v, list):
        return {"l": len(v)}
    # (a Python tuple is not a list for the converters: `() in [None, "", [], {}]` is False)
    raise Unsupported("value of type %s" % type(v).__name__)


class Unsupported(Exception):
    pass


def card_to_model(c):
    if c is None:
        return None
    if isinstance(c, tuple) and len(c) == 2 and all(x is None or (isinstance(x, int) and not isinstance(x, bool))
                                                     for x in c):
        return [c[0], c[1]]
    raise Unsupported("cardinality %r" % (c,))


def opt_str(x, what):
    if x is None:
        return x
    if isinstance(x, str):
        # lone surrogates / characters outside the BMP do not survive the JSON transport to the
        # driver as the same code points: the model is skipped, the oracle still decides
        if any(ord(ch) > 0xFFFF or 0xD800 <= ord(ch) <= 0xDFFF for ch in x):
            raise Unsupported("%s with a surrogate / non-BMP character" % what)
        return x
    raise Unsupported("%s of type %s" % (what, type(x).__name__))


# ----------------------------------------------------------------------------- building
def set_name(obj, wanted):
    """Public setter first; the private attribute only when the API refuses or rewrites."""
    try:
        obj.name = wanted
    except Exception:
        pass
    if obj.name != wanted:
        obj._name = wanted


class Built(object):
    def __init__(self):
        self.counter = 0
        self.below_api = 0

    def tmp(self):
        self.counter += 1
        return "tmp%d" % self.counter


def apply_decor(obj, decor):
    """Attributes no validation rule reads (definition, reference, repository, unit, ...), set through
    the public setters; a setter that refuses a value leaves the attribute as it was."""
    for key in sorted(decor or {}):
        val = decor[key]
        if key == "repository" and val == "TERM":
            val = term_url()
            if val is None:
                continue
        try:
            setattr(obj, key, val)
        except Exception:
            pass


def arg_shape(x):
    """an attribute argument: text as it is; {"i": 1}, {"b": true}, {"x": "tuple1"}, ... -> the Python
    value of that shape (what a YAML / JSON file with `dependency: 1` hands to the constructor)"""
    return val_to_py(x) if isinstance(x, dict) else x


def build_prop(spec, parent, bt):
    import odml
    vals = [val_to_py(v) for v in spec.get("values", [])]
    dtype = spec.get("dtype")
    prop = None
    if spec.get("via"):
        prop = build_prop_via(spec, vals, dtype, bt)
    elif not spec.get("raw"):
        try:
            prop = odml.Property(name=bt.tmp(), oid=tok_id(spec["id"]), values=vals, dtype=dtype)
            same = prop.dtype == dtype or dtype is None
            same = same and len(prop.values) == len(vals) and \
                all(type(a) is type(b) and (a == b or a != a) for a, b in zip(prop.values, vals))
            if not same:
                prop = None
        except Exception:
            prop = None
    if prop is None:
        prop = odml.Property(name=bt.tmp(), oid=tok_id(spec["id"]))
        prop._dtype = dtype
        prop._values = list(vals)
        bt.below_api += 1
    if spec.get("dep") is not None:
        prop.dependency = arg_shape(spec["dep"])
    if spec.get("dv") is not None:
        prop.dependency_value = arg_shape(spec["dv"])
    if spec.get("card") is not None:
        prop.val_cardinality = tuple(spec["card"])
    apply_decor(prop, spec.get("x"))
    if parent is not None:
        parent.append(prop)
    return prop


VIAS = ["ctor", "setter", "extend", "append", "insert", "item", "each"]


def build_prop_via(spec, vals, dtype, bt):
    """The values enter through one of the public entry points and are stored as the API converts
    them (text in the documented format becomes a date / time / datetime object, a time zone and
    sub-seconds are dropped, ...).  A refusal half way leaves the Property in the state the API
    left it in; a refusal by the constructor -> None (the caller stores the values below the API)."""
    import odml
    via = spec["via"]
    if via not in VIAS:
        raise ValueError("unknown entry point %r" % via)
    strict = bool(spec.get("strict", True))
    try:
        if via == "ctor":
            return odml.Property(name=bt.tmp(), oid=tok_id(spec["id"]), values=vals, dtype=dtype)
        prop = odml.Property(name=bt.tmp(), oid=tok_id(spec["id"]), dtype=dtype)
    except Exception:
        return None
    try:
        if via == "setter":
            prop.values = vals
        elif via == "extend":
            prop.extend(vals, strict=strict)
        elif via == "append":
            for v in vals:
                prop.append(v, strict=strict)
        elif via == "insert":
            for v in vals:
                prop.insert(0, v, strict=strict)
        elif via == "item":
            prop.values = [vals[0]] * len(vals) if vals else []
            for k, v in enumerate(vals):
                prop[k] = v
        elif via == "each":
            # one assignment per value: the refused ones leave the earlier value behind
            for v in vals:
                try:
                    prop.values = v
                except Exception:
                    pass
    except Exception:
        pass
    return prop


def build_sec(spec, parent, bt, later):
    import odml
    sec = odml.Section(name=bt.tmp(), type="t", oid=tok_id(spec["id"]), parent=parent)
    sec.type = spec.get("type")
    if spec.get("sc") is not None:
        sec.sec_cardinality = tuple(spec["sc"])
    if spec.get("pc") is not None:
        sec.prop_cardinality = tuple(spec["pc"])
    apply_decor(sec, spec.get("x"))
    for ps in spec.get("props", []):
        later.append((build_prop(ps, sec, bt), ps))
    for ss in spec.get("subs", []):
        build_sec(ss, sec, bt, later)
    later.append((sec, spec))
    return sec


def resolve_name(obj, spec):
    return id_name(obj, spec.get("name"))


def id_name(obj, name):
    """"=id" -> the id of the object; the neighbours (seeded round 5) are names that merely look like
    the id: other case, a blank behind it, its first group, the id of nobody"""
    if isinstance(name, dict):
        return arg_shape(name)          # a name that is not text (what a YAML / JSON file can hold)
    if name == "=id":
        return obj.id
    if name == "=ID":
        return obj.id.upper()
    if name == "=id ":
        return obj.id + " "
    if name == "=id8":
        return obj.id[:8]
    if name == "=id~":
        return obj.id[:-1] + ("0" if obj.id[-1] != "0" else "1")
    return name


def build(case):
    """-> (root object, Built)"""
    import odml
    bt = Built()
    later = []
    kind = case["kind"]
    if kind == "prop":
        root = build_prop(case["node"], None, bt)
        later.append((root, case["node"]))
    elif kind == "sec":
        root = build_sec(case["node"], None, bt, later)
    else:
        root = odml.Document(oid=tok_id(case["node"]["id"]))
        for ss in case["node"].get("secs", []):
            build_sec(ss, root, bt, later)
    for obj, spec in later:
        set_name(obj, resolve_name(obj, spec))
    if kind == "sub":
        for i in case["at"]:
            root = root.sections[i]
    return root, bt


# ----------------------------------------------------------------------------- operation histories
# The "ops" stream: a built tree, then a history of public-API operations on it (links and includes,
# resolved and unresolved; merges; clones with and without keep_id; edits of the very objects an
# earlier operation touched; removals, reorderings; validations and saves in between; a round trip
# through a writer/reader), then the validation of the Document, of a Section inside it or of a
# Property inside it.  An operation the API refuses (dangling link, name clash, bad cardinality)
# is part of the history too: it is counted and the history goes on.
_TERM = {}
_SCRATCH = {}


def scratch_dir():
    """One directory for the files the saves write (made once, before the workers fork; removed at
    exit by the process that made it).  Every save uses a file name of its own and removes it."""
    if "dir" not in _SCRATCH:
        _SCRATCH["dir"] = tempfile.mkdtemp(prefix="c08_save_")
        atexit.register(_scratch_cleanup, _SCRATCH["dir"], os.getpid())
    return _SCRATCH["dir"]


def _scratch_cleanup(path, pid):
    if os.getpid() == pid:
        shutil.rmtree(path, ignore_errors=True)


def term_url():
    """file:// URL of a small terminology document, written once (by the library's own writer)."""
    if "url" in _TERM:
        return _TERM["url"]
    _TERM["url"] = None
    try:
        import odml
        from odml.tools.odmlparser import ODMLWriter
        doc = odml.Document()
        top = odml.Section(name="T", type="t", parent=doc)
        odml.Property(name="tp", values=[1, 2], parent=top)
        odml.Property(name="tq", values=["x"], dependency="nope", parent=top)
        sub = odml.Section(name="ts", type="n.s.", parent=top)
        odml.Property(name="tr", values=["2020-01-02"], dtype="string", parent=sub)
        odml.Section(name="tu", type="u", parent=top, sec_cardinality=(1, None))
        odml.Section(name="T2", type="t", parent=doc)
        text = ODMLWriter("XML").to_string(doc)
        tmp = tempfile.mkdtemp(prefix="c08_term_")
        name = "c08term%d.xml" % os.getpid()
        with open(os.path.join(tmp, name), "w", encoding="utf-8") as fh:
            fh.write(text)
        atexit.register(_term_cleanup, tmp, name, os.getpid())
        _TERM["url"] = "file://" + os.path.join(tmp, name)
    except Exception:
        _TERM["url"] = None
    return _TERM["url"]


def _term_cleanup(tmp, name, pid):
    if os.getpid() != pid:
        return
    shutil.rmtree(tmp, ignore_errors=True)
    cache = os.path.join(tempfile.gettempdir(), "odml.cache")      # the library's download cache
    try:
        for entry in os.listdir(cache):
            if entry.endswith("." + name):
                os.remove(os.path.join(cache, entry))
    except OSError:
        pass


def sec_at(root, path):
    """The object a path of child indices addresses (indices are taken modulo the number of children,
    the walk stops where there are none): the root itself for an empty path."""
    cur = root
    for i in path:
        kids = cur.sections
        if not len(kids):
            break
        cur = kids[i % len(kids)]
    return cur


def is_section(obj):
    return obj.format().name == "section"


def related(a, b):
    """is one of the two an ancestor of (or the same object as) the other?"""
    for x, y in ((a, b), (b, a)):
        cur = x
        while cur is not None:
            if cur is y:
                return True
            cur = cur.parent
    return False


def tree_size(root):
    n = 0
    for sec in root.itersections(recursive=True):
        n += 1 + len(sec.properties)
    return n


class HistoryTooLong(BaseException):
    """The history (not the validation) ran out of its CPU budget or blew the tree up.
    (A BaseException, like the framework's CaseTimeout: no `except Exception` may swallow it.)"""


MAX_TREE = 400           # Sections + Properties; merged copies of merged copies grow geometrically
HISTORY_CPU_S = 4.0


def prop_at(sec, i):
    if not is_section(sec) or not len(sec.properties):
        return None
    return sec.properties[i % len(sec.properties)]


def card_value(v):
    """JSON spelling of a cardinality argument -> the Python value handed to the setter."""
    if isinstance(v, dict):
        if "tuple" in v:
            return tuple(v["tuple"])
        if "float" in v:
            return tuple(None if x is None else float(x) for x in v["float"])
    return v


class History(object):
    def __init__(self, check):
        self.check = check
        self.refused = 0
        self.applied = 0
        self.stale = []          # Validation objects made during the history, re-run at the end
        self.writers = {}        # one writer object per format, reused by every save of the case
        self.saves = []          # judged save attempts
        self.mid = []            # oracle failures of validations in the middle of the history
        self.docs = []           # further Documents of the case (seeded round 6: one writer, several documents)
        self.log = []            # every write_file call: (writer key, format, model node or None, outcome)
        self.fresh = 0

    def sessions(self):
        """the write_file calls grouped by writer object, in call order (what the model's
        `Writer.session` is asked about); a writer with a document outside the model is left out"""
        by, order = {}, []
        for key, fmt, node, outcome in self.log:
            if key not in by:
                by[key] = {"parser": fmt, "nodes": [], "outcomes": []}
                order.append(key)
            by[key]["nodes"].append(node)
            by[key]["outcomes"].append(outcome)
        return [by[k] for k in order if all(n is not None for n in by[k]["nodes"])]


def apply_op(op, root, bt, hist):
    """Applies one operation; returns the (possibly new) root."""
    import odml
    kind = op["op"]
    sec = sec_at(root, op.get("at", []))
    if kind in ("link", "include"):
        if kind == "link":
            tgt = sec_at(root, op.get("to", []))
            # a Section merged with its own ancestor / descendant copies itself, and finalize() then
            # walks a tree that grows while it is walked: histories of that kind are not generated
            if not is_section(tgt) or related(sec, tgt):
                return root
            if op.get("dangling"):
                value = tgt.get_path() + "/nowhere"
            elif op.get("rel") and is_section(sec):
                value = sec.get_relative_path(tgt)
            else:
                value = tgt.get_path()
        else:
            url = term_url() if op.get("target") != "missing" else None
            value = (url or "file:///nonexistent/c08_missing.xml") + op.get("frag", "")
        how = op.get("how", "setter")
        if how == "ctor":
            # what the readers do: the attribute is handed to the constructor and stays unresolved
            new = odml.Section(name=op.get("name", "lk"), type=op.get("type", "t"), parent=sec,
                               oid=tok_id(op["id"]), **{kind: value})
            apply_edits_spec(new, op)
        elif how == "detached":
            # set while the Section has no parent (stays unresolved), then attached
            new = odml.Section(name=op.get("name", "lk"), type=op.get("type", "t"), oid=tok_id(op["id"]))
            setattr(new, kind, value)
            apply_edits_spec(new, op)
            sec.append(new)
        elif is_section(sec):
            setattr(sec, kind, value)
    elif kind == "unlink":
        if is_section(sec):
            if op.get("how") == "clean":
                sec.clean()
            elif sec.include is not None:
                sec.include = None
            else:
                sec.link = None
    elif kind == "merge":
        src = sec_at(root, op.get("src", []))
        if is_section(sec) and is_section(src) and not related(sec, src):
            sec.merge(src, strict=bool(op.get("strict")))
    elif kind == "finalize":
        if not is_section(root):
            root.finalize()
    elif kind == "set":
        if not is_section(sec):
            return root
        attr, value = op["attr"], op.get("value")
        if attr == "name":
            set_name(sec, id_name(sec, value))
        elif attr == "sc":
            sec.sec_cardinality = card_value(value)
        elif attr == "pc":
            sec.prop_cardinality = card_value(value)
        elif attr == "type":
            sec.type = value
        else:
            apply_decor(sec, {attr: value})
    elif kind == "add_prop":
        if is_section(sec):
            prop = build_prop(op["prop"], sec, bt)
            set_name(prop, resolve_name(prop, op["prop"]))
    elif kind == "add_sec":
        later = []
        build_sec(op["sec"], sec, bt, later)
        for obj, spec in later:
            set_name(obj, resolve_name(obj, spec))
    elif kind == "clone":
        dest = sec_at(root, op.get("to", []))
        if not is_section(sec):
            return root
        new = sec.clone(children=op.get("children", True), keep_id=bool(op.get("keep_id")))
        if op.get("rename") is not None:
            set_name(new, op["rename"])
        how = op.get("how", "append")
        if how == "insert":
            dest.insert(op.get("pos", 0), new)
        elif how == "extend":
            dest.extend([new])
        else:
            dest.append(new)
    elif kind == "pclone":
        prop = prop_at(sec, op.get("i", 0))
        dest = sec_at(root, op.get("to", []))
        if prop is not None and is_section(dest):
            new = prop.clone(keep_id=bool(op.get("keep_id")))
            if op.get("rename") is not None:
                set_name(new, op["rename"])
            if op.get("how") == "insert":
                dest.insert(op.get("pos", 0), new)
            else:
                dest.append(new)
    elif kind == "remove":
        if is_section(sec) and sec.parent is not None and sec is not root:
            sec.parent.remove(sec)
    elif kind == "premove":
        prop = prop_at(sec, op.get("i", 0))
        if prop is not None:
            sec.remove(prop)
    elif kind == "reorder":
        if is_section(sec) and sec.parent is not None and sec is not root:
            sec.reorder(op.get("k", 0) % len(sec.parent.sections))
    elif kind == "pset":
        prop = prop_at(sec, op.get("i", 0))
        if prop is None:
            return root
        attr, value = op["attr"], op.get("value")
        if attr == "name":
            set_name(prop, id_name(prop, value))
        elif attr == "dep":
            prop.dependency = value
        elif attr == "dv":
            prop.dependency_value = value
        elif attr == "card":
            prop.val_cardinality = card_value(value)
        elif attr == "values":
            prop.values = [val_to_py(v) for v in value]
        elif attr == "dtype":
            prop.dtype = value
        elif attr == "extend":
            prop.extend([val_to_py(v) for v in value], strict=bool(op.get("strict", True)))
        elif attr == "append":
            for v in value:
                prop.append(val_to_py(v), strict=bool(op.get("strict", True)))
        else:
            apply_decor(prop, {attr: value})
    elif kind == "dset":
        # attributes of the Document: no rule reads them (the date goes through the date converter)
        if not is_section(root):
            value = op.get("value")
            if isinstance(value, dict):
                value = val_to_py(value)
            setattr(root, op["attr"], value)
    elif kind == "validate":
        from odml.validation import Validation
        how = op.get("how")
        if how == "method" and not is_section(root):
            val = root.validate()
        elif how == "deferred":
            val = Validation(root, validate=False)
        else:
            val = Validation(root)
        if op.get("judge") and how != "deferred":
            hist.mid.extend("in the middle of the history: " + f for f in judge_now(root, val.errors))
        hist.stale.append(val)
    elif kind == "save":
        doc = hist.docs[op["doc"] % len(hist.docs)] if "doc" in op and hist.docs else root
        if not is_section(doc):
            entry = op.get("entry", "writer")
            if entry in ("to_string", "badpath"):
                # calls that leave their traces in the writer object but are not judged: to_string runs
                # no validation; a path that cannot be opened fails for a reason of its own (whether the
                # validation comes before or after opening the file is not prescribed)
                writer = hist.check.writer_for(hist.writers, op.get("fmt", "XML"), op.get("slot"))
                if entry == "to_string":
                    writer.to_string(doc, **(op.get("kw") or {}))
                else:
                    writer.write_file(doc, os.path.join(scratch_dir(), "no_such_dir_%d" % os.getpid(), "x.out"))
            else:
                hist.saves.append(hist.check.judged_save(doc, op.get("fmt", "XML"), entry, hist,
                                                         slot=op.get("slot"), kw=op.get("kw")))
    elif kind == "newid":
        # the public way to take a shared id apart again
        target = prop_at(sec, op["i"]) if "i" in op else sec
        if target is not None:
            target.new_id()
    elif kind == "roundtrip":
        if is_section(root):
            return root
        from odml.tools.odmlparser import ODMLReader, ODMLWriter
        fmt = op.get("fmt", "XML")
        if op.get("entry") == "file":
            # the file entry points: odml.save (which validates and may refuse) and odml.load
            _SCRATCH["n"] = _SCRATCH.get("n", 0) + 1
            path = os.path.join(scratch_dir(), "rt_%d_%d.%s" % (os.getpid(), _SCRATCH["n"], fmt.lower()))
            try:
                odml.save(root, path, fmt)
                new_root = odml.load(path, fmt, show_warnings=False)
            finally:
                try:
                    os.remove(path)
                except OSError:
                    pass
        else:
            text = ODMLWriter(fmt).to_string(root)
            new_root = ODMLReader(fmt, show_warnings=False).from_string(text)
        if new_root is not None and not is_section(new_root):
            hist.stale = []
            return new_root
    else:
        raise ValueError("unknown operation %r" % kind)
    return root


def apply_edits_spec(sec, op):
    """Edits that belong to a freshly made linking / including Section (before it is resolved)."""
    if "set_type" in op:
        sec.type = op["set_type"]
    if op.get("sc") is not None:
        sec.sec_cardinality = card_value(op["sc"])
    if op.get("pc") is not None:
        sec.prop_cardinality = card_value(op["pc"])


def judge_now(root, errors):
    kind, snap, refs = snapshot(root)
    return judge(expectation(kind, snap), issue_list(errors, refs), None)


def run_history(case, root, bt, check):
    """Applies the operations.  Building the tree is not what the property is about: a history that
    exhausts its own CPU budget (SIGPROF, independent of the framework's per-case clocks) or lets the
    tree explode raises HistoryTooLong and the case is dropped without a verdict."""
    hist = History(check)

    def on_prof(_sig, _frm):
        raise HistoryTooLong()
    old = signal.signal(signal.SIGPROF, on_prof)
    signal.setitimer(signal.ITIMER_PROF, HISTORY_CPU_S, 0.5)      # fires again should it get lost
    try:
        for spec in case.get("others", []):
            hist.docs.append(build({"kind": "doc", "node": spec})[0])
        for op in case.get("ops", []):
            try:
                if "doc" in op and op["op"] != "save" and hist.docs:
                    apply_op(op, hist.docs[op["doc"] % len(hist.docs)], bt, hist)     # an edit of another Document
                else:
                    root = apply_op(op, root, bt, hist)
                hist.applied += 1
            except Exception:
                hist.refused += 1
            if tree_size(root) > MAX_TREE:
                raise HistoryTooLong()
    finally:
        for _ in range(3):              # a last tick may arrive while the timer is being taken down
            try:
                signal.setitimer(signal.ITIMER_PROF, 0)
                signal.signal(signal.SIGPROF, old)
                break
            except HistoryTooLong:
                continue
    return root, hist


def pick_view(case, root):
    """What is validated in the end: the root, a Section below it, or a Property inside the tree."""
    view = case.get("view")
    if not view:
        return root
    sec = sec_at(root, view.get("sec", []))
    if "prop" in view:
        prop = prop_at(sec, view["prop"])
        return prop if prop is not None else sec
    return sec


# ----------------------------------------------------------------------------- snapshot
def snap_prop(p, refs, ref):
    refs[id(p)] = ref
    return {"id": p.id, "name": p.name, "dtype": p.dtype, "values": list(p.values),
            "dep": p.dependency, "dv": p.dependency_value, "card": p.val_cardinality}


def path_str(path):
    return "".join("/%d" % i for i in path)


def snap_sec(s, refs, path):
    refs[id(s)] = "S" + path_str(path)
    return {"id": s.id, "name": s.name, "type": s.type, "sc": s.sec_cardinality,
            "pc": s.prop_cardinality,
            "props": [snap_prop(p, refs, "P%s#%d" % (path_str(path), i))
                      for i, p in enumerate(s.properties)],
            "subs": [snap_sec(c, refs, path + [i]) for i, c in enumerate(s.sections)]}


def snapshot(root):
    """Public-API read-back of the tree under root -> (kind, python snapshot, id(obj) -> ref)."""
    refs = {}
    fname = root.format().name
    if fname == "property" and root.parent is not None:
        # a Property inside a Section, validated directly ("pin"): its siblings are what the
        # dependency rule looks at
        return "pin", {"prop": snap_prop(root, refs, "P#0"),
                       "siblings": [snap_prop(q, {}, "") for q in root.parent.properties]}, refs
    if fname == "property":
        return "prop", snap_prop(root, refs, "P#0"), refs
    if fname == "section":
        return "sec", snap_sec(root, refs, []), refs
    refs[id(root)] = "D"
    return "doc", {"id": root.id, "secs": [snap_sec(c, refs, [i]) for i, c in enumerate(root.sections)]}, refs


def model_prop(p):
    return {"id": opt_str(p["id"], "id"), "name": opt_str(p["name"], "name") or "",
            "dtype": opt_str(p["dtype"], "dtype"),
            "values": [val_to_model(v) for v in p["values"]],
            "dep": opt_str(p["dep"], "dependency"), "dv": opt_str(p["dv"], "dependency_value"),
            "card": card_to_model(p["card"])}


def model_sec(s):
    if s["name"] is None or not isinstance(s["name"], str):
        raise Unsupported("section name %r" % (s["name"],))
    return {"id": opt_str(s["id"], "id"), "name": opt_str(s["name"], "name"),
            "type": opt_str(s["type"], "type"),
            "sc": card_to_model(s["sc"]), "pc": card_to_model(s["pc"]),
            "props": [model_prop(p) for p in s["props"]], "subs": [model_sec(c) for c in s["subs"]]}


def model_node(kind, snap):
    if kind == "pin":
        raise Unsupported("a Property inside a Section validated directly is not a Node of the model")
    if kind == "prop":
        if snap["name"] is None:
            raise Unsupported("property name None")
        return model_prop(snap)
    if kind == "sec":
        return model_sec(snap)
    return {"id": opt_str(snap["id"], "id"), "secs": [model_sec(c) for c in snap["secs"]]}


def jsonable(snap):
    """snapshot with values replaced by their driver encoding (or a repr when unsupported)."""
    def val(v):
        try:
            return val_to_model(v)
        except Unsupported:
            return {"unsupported": repr(v)}

    def prop(p):
        q = dict(p)
        q["values"] = [val(v) for v in p["values"]]
        q["card"] = list(p["card"]) if isinstance(p["card"], tuple) else p["card"]
        return q

    def sec(s):
        q = dict(s)
        q["sc"] = list(s["sc"]) if isinstance(s["sc"], tuple) else s["sc"]
        q["pc"] = list(s["pc"]) if isinstance(s["pc"], tuple) else s["pc"]
        q["props"] = [prop(p) for p in s["props"]]
        q["subs"] = [sec(c) for c in s["subs"]]
        return q
    if "secs" in snap:
        return {"id": snap["id"], "secs": [sec(c) for c in snap["secs"]]}
    if "siblings" in snap:
        return {"prop": prop(snap["prop"]), "siblings": [prop(q) for q in snap["siblings"]]}
    if "subs" in snap:
        return sec(snap)
    return prop(snap)


def issue_list(errors, refs):
    out = []
    for e in errors:
        vid = getattr(e.validation_id, "value", None)
        out.append([refs.get(id(e.obj), "?"), vid, e.rank])
    return sorted(out, key=lambda x: (x[0], x[1] if x[1] is not None else -1, str(x[2])))


def rank_flags(errors, refs):
    """"Errors and warnings are never confused": the two public flags of an issue (is_error is what
    the writers and the constructors look at) say what the documented rank of its kind says."""
    out = []
    for e in errors:
        want = RANK_OF.get(getattr(e.validation_id, "value", None))
        if want is None:
            continue
        for flag, rank in (("is_error", ERR), ("is_warning", WARN)):
            try:
                got = getattr(e, flag)
            except AttributeError:
                continue
            if callable(got):
                continue
            if bool(got) != (want == rank):
                out.append("issue %s on %s: %s is %r, the documented rank of this kind is %s"
                           % (e.validation_id.value, refs.get(id(e.obj), "?"), flag, got, want))
    return out


# ----------------------------------------------------------------------------- oracle helpers
def outside(card, n):
    if not card:
        return False
    lo, hi = card
    return bool((lo and n < lo) or (hi and n > hi))


def value_fits(v, dtype):
    """Does the stored value fit the dtype, by the library's own converters (odml.dtypes)."""
    from odml import dtypes
    if dtype.endswith("-tuple"):
        try:
            n = int(dtype[:-6])
        except ValueError:
            return None
        return hasattr(v, "__len__") and len(v) == n
    try:
        dtypes.get(v, dtype)
        return True
    except Exception:
        return False


# The same question answered without the library (added after seeded round 3: a change inside a
# converter of odml/dtypes.py changes value_fits with it, and the oracle then follows the defect).
# Only the clear-cut part of the documented value formats is decided here - the Python types the
# dtype is named after, text in exactly the documented layout, text that is not even close to it;
# everything else (lenient spellings strptime / int() / float() happen to accept, non-ASCII text,
# foreign Python types) -> None, and the library's own converter is the reference as before.
_RE_INT = re.compile(r"[+-]?[0-9]+\Z")
_RE_DEC = re.compile(r"[+-]?[0-9]+(\.[0-9]+)?\Z")
_RE_DATE = re.compile(r"([0-9]{4})-([0-9]{2})-([0-9]{2})\Z")
_RE_TIME = re.compile(r"([0-9]{2}):([0-9]{2}):([0-9]{2})\Z")
_RE_DATETIME = re.compile(r"([0-9]{4})-([0-9]{2})-([0-9]{2}) ([0-9]{2}):([0-9]{2}):([0-9]{2})\Z")
# text made of nothing but the characters of the three formats may be a lenient spelling strptime
# accepts ("2020-1-2", "2020-01- 5"): no opinion unless it is exactly the documented layout
_RE_TEMPORAL_CHARS = re.compile(r"[0-9:\-\s]*[0-9][0-9:\-\s]*\Z")
STRING_LIKE = ("string", "text", "url", "person")
DOC_DTYPES = STRING_LIKE + ("int", "float", "boolean", "date", "time", "datetime")


def documented_dtype(dtype):
    """the documented dtype names and the two documented shorthands, lower case; else None"""
    if not isinstance(dtype, str):
        return None
    name = {"str": "string", "bool": "boolean"}.get(dtype, dtype)
    return name if name in DOC_DTYPES else None


def _calendar(m, kind):
    nums = [int(g) for g in m.groups()]
    try:
        if kind == "date":
            dt.date(*nums)
        elif kind == "time":
            if nums[2] >= 60:
                return None             # strptime knows leap seconds, datetime.time does not
            dt.time(*nums)
        else:
            if nums[5] >= 60:
                return None
            dt.datetime(*nums)
        return True
    except ValueError:
        return False


def _not_a_number(text):
    """ASCII text that neither int() nor float() of the standard library reads"""
    if not text.isascii():
        return False
    for conv in (int, float):
        try:
            conv(text)
            return False
        except ValueError:
            pass
        except Exception:
            return False
    return True


def fits_documented(v, dtype):
    """True / False where the documented formats leave no doubt, None otherwise."""
    name = documented_dtype(dtype)
    if name is None or v is None or type(v) not in (bool, int, float, str, dt.date, dt.time, dt.datetime, list):
        return None
    if name in STRING_LIKE:
        return True
    is_text = type(v) is str
    if is_text and v == "":
        return True                      # the documented "empty value -> default value"
    if name == "int":
        if type(v) in (bool, int):
            return True
        if type(v) is float:
            if v != v or v in (float("inf"), float("-inf")):
                return False
            return True if v == int(v) else None
        if is_text:
            if _RE_INT.match(v):
                return True
            return False if _not_a_number(v) else None
        return False
    if name == "float":
        if type(v) in (bool, float):
            return True
        if type(v) is int:
            return True if abs(v) < 2 ** 53 else None
        if is_text:
            if _RE_DEC.match(v):
                return True
            return False if _not_a_number(v) else None
        return False
    if name == "boolean":
        if type(v) is bool:
            return True
        if type(v) is int:
            return v in (0, 1)
        if type(v) is float:
            return None if v in (0.0, 1.0) else False
        if is_text:
            if not v.isascii():
                return None
            return v.lower() in ("true", "1", "t", "false", "0", "f")
        if type(v) is list:
            return None if not v else False
        return False
    # the three temporal dtypes: an object of exactly that kind fits whatever it holds (year 1 or
    # 9999, sub-seconds, a time zone); an object of another kind or a number does not
    own = {"date": dt.date, "time": dt.time, "datetime": dt.datetime}[name]
    if type(v) is own:
        return True
    if not is_text:
        return False
    if not v.isascii():
        return None
    m = {"date": _RE_DATE, "time": _RE_TIME, "datetime": _RE_DATETIME}[name].match(v)
    if m:
        return _calendar(m, name)
    return None if _RE_TEMPORAL_CHARS.match(v) else False


def infer_documented(v):
    """dtype inferred from a first value of one of the documented Python types, else None"""
    if type(v) is str:
        return "text" if "\n" in v else "string"
    return {bool: "boolean", int: "int", float: "float", dt.date: "date", dt.time: "time",
            dt.datetime: "datetime"}.get(type(v))


class Expect(object):
    """must: issues that have to be reported; may: issues on which the property is silent."""

    def __init__(self):
        self.must = {}      # (ref, code) -> minimal count
        self.may = set()    # (ref, code) allowed but not required
        self.groups = []    # (code, [refs], reportable refs, needed) : duplicates, any k-1 of them
        self.no_opinion_refs = set()
        self.may_raise = False

    def need(self, ref, code, n=1):
        if n:
            self.must[(ref, code)] = self.must.get((ref, code), 0) + n


def expect_prop(p, ref, siblings, ex, validated=True):
    if not validated:
        ex.no_opinion_refs.add(ref)
        return
    if not p["name"]:
        ex.need(ref, 101)
    if p["name"] == p["id"]:
        ex.need(ref, 300)
    # dependency
    dep = p["dep"]
    if dep is not None and siblings is not None:
        target = None
        for q in siblings:
            if q["name"] == dep:
                target = q
                break
        if target is None and dep == "":
            # an empty dependency string names no Property: "no dependency" and "unsatisfied
            # dependency" are both defensible readings, the property text does not decide
            ex.may.add((ref, 401))
        elif target is None:
            ex.need(ref, 401)
        else:
            dv = p["dv"]
            if dv is None or any(type(v) is type(dv) and v == dv for v in target["values"]):
                pass
            elif dv == "":
                ex.may.add((ref, 401))      # an empty required value: same ambiguity
            elif isinstance(dv, str) and not any(v == dv or str(v) == dv for v in target["values"]):
                ex.need(ref, 401)
            else:
                ex.may.add((ref, 401))
    # values vs dtype
    dtype = p["dtype"]
    vals = p["values"]
    if dtype is None or dtype == "":
        dtype = None
        if vals:
            dtype = infer_documented(vals[0])
            if dtype is None:
                from odml import dtypes
                dtype = dtypes.infer_dtype(vals[0])
    if dtype is not None and isinstance(dtype, str):
        bad = 0
        for v in vals:
            if v is None:
                break
            fits = value_fits(v, dtype)
            if fits is not None:
                indep = fits_documented(v, dtype)
                if indep is not None:
                    fits = indep            # the documented format decides, not the converter
            if fits is None:
                ex.may_raise = True
                ex.may.add((ref, 402))
                bad = 0
                break
            if not fits:
                bad += 1
        ex.need(ref, 402, bad)
    ex.may.add((ref, 403))          # the prototype rule is not part of the property text
    if outside(p["card"], len(vals)):
        ex.need(ref, 502)


def dup_groups(items, key):
    """items: [(ref, snapshot)] in document order -> groups of refs sharing a key (size >= 2)."""
    seen = {}
    for ref, it in items:
        seen.setdefault(key(it), []).append(ref)
    return [g for g in seen.values() if len(g) >= 2]


def expect_sec(s, path, ex, is_root):
    ref = "S" + path_str(path)
    if not s["name"]:
        ex.need(ref, 101)
    if not s["type"] and not isinstance(s["type"], bool):
        ex.need(ref, 101)
    if s["type"] == "n.s.":
        ex.need(ref, 102)
    if s["name"] == s["id"]:
        ex.need(ref, 300)
    if outside(s["pc"], len(s["props"])):
        ex.need(ref, 500)
    if outside(s["sc"], len(s["subs"])):
        ex.need(ref, 501)
    prefs = [("P%s#%d" % (path_str(path), i), p) for i, p in enumerate(s["props"])]
    for g in dup_groups(prefs, lambda p: p["name"]):
        ex.groups.append((203, g, g, len(g) - 1))
    srefs = [("S" + path_str(path + [i]), c) for i, c in enumerate(s["subs"])]
    for g in dup_groups(srefs, lambda c: (c["name"], c["type"])):
        ex.groups.append((202, g, g, len(g) - 1))
    for pref, p in prefs:
        # a stand-alone root Section: the property text does not say whether its own
        # Properties are validated; the implementation does not.  No opinion.
        expect_prop(p, pref, s["props"], ex, validated=not is_root)
    for i, c in enumerate(s["subs"]):
        expect_sec(c, path + [i], ex, False)


def all_ids(s, path, out):
    for i, p in enumerate(s["props"]):
        out.append(("P%s#%d" % (path_str(path), i), p["id"]))
    out.append(("S" + path_str(path), s["id"]))
    for i, c in enumerate(s["subs"]):
        all_ids(c, path + [i], out)


def expectation(kind, snap):
    ex = Expect()
    if kind == "pin":
        expect_prop(snap["prop"], "P#0", snap["siblings"], ex)
    elif kind == "prop":
        expect_prop(snap, "P#0", None, ex)
    elif kind == "sec":
        expect_sec(snap, [], ex, True)
    else:
        srefs = [("S/%d" % i, c) for i, c in enumerate(snap["secs"])]
        for g in dup_groups(srefs, lambda c: (c["name"], c["type"])):
            ex.groups.append((202, g, g, len(g) - 1))
        ids = [("D", snap["id"])]
        for i, c in enumerate(snap["secs"]):
            expect_sec(c, [i], ex, False)
            all_ids(c, [i], ids)
        by = {}
        for ref, oid in ids:
            by.setdefault(oid, []).append(ref)
        for g in by.values():
            if len(g) >= 2:
                rep = [r for r in g if r != "D"]
                ex.groups.append(("ids", g, rep, len(g) - 1))
    return ex


def judge(ex, issues, crashed):
    """-> list of failure strings"""
    out = []
    if crashed is not None:
        if not ex.may_raise:
            out.append("validation raised %s" % crashed)
        return out
    counts = {}
    for ref, code, rank in issues:
        counts[(ref, code)] = counts.get((ref, code), 0) + 1
        want = RANK_OF.get(code)
        if want is not None and rank != want:
            out.append("issue %s on %s has rank %s, documented rank is %s" % (code, ref, rank, want))
    grouped = {}
    for code, members, reportable, needed in ex.groups:
        if code == "ids":
            got = sum(counts.get((r, 200), 0) + counts.get((r, 201), 0) for r in reportable)
            if got < needed:
                out.append("objects %s share an id: %d duplicate-id errors reported, at least %d expected"
                           % (members, got, needed))
            for r in reportable:
                grouped[(r, 200 if r.startswith("S") else 201)] = True
            continue
        got = sum(1 for r in reportable if counts.get((r, code), 0) > 0)
        if code in (202, 203) and got < needed:
            out.append("siblings %s share the key: %d reported with %s, at least %d expected"
                       % (members, got, code, needed))
        for r in reportable:
            grouped[(r, code)] = True
    for (ref, code), n in ex.must.items():
        if counts.get((ref, code), 0) < n:
            out.append("rule %s is violated at %s (x%d) but %d issue(s) reported"
                       % (code, ref, n, counts.get((ref, code), 0)))
    for (ref, code), n in counts.items():
        if ref in ex.no_opinion_refs and code not in (203,):
            continue
        if (ref, code) in ex.must:
            if n > ex.must[(ref, code)]:
                out.append("issue %s reported %d times for %s, the rule is violated %d time(s) there"
                           % (code, n, ref, ex.must[(ref, code)]))
            continue
        if (ref, code) in ex.may or (ref, code) in grouped:
            continue
        out.append("issue %s reported for %s although the rule is not violated there" % (code, ref))
    return out


# ----------------------------------------------------------------------------- generation
NAMES = ["a", "b", "ab", "c", "a", "b", "", "=id"]
TYPES = ["t", "t", "u", "n.s.", None, ""]
STRS = ["1", "-3", " 7 ", "+5", "--5", "1.5", "-1.5", "1e3", "1.", ".5", "inf", "-inf", "nan", "abc", "",
        "true", "T", "FALSE", "False", "f", "ff", "fa", "0", "t", "tx", "TRUEx",
        "2020-01-02", "2020-1-2", "2020-02-30", "2020-02-29", "2019-02-29", "2020-13-01", "0000-01-01",
        "20-1-2", "99999-1-1", "2020-01- 5", "2020-00-10", "2020-01-32", "2020-01-0",
        "12:30:00", "1:2:3", "24:00:00", "12:30:61", "12:30", "12:60:00", "12:30:5", "123:00:00",
        "2020-01-02 12:30:00", "2020-01-02  12:30:00", "2020-01-02T12:30:00", "2020-01-02 12:30",
        "2020-1-2 1:2:3", "2020-01-02\t12:30:00", "2020-01-0212:30:00",
        "(1;2)", "(1;2;3)", "(a", "x(1)", " (1;2) ", "(1)", "()", "(1\n)", "(;)",
        "a\nb", "a\rb", " x ", "1;2", "e5", "1e", "1e+2", "+-1", "1 2", "0x1", "12abc", "(a)b"]
ALPHA = list("0129-:. ()tfTRUEFALSalse;e+\n") + ["\t", "\r"]
DTYPES = [None, "string", "string", "int", "float", "boolean", "date", "time", "datetime", "text", "url",
          "person", "2-tuple", "3-tuple", "1-tuple", "str", "bool", "tuple", ""]
CARDS = [None, None, None, [1, None], [2, None], [None, 1], [None, 2], [1, 2], [2, 2], [0, 1], [3, 5]]


def gen_val(rng, strs):
    r = rng.random()
    if r < 0.45:
        return {"s": rng.choice(strs)}
    if r < 0.60:
        return {"i": rng.choice([0, 1, 2, -1, 7, 100])}
    if r < 0.68:
        return {"fl": rng.choice(["0.0", "1.0", "2.5", "-0.5", "inf", "nan"])}
    if r < 0.76:
        return {"b": rng.random() < 0.5}
    if r < 0.86:
        return {"d": rng.choice(["date", "time", "datetime"])}
    if r < 0.94:
        return {"l": rng.choice([0, 1, 2, 2, 3])}
    return None


def rand_str(rng):
    return "".join(rng.choice(ALPHA) for _ in range(rng.randrange(0, 9)))


def gen_values(rng, strs):
    mode = rng.random()
    n = rng.choice([0, 1, 1, 2, 2, 3, 4])
    if mode < 0.5:                                  # homogeneous-ish
        proto = gen_val(rng, strs)
        out = []
        for _ in range(n):
            if proto is not None and "s" in proto:
                out.append({"s": rng.choice(strs)})
            elif rng.random() < 0.15:
                out.append(gen_val(rng, strs))
            else:
                out.append(proto)
        return out
    return [gen_val(rng, strs) for _ in range(n)]


FIT = {"string": [{"s": "abc"}, {"s": "x y"}, {"s": "hello"}], "text": [{"s": "a\nb"}, {"s": "abc"}],
       "int": [{"i": 1}, {"i": 2}, {"i": -1}], "float": [{"fl": "2.5"}, {"fl": "0.0"}],
       "boolean": [{"b": True}, {"b": False}], "date": [{"d": "date"}], "time": [{"d": "time"}],
       "datetime": [{"d": "datetime"}], "url": [{"s": "http://x"}], "person": [{"s": "me"}],
       "2-tuple": [{"l": 2}], "3-tuple": [{"l": 3}]}
CLASSES = [["1", "-3", "--5", " 7 "], ["1.5", "-1.5", "0.25"], ["2020-01-02", "20-1-2", "2020-13-45"],
           ["12:30:00", "12:30", "99:99"], ["2020-01-02 12:30:00", "20-1-2 12:30"],
           ["(1;2)", "(3;4)", " (5;6) "], ["(1;2;3)", "(a;b;c)"], ["(1)", "()", "(a)b"],
           ["true", "t", "TRUEx", "False", "ff", "f"], ["a\nb", "c\rd"], ["abc", "x y", "hello"]]


# Pools of the generator.  BASE is what the first streams have always drawn from (kept as it is, so
# their cases do not change); WIDE adds the neighbours: whitespace-only and non-ASCII names and
# types (NFC/NFD spellings of one letter, a lone surrogate), other spellings of "n.s.", two-digit
# and huge cardinality bounds, the empty dependency / dependency value, and attributes the rules
# never read (definition, reference, repository, unit, ...) which must not change any verdict.
BASE = {"names": NAMES, "types": TYPES, "cards": CARDS, "dtypes": DTYPES, "deps": ["zz", "a", "b"],
        "dvs": ["a", "1", "abc", "true", "2.5", "x", "hello", "2"], "decor": 0.0}
WIDE = {"names": NAMES + [" ", "\u00e4", "\u00e9", "e\u0301", "\u540d", "a b", "A", "\ud800", "a.b"],
        "types": TYPES + [" ", "N.S.", "n.s. ", "\u00fc", "t/sub", "n.s"],
        "cards": CARDS + [[10, None], [None, 10], [9, 11], [10, 10], [0, 0], [None, 10 ** 20], [12, 100]],
        "dtypes": DTYPES, "deps": ["zz", "a", "b", "", " ", "\u00e4"],
        "dvs": ["a", "1", "abc", "true", "2.5", "x", "hello", "2", "", " ", "\u00e4"], "decor": 0.3}
SEC_DECOR = {"definition": ["d", "", "a\nb", "\u00e4"], "reference": ["r", "", "doi:1"],
             "repository": ["TERM", "file:///nonexistent/c08_repo.xml"]}
PROP_DECOR = {"unit": ["mV", "", "\u00b5V"], "uncertainty": [0.5, 0, "0.1"], "definition": ["d", ""],
              "reference": ["r", ""], "value_origin": ["f.txt", ""]}


def gen_decor(rng, table):
    out = {}
    for key in sorted(table):
        if rng.random() < 0.4:
            out[key] = rng.choice(table[key])
    return out


def fresh_name(rng, used, dirt, pools=BASE):
    if rng.random() < dirt:
        return rng.choice(pools["names"])
    for n in ["a", "b", "ab", "c", "d", "e", "f", "g"]:
        if n not in used:
            return n
    return "n%d" % len(used)


def gen_prop(rng, ids, dep_names, strs, dirt=0.6, used=(), pools=BASE):
    if rng.random() < dirt:
        dtype = rng.choice(pools["dtypes"])
        if rng.random() < 0.02:
            dtype = rng.choice(["x-tuple", "-tuple", "+2-tuple", " 2-tuple"])
        values = gen_values(rng, strs)
        raw = rng.random() < 0.5
    else:
        dtype = rng.choice(sorted(FIT))
        values = [rng.choice(FIT[dtype]) for _ in range(rng.choice([0, 1, 2, 3]))]
        raw = False
        if dtype == "string" and rng.random() < 0.5:
            cls = rng.choice(CLASSES)
            values = [{"s": rng.choice(cls)} for _ in range(rng.choice([1, 2, 3]))]
            if rng.random() < 0.2:
                values.append({"s": rng.choice(rng.choice(CLASSES))})
    p = {"id": ids(), "name": fresh_name(rng, used, dirt, pools), "dtype": dtype, "values": values,
         "raw": raw, "card": rng.choice(pools["cards"]) if rng.random() < max(dirt, 0.2) else None}
    if rng.random() < 0.5:
        p["dep"] = rng.choice(dep_names + ["zz"]) if rng.random() < 0.8 and dep_names else rng.choice(pools["deps"])
        if rng.random() < 0.7:
            p["dv"] = rng.choice(pools["dvs"] + strs[:6])
    if pools["decor"] and rng.random() < pools["decor"]:
        p["x"] = gen_decor(rng, PROP_DECOR)
    return p


def gen_sec(rng, ids, depth, strs, dirt=0.6, used=(), pools=BASE):
    nsub = rng.choice([0, 0, 1, 1, 2, 3]) if depth > 0 else 0
    nprop = rng.choice([0, 1, 1, 2, 3])
    subs = []
    for _ in range(nsub):
        subs.append(gen_sec(rng, ids, depth - 1, strs, dirt, [s["name"] for s in subs], pools))
    dep_names = [s["name"] for s in subs if s["name"] not in ("", "=id")]
    props = []
    for _ in range(nprop):
        props.append(gen_prop(rng, ids, dep_names + [q["name"] for q in props if q["name"] not in ("", "=id")],
                              strs, dirt, [q["name"] for q in props], pools))
    # dependencies may also name a later sibling; make the dependency value match now and then
    for q in props:
        if "dep" in q and rng.random() < 0.3 and props:
            q["dep"] = rng.choice(props)["name"] or "a"
        if "dep" in q and "dv" in q and rng.random() < 0.4:
            tgt = [t for t in props if t["name"] == q["dep"]]
            svals = [v["s"] for t in tgt[:1] for v in t["values"] if v is not None and "s" in v]
            if svals:
                q["dv"] = rng.choice(svals)
    clean_type = rng.choice(["t", "u", "t/sub"])
    sec = {"id": ids(), "name": fresh_name(rng, used, dirt, pools),
           "type": rng.choice(pools["types"]) if rng.random() < dirt else clean_type,
           "sc": rng.choice(pools["cards"]) if rng.random() < max(dirt, 0.15) else None,
           "pc": rng.choice(pools["cards"]) if rng.random() < max(dirt, 0.15) else None,
           "props": props, "subs": subs}
    if pools["decor"] and rng.random() < pools["decor"]:
        sec["x"] = gen_decor(rng, SEC_DECOR)
    return sec


def id_source(rng, dup_rate):
    pool = []

    def nxt():
        if pool and rng.random() < dup_rate:
            return rng.choice(pool)
        tok = "i%d" % len(pool)
        pool.append(tok)
        return tok
    return nxt


# ----------------------------------------------------------------------------- operation histories
EDIT_TYPES = [None, "", "n.s.", "n.s.", " ", "N.S.", "t", "u"]
EDIT_CARDS = [[1, None], [2, None], [3, None], [None, 1], [None, 2], [1, 2], [2, 2], [0, 1], [3, 5], [10, None],
              [None, 10], [9, 11], None, {"tuple": [1, None]}, {"tuple": [None, 1]}, {"tuple": [4, None]},
              {"float": [2, None]}, {"tuple": [True, None]}, {"tuple": [-1, None]}, {"tuple": [3, 1]},
              {"tuple": [None, 0]}, {"tuple": [0, 0]}, "1,2", 3, [2], {"tuple": [None, None]}]
SAVE_FORMATS = ["XML", "XML", "JSON", "YAML", "RDF"]


def rand_path(rng, lo=1, hi=3):
    return [rng.randrange(4) for _ in range(rng.randrange(lo, hi + 1))]


def gen_feature_op(rng, ids, at=None):
    """one use of another library feature: link / include (resolved, unresolved, dangling), merge, clone"""
    at = rand_path(rng) if at is None else at
    r = rng.random()
    fresh = {"id": ids(), "name": rng.choice(["lk", "lk", "a", "b", "lk2"]), "type": rng.choice(["t", "t", "u"])}
    if rng.random() < 0.4:
        # the freshly made linking Section is itself made invalid before anything is resolved
        fresh.update(rng.choice([{"set_type": None}, {"set_type": ""}, {"set_type": "n.s."},
                                 {"sc": [2, None]}, {"pc": [1, None]}, {"sc": [None, 1], "set_type": None}]))
    if r < 0.32:
        return {"op": "link", "at": at, "to": rand_path(rng), "rel": rng.random() < 0.25}
    if r < 0.40:
        return {"op": "link", "at": at, "to": rand_path(rng), "dangling": True}
    if r < 0.50:
        op = {"op": "link", "at": at[:-1] if rng.random() < 0.5 else at, "to": rand_path(rng),
              "how": rng.choice(["ctor", "ctor", "detached"]), "dangling": rng.random() < 0.2}
        op.update(fresh)
        return op
    if r < 0.64:
        return {"op": "include", "at": at, "target": rng.choice(["term", "term", "term", "missing"]),
                "frag": rng.choice(["", "", "#/T/ts", "#/T2", "#/T/nowhere"])}
    if r < 0.72:
        op = {"op": "include", "at": at[:-1] if rng.random() < 0.5 else at,
              "target": rng.choice(["term", "term", "missing"]), "frag": rng.choice(["", "#/T/ts"]),
              "how": rng.choice(["ctor", "detached"])}
        op.update(fresh)
        return op
    if r < 0.82:
        return {"op": "merge", "at": at, "src": rand_path(rng), "strict": rng.random() < 0.3}
    if r < 0.95:
        op = {"op": "clone", "at": at, "to": rand_path(rng, 0, 2), "keep_id": rng.random() < 0.6,
              "children": rng.random() < 0.85, "how": rng.choice(["append", "append", "insert", "extend"]),
              "pos": rng.choice([0, 1, -1, 5])}
        if rng.random() < 0.5:
            op["rename"] = rng.choice(["cl", "cl", "a", "b", ""])
        return op
    op = {"op": "pclone", "at": at, "i": rng.randrange(3), "to": rand_path(rng), "keep_id": rng.random() < 0.6,
          "how": rng.choice(["append", "insert"]), "pos": rng.choice([0, 1, -1])}
    if rng.random() < 0.5:
        op["rename"] = rng.choice(["cl", "a", "b"])
    return op


def gen_edit_op(rng, ids, at, strs, pools):
    """one edit of the object at `at` (or of a Property in it) that the rules are sensitive to"""
    r = rng.random()
    if r < 0.18:
        return {"op": "set", "at": at, "attr": "type", "value": rng.choice(EDIT_TYPES)}
    if r < 0.36:
        return {"op": "set", "at": at, "attr": rng.choice(["sc", "pc"]), "value": rng.choice(EDIT_CARDS)}
    if r < 0.42:
        return {"op": "set", "at": at, "attr": "name", "value": rng.choice(["=id", "", "a", "b", "zz", " "])}
    if r < 0.60:
        prop = gen_prop(rng, ids, ["a", "b"], strs, rng.choice([0.0, 0.0, 0.3, 0.6]),
                        rng.choice([(), (), ("a",)]), pools)
        if rng.random() < 0.5:
            prop["dep"] = rng.choice(["zz", "shift", "a", "b", "tp", "lk"])
            if rng.random() < 0.4:
                prop["dv"] = rng.choice(["x", "1", "2", "abc"])
        return {"op": "add_prop", "at": at, "prop": prop}
    if r < 0.68:
        return {"op": "add_sec", "at": at,
                "sec": gen_sec(rng, ids, rng.choice([0, 0, 1]), strs, rng.choice([0.0, 0.3, 0.6]),
                               rng.choice([(), ("a",)]), pools)}
    if r < 0.82:
        attr = rng.choice(["dep", "dep", "dv", "card", "values", "dtype", "name", "unit"])
        value = {"dep": rng.choice(["zz", "a", "b", "", None, "tp"]),
                 "dv": rng.choice(["x", "1", "", None, "abc"]),
                 "card": rng.choice(EDIT_CARDS),
                 "values": [gen_val(rng, strs) for _ in range(rng.choice([0, 1, 2, 3]))],
                 "dtype": rng.choice(["int", "string", "float", "date", "2-tuple", "boolean", None, "x"]),
                 "name": rng.choice(["=id", "", "a", "b"]),
                 "unit": "mV"}[attr]
        return {"op": "pset", "at": at, "i": rng.randrange(3), "attr": attr, "value": value}
    if r < 0.86:
        return {"op": "remove", "at": at}
    if r < 0.90:
        return {"op": "premove", "at": at, "i": rng.randrange(3)}
    if r < 0.94:
        return {"op": "reorder", "at": at, "k": rng.randrange(4)}
    if r < 0.97:
        return {"op": "unlink", "at": at, "how": rng.choice(["setter", "setter", "clean"])}
    return {"op": "set", "at": at, "attr": rng.choice(["definition", "reference", "repository"]),
            "value": rng.choice(["d", "", "TERM"])}


def gen_history_case(rng, strs):
    dirt = rng.choice([0.0, 0.0, 0.0, 0.05, 0.15, 0.4])
    ids = id_source(rng, rng.choice([0.0, 0.0, 0.1]) if dirt else 0.0)
    pools = WIDE if rng.random() < 0.5 else BASE
    secs = []
    for _ in range(rng.choice([1, 2, 2, 3, 4])):
        secs.append(gen_sec(rng, ids, rng.choice([0, 1, 1, 2, 3]), strs, dirt, [x["name"] for x in secs], pools))
    doc = {"id": ids(), "secs": secs}
    feats, touched = [], []
    for _ in range(rng.choice([0, 1, 1, 1, 2, 3])):
        op = gen_feature_op(rng, ids)
        feats.append(op)
        touched.append(op["at"])
        if "to" in op and op["op"] != "link":
            touched.append(op["to"])
    edits = []
    for _ in range(rng.choice([0, 1, 1, 2, 3, 4])):
        if touched and rng.random() < 0.75:
            at = list(rng.choice(touched))
            r = rng.random()
            if r < 0.2:
                at = at + [rng.randrange(3)]        # something inside the touched Section (merged copies)
            elif r < 0.3 and at:
                at = at[:-1]                        # its parent
        else:
            at = rand_path(rng)
        edits.append(gen_edit_op(rng, ids, at, strs, pools))
    r = rng.random()
    if r < 0.65:
        ops = feats + edits                         # feature first, then the edits
    elif r < 0.8:
        ops = edits + feats                         # edits first
    else:
        ops = feats + edits
        rng.shuffle(ops)
    # validations, saves, round trips and finalize() somewhere in the history
    if rng.random() < 0.45:
        ops.insert(rng.randrange(len(ops) + 1),
                   {"op": "validate", "how": rng.choice(["new", "method", "deferred"]), "judge": rng.random() < 0.5})
    if rng.random() < 0.2:
        ops.insert(rng.randrange(len(ops) + 1),
                   {"op": "save", "fmt": rng.choice(SAVE_FORMATS), "entry": rng.choice(["writer", "odml.save"])})
    if rng.random() < 0.12:
        ops.insert(rng.randrange(len(ops) + 1), {"op": "roundtrip", "fmt": rng.choice(["XML", "JSON", "YAML"])})
        if rng.random() < 0.7:
            ops.append({"op": "finalize"})
    elif rng.random() < 0.15:
        ops.insert(rng.randrange(len(ops) + 1), {"op": "finalize"})
    case = {"stream": "ops", "kind": "doc", "node": doc, "ops": ops}
    r = rng.random()
    if r < 0.12:
        case["view"] = {"sec": rand_path(rng)}
    elif r < 0.24:
        case["view"] = {"sec": rand_path(rng), "prop": rng.randrange(3)}
    if rng.random() < 0.3:
        case["pre"] = True
    if "view" not in case and rng.random() < 0.3:
        case["save"] = {"fmt": rng.choice(SAVE_FORMATS), "entry": rng.choice(["writer", "odml.save"])}
    return case


def gen_shape_case(rng, strs):
    """wide (10 and more siblings, duplicates and two-digit bounds beyond the 10th child) and deep trees"""
    ids = id_source(rng, rng.choice([0.0, 0.0, 0.15]))
    if rng.random() < 0.6:
        n_sub, n_prop = rng.choice([9, 10, 11, 12, 13]), rng.choice([0, 9, 10, 11, 12])
        subs = [{"id": ids(), "name": "s%d" % k, "type": "t", "props": [], "subs": []} for k in range(n_sub)]
        props = [{"id": ids(), "name": "p%d" % k, "dtype": "int",
                  "values": [{"i": j} for j in range(rng.choice([0, 1, 9, 10, 11]))],
                  "card": rng.choice([None, None, [10, None], [None, 10], [9, 11], [11, 12], [None, 9]])}
                 for k in range(n_prop)]
        for lst, key in ((subs, "s"), (props, "p")):
            for _ in range(rng.choice([0, 1, 1, 2])):
                if len(lst) >= 2:
                    a, b = sorted(rng.sample(range(len(lst)), 2))
                    if rng.random() < 0.7:
                        b = len(lst) - 1 - rng.randrange(min(3, len(lst) - 1))
                        a = rng.randrange(b) if b else 0
                    if a != b:
                        lst[b]["name"] = lst[a]["name"]
                        if key == "s" and rng.random() < 0.3:
                            lst[b]["type"] = "u"
        if props and rng.random() < 0.5:
            q = rng.choice(props)
            q["dep"] = rng.choice([p["name"] for p in props] + ["p1", "p10", "p1 ", "zz"])
            if rng.random() < 0.5:
                q["dv"] = rng.choice(["1", "10", "x"])
        if subs and rng.random() < 0.5:
            rng.choice(subs)["type"] = rng.choice([None, "", "n.s."])
        top = {"id": ids(), "name": "w", "type": "t",
               "sc": rng.choice([None, [10, None], [None, 10], [9, 11], [10, 10], [11, 12], [None, 9], [12, None]]),
               "pc": rng.choice([None, [10, None], [None, 10], [9, 11], [10, 10], [11, 12], [None, 9], [12, None]]),
               "props": props, "subs": subs}
    else:
        depth = rng.choice([5, 6, 8, 10])
        top = None
        for level in range(depth):
            cur = gen_sec(rng, ids, 0, strs, rng.choice([0.0, 0.0, 0.3]))
            cur["name"] = rng.choice(["a", "b", "c"]) if rng.random() < 0.7 else cur["name"]
            if top is not None:
                cur["subs"] = [top] + ([gen_sec(rng, ids, 0, strs, 0.3)] if rng.random() < 0.3 else [])
            top = cur
    r = rng.random()
    if r < 0.6:
        return {"stream": "shape", "kind": "doc", "node": {"id": ids(), "secs": [top]}}
    if r < 0.8:
        return {"stream": "shape", "kind": "sec", "node": top}
    return {"stream": "shape", "kind": "sub", "node": {"id": ids(), "secs": [top]}, "at": [0]}


# values beyond the alphabet the model covers: the oracle alone decides (dtypes.get is the reference)
XSTRS = ["\u0661\u0662\u0663", "\uff11\uff12", "1\u2028", "\u2028", "\u0085", "1\u00a0", "\u00bd", "\u00e9",
         "1_000", "1_0", "_1", "1e400", "-1e400", "1e-400", "\u0661.\u0665", "\u0662\u0660\u0662\u0660-\u0660\u0661-\u0660\u0662",
         "0999-12-31", "999-01-01", "0001-01-01", "0001-01-01 00:00:00", "9999-12-31 23:59:59", "10000-01-01",
         "true\u2028", "T\u0085", "(1;\u0662)", "\ud800", "1\x00", "\x0c1", "1\x1f", "\ufeff1", "\u22121", "Infinity", "NaN", "1d5"]
XINTS = [10 ** 15 + 1, 10 ** 20, -10 ** 20, 10 ** 400, -10 ** 400, 2 ** 63, 2 ** 31]


def gen_xprop(rng, ids):
    dtype = rng.choice(["int", "float", "boolean", "date", "time", "datetime", "string", "text", "2-tuple", None])
    values = []
    for _ in range(rng.choice([1, 1, 2, 3])):
        r = rng.random()
        if r < 0.65:
            values.append({"s": rng.choice(XSTRS)})
        elif r < 0.85:
            values.append({"i": rng.choice(XINTS)})
        else:
            values.append(gen_val(rng, STRS))
    return {"id": ids(), "name": rng.choice(["p", "\u00e4", "=id"]), "dtype": dtype, "values": values,
            "raw": rng.random() < 0.7, "card": rng.choice([None, None, [2, None], [None, 1]])}


# ----------------------------------------------------------------------------- seeded round 3
# What a stored value HOLDS, and how it got there.  Until now every stored date / time / datetime
# was one constant (2020-01-02 12:30:00), floats came from six spellings, and a value handed to the
# API as text that the API converts (the way every file reader hands values in) was thrown away and
# stored below the API as the text itself.  The pools below cover the content of the typed values
# along their boundaries, the entry points through which values reach a Property, value lists
# longer than ten, multi-digit tuple lengths and Python types the converters were not written for.
W_DATES = [[1, 1, 1], [1, 12, 31], [9, 9, 9], [10, 10, 10], [99, 6, 15], [100, 1, 1], [814, 1, 28], [999, 12, 31],
           [1000, 1, 1], [1582, 10, 10], [1899, 12, 31], [1900, 1, 1], [1969, 12, 31], [1970, 1, 1], [2000, 2, 29],
           [2020, 1, 2], [2038, 1, 19], [2100, 2, 28], [9999, 12, 31], [2024, 12, 1], [2011, 12, 1]]
W_TIMES = [[0, 0, 0, 0], [0, 0, 0, 1], [23, 59, 59, 0], [23, 59, 59, 999999], [12, 30, 0, 0], [9, 5, 3, 0],
           [1, 2, 3, 500000], [12, 0, 0, 0], [0, 0, 1, 0]]
W_TZS = [None, None, None, None, 0, 90, -720, 840, -1]
W_FLOATS = ["-0.0", "1e308", "-1e308", "5e-324", "1e16", "9007199254740993.0", "0.1", "1e-7", "123456789.125",
            "2.0", "-1.0", "1e22", "1.7976931348623157e308", "0.30000000000000004", "inf", "-inf", "nan", "0.0", "1.0"]
W_INTS = [0, 1, -1, 2, 10, 999, 1000, -999, 2 ** 31, 2 ** 53, 2 ** 53 + 1, 10 ** 15]
W_EXOTIC = ["tuple0", "tuple1", "tuple2", "tuple3", "dict0", "dict1", "bytes", "bytes0", "bytearray", "complex",
            "decimal", "decimal1", "fraction", "set0", "set1", "listint", "listint0", "nested", "nested2", "range2",
            "ellipsis"]
W_DTYPES = ["date", "date", "time", "datetime", "datetime", None, None, "string", "text", "int", "float", "boolean",
            "2-tuple", "str", "bool", "url", "person", ""]
W_LONG_TUPLES = ["10-tuple", "11-tuple", "12-tuple", "9-tuple", "100-tuple", "02-tuple", "010-tuple"]


def pad(n, width):
    return ("%%0%dd" % width) % n


def gen_temporal(rng, kind=None):
    kind = kind or rng.choice(["date", "date", "time", "datetime", "datetime"])
    if kind == "date":
        return {"d": "date", "v": rng.choice(W_DATES)}
    tz = rng.choice(W_TZS)
    if kind == "time":
        return {"d": "time", "v": rng.choice(W_TIMES), "tz": tz}
    day = rng.choice(W_DATES)
    if tz is not None and day[0] in (1, 9999):
        tz = None                           # (utcoffset arithmetic leaves the range of years there)
    return {"d": "datetime", "v": day + rng.choice(W_TIMES), "tz": tz}


def temporal_text(rng, kind=None):
    """the same boundary values written as text: the documented layout (zero padded), and neighbours
    of it (unpadded year / month, sub-seconds, a time zone, a 'T', surrounding blanks)"""
    kind = kind or rng.choice(["date", "date", "time", "datetime", "datetime"])
    y, m, d = rng.choice(W_DATES)
    hh, mi, ss, us = rng.choice(W_TIMES)
    day = "%s-%s-%s" % (pad(y, 4), pad(m, 2), pad(d, 2))
    clock = "%s:%s:%s" % (pad(hh, 2), pad(mi, 2), pad(ss, 2))
    text = {"date": day, "time": clock, "datetime": day + " " + clock}[kind]
    r = rng.random()
    if r < 0.70:
        return text
    if r < 0.78:
        return text.replace(pad(y, 4), str(y), 1) if kind != "time" else "%d:%d:%d" % (hh, mi, ss)
    if r < 0.84:
        return "%d-%d-%d" % (y, m, d) if kind == "date" else text + ".%06d" % us
    if r < 0.88:
        return text + rng.choice(["+01:30", "Z", " UTC"])
    if r < 0.92:
        return text.replace(" ", "T") if kind == "datetime" else " " + text
    if r < 0.96:
        return text + rng.choice([" ", "\n", "\t"])
    return rng.choice(["0000-01-01", "10000-01-01", "-001-01-01", "0999-12-32", "0999-13-01", "0999-02-29",
                       "1900-02-29", "2000-02-29", "24:00:00", "23:59:60", "0000-00-00 00:00:00", "00:00:00",
                       "9999-12-31 23:59:59", "0001-01-01 00:00:00"])


def gen_wide_val(rng, strs, lean=None):
    """one value of the wide pools; `lean` prefers the kind a dtype is named after"""
    r = rng.random()
    if lean in ("date", "time", "datetime") and r < 0.8:
        return gen_temporal(rng, lean) if r < 0.45 else {"s": temporal_text(rng, lean)}
    if r < 0.30:
        return gen_temporal(rng)
    if r < 0.48:
        return {"s": temporal_text(rng)}
    if r < 0.60:
        return {"fl": rng.choice(W_FLOATS)}
    if r < 0.70:
        return {"i": rng.choice(W_INTS)}
    if r < 0.76:
        return {"s": rng.choice(XSTRS)}
    return gen_val(rng, strs)


def gen_wide_prop(rng, ids, strs, name="p"):
    dtype = rng.choice(W_DTYPES)
    r = rng.random()
    how = {"raw": True} if r < 0.30 else {"raw": False} if r < 0.42 else \
        {"via": rng.choice(VIAS), "strict": rng.random() < 0.5}
    # raw: stored as it is, below the API; raw False: the constructor, kept only if the API stores the
    # values unchanged; via: stored as the API converts them (one kind of value per Property then,
    # more often than not - the API refuses mixtures)
    lean = dtype if rng.random() < 0.7 else None
    if "via" in how and rng.random() < 0.7:
        lean = dtype if dtype in ("date", "time", "datetime") else rng.choice(["date", "time", "datetime"])
    n = rng.choice([1, 1, 2, 2, 3, 4])
    proto = gen_wide_val(rng, strs, lean)
    if "via" in how and rng.random() < 0.6:
        key = sorted(proto)[0] if proto else None
        values = [proto]
        for _ in range(n - 1):
            for _try in range(20):
                nxt = gen_wide_val(rng, strs, lean)
                if nxt and key in nxt and nxt.get("d") == proto.get("d"):
                    values.append(nxt)
                    break
    else:
        values = [proto if rng.random() < 0.3 else gen_wide_val(rng, strs, lean) for _ in range(n)]
    if rng.random() < 0.08:
        values.insert(rng.randrange(len(values) + 1), None)
    p = {"id": ids(), "name": name, "dtype": dtype, "values": values,
         "card": rng.choice([None, None, None, [2, None], [None, 1], [1, 3]])}
    p.update(how)
    return p


def gen_long_prop(rng, ids, strs):
    """value lists around and beyond ten values, the misfits placed anywhere (also beyond the 10th);
    tuple dtypes whose length has two or three digits"""
    if rng.random() < 0.4:
        dtype = rng.choice(W_LONG_TUPLES)
        n = rng.choice([1, 2, 3])
        values = [{"l": rng.choice([2, 9, 10, 11, 12, 100])} for _ in range(n)]
        return {"id": ids(), "name": "p", "dtype": dtype, "values": values, "raw": True, "card": None}
    dtype = rng.choice(["int", "date", "time", "datetime", "float", "boolean", "string"])
    fit = {"int": {"i": 1}, "date": {"d": "date", "v": [2020, 1, 2]}, "time": {"d": "time", "v": [1, 2, 3, 0], "tz": None},
           "datetime": {"d": "datetime", "v": [2020, 1, 2, 3, 4, 5, 0], "tz": None}, "float": {"fl": "2.5"},
           "boolean": {"b": True}, "string": {"s": "abc"}}[dtype]
    n = rng.choice([9, 10, 11, 12, 13, 20])
    values = [fit] * n
    for _ in range(rng.choice([0, 1, 1, 2, 3])):
        k = n - 1 - rng.randrange(min(4, n)) if rng.random() < 0.6 else rng.randrange(n)
        values[k] = rng.choice([{"s": "abc"}, {"d": "datetime", "v": [999, 1, 1, 0, 0, 0, 0], "tz": None}, {"l": 2},
                                {"s": "0999-12-31"}, {"i": 7}, gen_wide_val(rng, strs)])
    if rng.random() < 0.1:
        values[rng.randrange(n)] = None
    return {"id": ids(), "name": "p", "dtype": dtype, "values": values, "raw": True,
            "card": rng.choice([None, [10, None], [None, 10], [9, 11], [11, 12], [None, 9]])}


def gen_exotic_prop(rng, ids, strs):
    dtype = rng.choice(W_DTYPES + ["tuple", "1-tuple", "3-tuple"])
    values = []
    for _ in range(rng.choice([1, 1, 2, 3])):
        values.append({"x": rng.choice(W_EXOTIC)} if rng.random() < 0.7 else gen_wide_val(rng, strs))
    p = {"id": ids(), "name": "p", "dtype": dtype, "values": values, "card": None}
    if rng.random() < 0.6:
        p["raw"] = True
    else:
        p["via"] = rng.choice(VIAS)
        p["strict"] = rng.random() < 0.5
    return p


def gen_values_case(rng, strs):
    """a small, otherwise clean Document whose Properties hold the wide values; dependencies on
    them; then a short history in which values enter through further entry points (setter, append,
    extend, a writer + reader, a file), with validations before, in the middle and after; validated
    as Document, Section, Property inside it"""
    ids = id_source(rng, 0.0)
    secs = []
    for k in range(rng.choice([1, 1, 2])):
        props = []
        for j in range(rng.choice([1, 2, 2, 3, 4])):
            props.append(gen_wide_prop(rng, ids, strs, "p%d" % j))
        for q in props:
            if rng.random() < 0.25:
                tgt = rng.choice(props)
                q["dep"] = tgt["name"]
                if rng.random() < 0.7:
                    texts = [v["s"] for v in tgt["values"] if v is not None and "s" in v]
                    q["dv"] = rng.choice(texts + [temporal_text(rng), "0999-12-31", "1", "true"])
        sec = {"id": ids(), "name": "s%d" % k, "type": rng.choice(["t", "t", "u", "n.s."]), "sc": None,
               "pc": rng.choice([None, None, [1, None], [None, 2]]), "props": props, "subs": []}
        if rng.random() < 0.4:
            sec["subs"] = [{"id": ids(), "name": "sub", "type": "t", "sc": None, "pc": None,
                            "props": [gen_wide_prop(rng, ids, strs, "q%d" % j) for j in range(rng.choice([1, 2]))],
                            "subs": []}]
        secs.append(sec)
    ops = []
    for _ in range(rng.choice([0, 0, 1, 1, 2, 3])):
        at = [rng.randrange(2)] + ([0] if rng.random() < 0.3 else [])
        r = rng.random()
        if r < 0.35:
            lean = rng.choice(["date", "time", "datetime", None])
            ops.append({"op": "pset", "at": at, "i": rng.randrange(4), "attr": rng.choice(["values", "extend", "append"]),
                        "value": [gen_wide_val(rng, strs, lean) for _ in range(rng.choice([1, 1, 2, 3]))],
                        "strict": rng.random() < 0.5})
        elif r < 0.50:
            ops.append({"op": "pset", "at": at, "i": rng.randrange(4), "attr": "dtype",
                        "value": rng.choice(["date", "time", "datetime", "string", "int", None, "text"])})
        elif r < 0.70:
            ops.append({"op": "add_prop", "at": at, "prop": gen_wide_prop(rng, ids, strs, rng.choice(["n", "p0", "n2"]))})
        elif r < 0.82:
            ops.append({"op": "dset", "attr": rng.choice(["date", "date", "author", "version", "repository"]),
                        "value": rng.choice([gen_temporal(rng, "date"), {"s": temporal_text(rng, "date")}, {"s": "x"},
                                             {"s": ""}, None, gen_temporal(rng, "datetime")])})
        elif r < 0.90:
            ops.append({"op": "pclone", "at": at, "i": rng.randrange(4), "to": [rng.randrange(2)],
                        "keep_id": rng.random() < 0.3, "rename": rng.choice(["cl", "cl2"])})
        else:
            ops.append({"op": "clone", "at": at, "to": [], "keep_id": False, "rename": "copy"})
    if rng.random() < 0.2:
        # the wide values below a linking / including / merged / cloned Section
        ops.insert(rng.randrange(len(ops) + 1), gen_feature_op(rng, ids))
    if rng.random() < 0.4:
        ops.insert(rng.randrange(len(ops) + 1),
                   {"op": "roundtrip", "fmt": rng.choice(["XML", "XML", "JSON", "YAML"]),
                    "entry": rng.choice(["string", "file"])})
    if rng.random() < 0.3:
        ops.insert(rng.randrange(len(ops) + 1),
                   {"op": "validate", "how": rng.choice(["new", "method", "deferred"]), "judge": rng.random() < 0.7})
    case = {"stream": "vals", "kind": "doc", "node": {"id": ids(), "secs": secs}, "ops": ops}
    r = rng.random()
    if r < 0.20:
        case["view"] = {"sec": [rng.randrange(2)] + ([0] if rng.random() < 0.3 else [])}
    elif r < 0.45:
        case["view"] = {"sec": [rng.randrange(2)] + ([0] if rng.random() < 0.3 else []), "prop": rng.randrange(4)}
    if rng.random() < 0.3:
        case["pre"] = True
    if "view" not in case and rng.random() < 0.15:
        case["save"] = {"fmt": rng.choice(SAVE_FORMATS), "entry": rng.choice(["writer", "odml.save"])}
    return case


DEP_SHAPES = [{"i": 1}, {"i": 0}, {"b": True}, {"b": False}, {"fl": "1.5"}, {"fl": "1.0"}, {"x": "tuple1"},
              {"x": "listint"}, {"x": "dict1"}, {"x": "bytes"}, {"l": 1}, {"d": "date", "v": [999, 12, 31]},
              {"x": "set1"}, {"x": "decimal1"}]


def gen_depshape_case(rng, strs):
    """dependency / dependency_value that are not text (a number or a truth value is what a YAML or
    JSON file with `dependency: 1` hands in; the setters take anything): such a dependency names no
    Property.  Targets named "1" / "True" / "0" and targets whose values are ints, bools, floats."""
    ids = id_source(rng, 0.0)
    names = ["a", "1", "True", "0", "1.5", "b"]
    rng.shuffle(names)
    props = []
    for name in names[:rng.choice([2, 3, 4])]:
        values = [rng.choice([{"i": 1}, {"i": 0}, {"b": True}, {"fl": "1.0"}, {"s": "1"}, {"s": "True"}, {"s": "x"},
                              {"fl": "1.5"}, {"d": "date", "v": [999, 12, 31]}, {"s": "0999-12-31"}])
                  for _ in range(rng.choice([0, 1, 2, 3]))]
        props.append({"id": ids(), "name": name, "dtype": None, "values": values, "raw": True, "card": None})
    for q in props:
        if rng.random() < 0.7:
            r = rng.random()
            q["dep"] = rng.choice(DEP_SHAPES) if r < 0.6 else rng.choice(names)
            if rng.random() < 0.7:
                q["dv"] = rng.choice(DEP_SHAPES + ["1", "True", "x", "", "0999-12-31", "1.0"])
    sec = {"id": ids(), "name": "s", "type": "t", "sc": None, "pc": None, "props": props, "subs": []}
    case = {"stream": "depshape", "kind": "doc", "node": {"id": ids(), "secs": [sec]}, "ops": []}
    if rng.random() < 0.3:
        case["ops"].append({"op": "roundtrip", "fmt": rng.choice(["YAML", "JSON", "XML"]),
                            "entry": rng.choice(["string", "file"])})
    r = rng.random()
    if r < 0.25:
        case["view"] = {"sec": [0], "prop": rng.randrange(4)}
    elif r < 0.4:
        case["view"] = {"sec": [0]}
    return case


# ----------------------------------------------------------------------------- seeded round 5
# Keys that are DIFFERENT but look alike.  The duplicate rules compare keys: the (name, type) pair of
# sibling Sections, the name of sibling Properties, the id of every object, the name a dependency
# spells, the value a dependency asks for, the name against the own id.  Until now all of these came
# from pools of a few short words in which two keys are either equal or have nothing in common, so
# every lossy way of comparing them (the pair joined with a separator, concatenated, compared without
# case / blanks / accents, cut off after n characters, read as a number, turned into text first)
# gave the same verdicts as the documented comparison.  The pools below place keys next to each other
# that differ but coincide under such a comparison - together with real duplicates, so that both
# directions of "if and only if" are exercised on the same siblings.
K_WORDS = ["a", "b", "c", "ab", "rec", "setup", "hw", "x", "1", "s", "stimulus", "white_noise"]
K_SEPS = ["/", "/", "/", "/", ",", ":", "|", " ", ".", "#", "-", "_", ";", "\t", "\n", "\x00", "', '", "\\",
          "//", "=", "&", "%s", "::", ", ", "\u2044", "\x1f", "\u2028", "')", "+", "@"]
K_TYPES_OK = ["t", "t", "u", "t/sub", "stimulus/white_noise"]
K_WORD_FAMILIES = [
    ["name", "Name", "NAME", "nAME"],
    ["a", "A"],
    ["a", "a ", " a", "a\t", "a\n", "a\u00a0", "a\u2028", " a "],
    ["a b", "a  b", "a\tb", "ab", "a_b"],
    ["\u00e9", "e\u0301", "e", "\u00c9"],                           # NFC / NFD / without the accent
    ["\ufb01", "fi"], ["\uff41", "a"], ["\u00df", "ss", "SS"],       # compatibility forms, case folding
    ["K", "\u212a", "k"], ["\u0131", "i", "I", "\u0130"], ["\u03c3", "\u03c2", "\u03a3"],
    ["a", "\U0001d41a"],                                            # (outside the BMP: oracle only)
    ["1", "01", "1.0", "+1", "1e0", "\u0661", "1 "],                # equal as numbers
    ["p1", "p10", "p01", "p1.0", "p"], ["s9", "s10", "s09"],
    ["a/b", "a//b", "a/b/", "/a/b", "a\\b", "a|b", "a/B"],
    ["None", "none", "null", "NONE"], ["True", "true", "TRUE"],
    ["%s", "%s/%s", "%", "%d", "{}", "{0}"],
    ["a\x00", "a", "a\x00b", "a\x1f"],
]
K_VALUES = ["a", "A", "a ", " a", "ab", "1", "01", "1.0", "name", "Name", "a/b", "a,b"]     # ASCII: inside the model


def distinct(items):
    out = []
    for it in items:
        if not any(type(it) is type(o) and it == o for o in out):
            out.append(it)
    return out


def confusable_words(rng):
    """-> (2..4 of the words of one family, the whole family)"""
    if rng.random() < 0.2:
        # one long prefix in common (a key cut off after 8 / 16 / ... characters)
        n = rng.choice([8, 16, 31, 32, 63, 64, 100, 255, 256])
        base = ("abcdefghij" * 26)[:n]
        fam = [base, base + "x", base + "y", base[:-1], base + " "]
    else:
        fam = list(rng.choice(K_WORD_FAMILIES))
    pick = list(fam)
    rng.shuffle(pick)
    return pick[:rng.choice([2, 2, 3, 4])], fam


def confusable_pairs(rng):
    """2..4 (name, type) pairs, pairwise different, that some lossy comparison would identify"""
    for _ in range(20):
        a, b, c, d = (rng.choice(K_WORDS) for _ in range(4))
        r = rng.random()
        if r < 0.40:
            # the separator moves from one component to the other: 'a/b' [c]  next to  'a' [b/c]
            sep = rng.choice(K_SEPS)
            q = rng.random()
            if q < 0.55:
                out = [(a + sep + b, c), (a, b + sep + c)]
            elif q < 0.80:
                out = [(a + sep + b + sep + c, d), (a + sep + b, c + sep + d), (a, b + sep + c + sep + d)]
            else:
                out = [(a + sep, b), (a, sep + b)]              # ... at the edge of a component
        elif r < 0.50:
            out = [(a + b, c), (a, b + c)]                      # plain concatenation
        elif r < 0.57:
            out = [(a, b), (b, a)]                              # the two components swapped
        elif r < 0.85:
            # one family of look-alike words as names, as types, or as both
            words, _fam = confusable_words(rng)
            q = rng.random()
            if q < 0.5:
                typ = rng.choice(K_TYPES_OK + [b])
                out = [(wd, typ) for wd in words]
            elif q < 0.85:
                out = [(a, wd) for wd in words]
            else:
                out = list(zip(words, reversed(words))) + [(words[0], words[0])]
        elif r < 0.95:
            # the same name; types that are no type at all or only look like none
            types = [None, "None", "", " ", "none", "n.s.", "N.S."]
            rng.shuffle(types)
            out = [(a, typ) for typ in types[:rng.choice([2, 3])]]
        else:
            # a name that is a number next to the same number as text (a YAML / JSON file can hold
            # both; outside the model: oracle only).  1 / 1.0 / True are equal in Python and not used.
            n = rng.choice([1, 2, 10, 7])
            typ = rng.choice(K_TYPES_OK)
            out = [({"i": n}, typ), (str(n), typ)] + ([(str(n) + " ", typ)] if rng.random() < 0.3 else [])
        out = distinct(out)[:4]
        if len(out) >= 2:
            return out
    return [("a/b", "c"), ("a", "b/c")]


def near_id_source(rng):
    """ids that differ from each other in one single character (the last, the first, one in the
    middle), now and then one of them twice (a real duplicate)"""
    base = "aaaaaaaa-bbbb-4ccc-8ddd-eeeeeeeeeeee"
    cands = []
    for pos in (35, 0, 9, 19, 24, 34):
        for ch in "0123456789abcdef":
            cand = base[:pos] + ch + base[pos + 1:]
            if cand not in cands:
                cands.append(cand)
    rng.shuffle(cands)
    made = []

    def nxt():
        if made and rng.random() < 0.08:
            return rng.choice(made)
        tok = "raw:" + cands[len(made)] if len(made) < len(cands) else "k%d" % len(made)
        made.append(tok)
        return tok
    return nxt


def gen_keys_case(rng, strs):
    ids = near_id_source(rng) if rng.random() < 0.15 else id_source(rng, 0.0)
    dup_rate = rng.choice([0.0, 0.0, 0.3, 0.5])         # real duplicates among the look-alikes
    names, types, words_seen = ["a/b", "a"], ["c", "b/c"], ["a", "A"]

    def leaf(name, typ):
        return {"id": ids(), "name": name, "type": typ, "sc": None, "pc": None, "props": [], "subs": []}

    def sec_family():
        pairs = confusable_pairs(rng)
        names.extend(n for n, _t in pairs)
        types.extend(t for _n, t in pairs)
        secs = [leaf(n, t) for n, t in pairs]
        if rng.random() < dup_rate:
            n, t = rng.choice(pairs)
            secs.insert(rng.randrange(len(secs) + 1), leaf(n, t))
        if rng.random() < 0.12:                       # ... the look-alikes beyond the tenth child
            for k in range(rng.choice([9, 10, 11])):
                secs.insert(rng.randrange(min(2, len(secs)) + 1), leaf("f%d" % k, rng.choice(K_TYPES_OK)))
        else:
            for k in range(rng.choice([0, 0, 1, 2])):
                secs.insert(rng.randrange(len(secs) + 1), leaf("f%d" % k, rng.choice(K_TYPES_OK)))
        return secs

    def prop_family():
        words, fam = confusable_words(rng)
        words_seen.extend(fam)
        props = []
        for wd in words:
            props.append({"id": ids(), "name": wd, "dtype": "string",
                          "values": [{"s": rng.choice(K_VALUES)} for _ in range(rng.choice([0, 1, 1, 2]))],
                          "card": None})
        if rng.random() < dup_rate:
            props.insert(rng.randrange(len(props) + 1),
                         {"id": ids(), "name": rng.choice(words), "dtype": "string", "values": [], "card": None})
        for q in props:
            if rng.random() < 0.45:
                # a dependency spelt like a sibling, like a look-alike of a sibling, or the sibling itself
                q["dep"] = rng.choice(fam + words)
                if rng.random() < 0.6:
                    q["dv"] = rng.choice(K_VALUES)
        if rng.random() < 0.3:
            props.append({"id": ids(), "name": "q", "dtype": "int", "values": [{"i": 1}], "card": None,
                          "dep": rng.choice(fam), "dv": rng.choice(K_VALUES + [None, None])})
            if props[-1]["dv"] is None:
                del props[-1]["dv"]
        return props

    host = leaf("host", "t")
    host["subs"] = sec_family() if rng.random() < 0.6 else [leaf("c0", "t"), leaf("c1", "t")]
    if rng.random() < 0.55:
        host["props"] = prop_family()
    if rng.random() < 0.25:
        rng.choice(host["subs"])["subs"] = sec_family()
    if rng.random() < 0.3:
        rng.choice(host["subs"])["props"] = prop_family()
    tops = sec_family() if rng.random() < 0.5 else [leaf("other", "u")]
    host_at = rng.randrange(len(tops) + 1)
    tops.insert(host_at, host)
    if rng.random() < 0.3:
        # the same pair once more under another parent: cousins / aunts are never duplicates
        m = rng.choice(host["subs"])
        dest = rng.choice([tops] + [t["subs"] for t in tops if t is not host])
        dest.append(leaf(m["name"], m["type"]))
    everything = []

    def walk(sec):
        everything.append(sec)
        everything.extend(sec["props"])
        for sub in sec["subs"]:
            walk(sub)
    for top in tops:
        walk(top)
    if rng.random() < 0.12:
        # a name that only looks like the id of its object
        rng.choice(everything)["name"] = rng.choice(["=ID", "=id ", "=id8", "=id~", "=id"])

    text_names = [n for n in names if isinstance(n, str)]
    ops = []
    for _ in range(rng.choice([0, 0, 0, 1, 1, 2, 3])):
        at = rng.choice([[host_at], [host_at, rng.randrange(4)], rand_path(rng, 1, 2)])
        r = rng.random()
        if r < 0.18:
            ops.append({"op": "set", "at": at, "attr": "name", "value": rng.choice(names)})
        elif r < 0.30:
            ops.append({"op": "set", "at": at, "attr": "type", "value": rng.choice(types)})
        elif r < 0.45:
            # a copy next to the original, renamed into a look-alike (or not renamed: a real duplicate)
            op = {"op": "clone", "at": at, "to": at[:-1], "keep_id": rng.random() < 0.3, "children": rng.random() < 0.7,
                  "how": rng.choice(["append", "insert", "extend"]), "pos": rng.choice([0, 1, -1])}
            if rng.random() < 0.8:
                op["rename"] = rng.choice(text_names)
            ops.append(op)
        elif r < 0.57:
            n, t = rng.choice(confusable_pairs(rng) + [(rng.choice(names), rng.choice(types))])
            ops.append({"op": "add_sec", "at": at[:-1] if rng.random() < 0.5 else at, "sec": leaf(n, t)})
        elif r < 0.67:
            ops.append({"op": "pset", "at": at, "i": rng.randrange(4), "attr": rng.choice(["name", "dep", "dv"]),
                        "value": rng.choice(words_seen + K_VALUES[:4])})
        elif r < 0.75:
            ops.append({"op": "add_prop", "at": at,
                        "prop": {"id": ids(), "name": rng.choice(words_seen), "dtype": "string", "values": [{"s": "a"}],
                                 "card": None, "dep": rng.choice(words_seen)}})
        elif r < 0.83:
            ops.append({"op": "validate", "how": rng.choice(["new", "method", "deferred"]), "judge": rng.random() < 0.6})
        elif r < 0.93:
            ops.append({"op": "roundtrip", "fmt": rng.choice(["XML", "JSON", "YAML"]),
                        "entry": rng.choice(["string", "file"])})
        else:
            ops.append(gen_feature_op(rng, ids))
    r = rng.random()
    if r < 0.12:
        # the Section with the look-alike children validated on its own, never part of a Document
        return {"stream": "keys", "kind": "sec", "node": host,
                "ops": [op for op in ops if op["op"] in ("set", "add_sec", "pset", "add_prop", "validate")
                        and op.get("at", [0])[:1] != [host_at]][:1]}
    case = {"stream": "keys", "kind": "doc", "node": {"id": ids(), "secs": tops}, "ops": ops}
    if r < 0.24:
        case["view"] = {"sec": [host_at] + ([rng.randrange(4)] if rng.random() < 0.3 else [])}
    elif r < 0.32:
        case["view"] = {"sec": [host_at] + ([rng.randrange(4)] if rng.random() < 0.3 else []), "prop": rng.randrange(4)}
    if rng.random() < 0.25:
        case["pre"] = True
    if "view" not in case and rng.random() < 0.5:
        # a document whose keys only look alike has no error: it has to be written
        case["save"] = {"fmt": rng.choice(SAVE_FORMATS), "entry": rng.choice(["writer", "odml.save"])}
    return case


# ----------------------------------------------------------------------------- seeded round 6
# The save gate is an OBJECT that is used more than once.  "Only errors block saving" was checked on
# first writes: a writer made for the case, asked once (two saves of one case hit the same writer
# object only when format and entry point happened to coincide, and hardly ever with a refused save
# first and a repaired document second).  The stream below runs writer SESSIONS: a few writer objects
# (per format and slot) and the module-level odml.save are asked again and again while the document
# is broken (an error-rank issue: cleared type, emptied name, keep_id clones, duplicate siblings),
# repaired, given warning-rank issues only, and while other Documents - valid and invalid ones - are
# handed to the same writer in between.  Every single call is judged by the document of that moment
# (the three save clauses + "a returned save has written, a refused one has not"), and the outcomes
# per writer object are compared with the model's `Writer.session`.
def spec_secs(doc):
    """[(path, spec)] of every Section of a document description"""
    out = []

    def walk(sec, path):
        out.append((path, sec))
        for i, sub in enumerate(sec.get("subs", [])):
            walk(sub, path + [i])
    for i, sec in enumerate(doc["secs"]):
        walk(sec, [i])
    return out


def gen_break(rng, ids, secs, n):
    """an edit that gives the document an issue of rank error -> (operations, operations that undo it)"""
    path, spec = rng.choice(secs)
    parent = path[:-1]
    props = spec.get("props", [])
    r = rng.random()
    if r < 0.22:
        return ([{"op": "set", "at": path, "attr": "type", "value": rng.choice([None, None, ""])}],
                [{"op": "set", "at": path, "attr": "type", "value": spec.get("type") or "t"}])
    if r < 0.32:
        return ([{"op": "set", "at": path, "attr": "name", "value": ""}],
                [{"op": "set", "at": path, "attr": "name", "value": spec.get("name") or "named%d" % n}])
    if r < 0.52:
        # a keep_id clone next to the original (shared ids, with or without the shared name)
        op = {"op": "clone", "at": path, "to": parent, "keep_id": True, "children": rng.random() < 0.7,
              "how": "append"}
        if rng.random() < 0.5:
            op["rename"] = "kc%d" % n
        undo = [{"op": "remove", "at": parent + [-1]}]
        if not op["children"] and "rename" in op and rng.random() < 0.5:
            undo = [{"op": "newid", "at": parent + [-1]}]          # a new id instead of removing the copy
        return [op], undo
    if r < 0.62:
        # a copy with a fresh id but the same name and type
        op = {"op": "clone", "at": path, "to": parent, "keep_id": False, "children": rng.random() < 0.5,
              "how": "append"}
        undo = rng.choice([[{"op": "remove", "at": parent + [-1]}],
                           [{"op": "set", "at": parent + [-1], "attr": "name", "value": "copy%d" % n}],
                           [{"op": "set", "at": parent + [-1], "attr": "type", "value": "copied/%d" % n}]])
        return [op], undo
    if r < 0.78 and props:
        op = {"op": "pclone", "at": path, "i": rng.randrange(len(props)), "to": path,
              "keep_id": rng.random() < 0.6, "how": "append"}
        if op["keep_id"] and rng.random() < 0.5:
            op["rename"] = "pc%d" % n
        undo = [{"op": "premove", "at": path, "i": -1}]
        if op["keep_id"] and "rename" in op and rng.random() < 0.4:
            undo = [{"op": "newid", "at": path, "i": -1}]
        elif not op["keep_id"] and rng.random() < 0.4:
            undo = [{"op": "pset", "at": path, "i": -1, "attr": "name", "value": "pcopy%d" % n}]
        return [op], undo
    if r < 0.88 and props:
        twin = {"id": ids(), "name": rng.choice(props)["name"], "dtype": "int", "values": [{"i": 1}], "card": None}
        return ([{"op": "add_prop", "at": path, "prop": twin}], [{"op": "premove", "at": path, "i": -1}])
    twin = {"id": ids(), "name": spec.get("name"), "type": spec.get("type"), "sc": None, "pc": None,
            "props": [], "subs": []}
    return ([{"op": "add_sec", "at": parent, "sec": twin}],
            rng.choice([[{"op": "remove", "at": parent + [-1]}],
                        [{"op": "set", "at": parent + [-1], "attr": "type", "value": "twin/%d" % n}]]))


def gen_warn(rng, ids, secs, n):
    """an edit that gives the document an issue of rank warning only"""
    path, _spec = rng.choice(secs)
    r = rng.random()
    if r < 0.25:
        return {"op": "set", "at": path, "attr": "type", "value": rng.choice(["n.s.", "n.s.", "t", "u"])}
    if r < 0.50:
        return {"op": "set", "at": path, "attr": rng.choice(["sc", "pc"]),
                "value": rng.choice([[7, None], [None, 0], [10, 12], None])}
    if r < 0.80:
        return {"op": "add_prop", "at": path,
                "prop": {"id": ids(), "name": "w%d" % n, "dtype": rng.choice(["int", "date", "boolean"]),
                         "values": [{"s": "abc"}], "raw": True, "card": rng.choice([None, [2, None]]),
                         "dep": rng.choice(["zz", "w0", None])}}
    return {"op": "set", "at": path, "attr": "name", "value": "=id"}


WRITER_KW = {"XML": [None, None, None, {"local_style": True}, {"local_style": False}],
             "RDF": [None, None, {"rdf_format": "turtle"}, {"rdf_format": "xml"}, {"rdf_format": "n3"}],
             "JSON": [None], "YAML": [None]}


def gen_session_case(rng, strs):
    dirt = rng.choice([0.0, 0.0, 0.0, 0.0, 0.05])
    ids = id_source(rng, 0.0)
    secs = []
    for _ in range(rng.choice([1, 1, 2, 3])):
        secs.append(gen_sec(rng, ids, rng.choice([0, 1, 1, 2]), strs, dirt, [x["name"] for x in secs]))
    doc = {"id": ids(), "secs": secs}
    # further Documents handed to the same writers: a small valid one, a small invalid one, a random one
    others = []
    for _ in range(rng.choice([0, 0, 1, 1, 2])):
        oid = id_source(rng, 0.0)           # (the same id tokens as the main Document: ids are per Document)
        r = rng.random()
        if r < 0.4:
            osecs = [{"id": oid(), "name": "s", "type": "t", "sc": None, "pc": None, "props": [], "subs": []}]
        elif r < 0.7:
            bad = {"id": oid(), "name": "s", "type": rng.choice([None, "", "t"]), "sc": None, "pc": None,
                   "props": [], "subs": []}
            osecs = [bad] if not bad["type"] else [bad, dict(bad, id=oid())]
        else:
            osecs = [gen_sec(rng, oid, rng.choice([0, 1]), strs, rng.choice([0.0, 0.0, 0.3]))]
        others.append({"id": oid(), "secs": osecs})
    targets = [(None, spec_secs(doc))] + [(j, spec_secs(o)) for j, o in enumerate(others)]
    targets = [t for t in targets if t[1]]
    primary = (rng.choice(SAVE_FORMATS), 0)
    ops, pending, n = [], [], 0

    def write():
        op = {"op": "save"}
        r = rng.random()
        if r < 0.70:
            op.update({"fmt": primary[0], "slot": primary[1], "entry": "writer"})
        elif r < 0.85:
            op.update({"fmt": rng.choice(SAVE_FORMATS), "slot": rng.randrange(2), "entry": "writer"})
        else:
            op.update({"fmt": rng.choice(SAVE_FORMATS), "entry": "odml.save"})
        kw = rng.choice(WRITER_KW[op["fmt"]])
        if kw:
            op["kw"] = kw
        if others and rng.random() < 0.25:
            op["doc"] = rng.randrange(len(others))
        return op

    def addressed(op, j):
        if j is not None:
            op = dict(op, doc=j)
        return op

    for _ in range(rng.choice([3, 4, 5, 6, 8, 10, 12, 12, 30])):       # (30: ten and more calls of one writer)
        r = rng.random()
        n += 1
        if r < 0.26 and targets:
            j, tsecs = rng.choice(targets) if rng.random() < 0.2 else targets[0]
            brk, undo = gen_break(rng, ids, tsecs, n)
            ops.extend(addressed(o, j) for o in brk)
            pending.append([addressed(o, j) for o in undo])
        elif r < 0.46 and pending:
            # repair: everything that is broken (latest first), or the latest break only
            for _k in range(len(pending) if rng.random() < 0.7 else 1):
                ops.extend(pending.pop())
        elif r < 0.54 and targets:
            j, tsecs = rng.choice(targets) if rng.random() < 0.2 else targets[0]
            ops.append(addressed(gen_warn(rng, ids, tsecs, n), j))
        elif r < 0.58:
            ops.append({"op": "save", "fmt": primary[0], "slot": primary[1],
                        "entry": rng.choice(["to_string", "to_string", "badpath"])})
        elif r < 0.62:
            ops.append({"op": "validate", "how": rng.choice(["new", "method", "deferred"]), "judge": rng.random() < 0.5})
        elif r < 0.65:
            # another library feature in the middle of the session (a link / include / merge / clone;
            # whatever it does to the document, the next write is judged by the document as it is then)
            ops.append(gen_feature_op(rng, ids))
        elif r < 0.67:
            # the writers go on with the Document a reader made of the present one
            ops.append({"op": "roundtrip", "fmt": rng.choice(["XML", "JSON", "YAML"]),
                        "entry": rng.choice(["string", "file"])})
        else:
            ops.append(write())
    if pending and rng.random() < 0.6:
        while pending:
            ops.extend(pending.pop())
    ops.append(write())
    if rng.random() < 0.5:
        last = dict(ops[-1])
        last.pop("doc", None)
        ops.append(dict(last, fmt=primary[0], slot=primary[1], entry="writer"))
        if ops[-1]["fmt"] != last.get("fmt"):
            ops[-1].pop("kw", None)
    case = {"stream": "wsess", "kind": "doc", "node": doc, "ops": ops}
    if others:
        case["others"] = others
    return case


# ----------------------------------------------------------------------------- the check
class C08(fw.Check):
    prop = "C08"
    lean_targets = ["OdmlModel.Props.C08"]
    obligations = ["C08." + t for t in [
        "registry_default_exact", "registry_modelled", "required_table", "issue_ids_agree",
        "ranks_agree", "labels_distinct", "mem_issues", "validate_total",
        "validate_total_counterexample", "required_sound_complete",
        "type_undefined_sound_complete", "name_readable_sound_complete",
        "dependency_sound_complete", "values_check_sound_complete", "string_check_sound_complete",
        "props_card_sound_complete", "secs_card_sound_complete", "vals_card_sound_complete",
        "card_report_is_outside", "unique_name_type_sound_complete",
        "unique_prop_names_sound_complete", "unique_ids_sound_complete",
        "unique_ids_only_documents", "id_entries_cover", "rank_by_id", "rank_never_confused", "blocks_save_iff",
        "every_issue_accounted",
        "write_outcome_stateless", "write_session_pointwise", "save_outcome_refused_iff",
        "save_refused_iff_after_any_history", "save_written_iff_after_any_history"]]
    trusted_base = [
        "Lean 4.33.0 kernel; axioms propext, Classical.choice, Quot.sound only (audited per theorem)",
        "hand-written model lean/OdmlModel/Model/Valid.lean (+ Card.lean, ValidWriter.lean), tied to /repo by this run",
        "harness/extract_tables.py (Validation._handlers, IssueID, format._args regenerated into Lean)",
        "Driver/*.lean JSON glue; harness/framework.py, harness/c08.py",
    ]
    assumptions = [
        "names, ids, types, dtypes, dependency and dependency_value are str or None (other Python "
        "types are outside the model; the harness skips the model for them)",
        "string values are ASCII without '_' (int()/float()/strptime/\\d are modelled for ASCII); "
        "decimal exponents small enough not to overflow (fewer than three exponent digits); ints small "
        "enough for float(); names/types/ids without surrogates or non-BMP characters (JSON transport)",
        "a Property inside a Section validated on its own is not a Node of the model: oracle only",
        "stored values of Python types other than None/bool/int/float/str/date/time/datetime/list, and "
        "dependency / dependency_value that are not text, are outside the model: oracle only",
        "sections are visited depth-first in the model, breadth-first in the code: issue multisets only",
    ]
    rule = ("random trees (depth <= 3) over small name/type/id alphabets with duplicate ids, empty names, "
            "cleared types, dependencies naming existing/missing Properties and sub-Sections, values of "
            "every Python type against every dtype (built below the API where it refuses), every "
            "cardinality/count combination; validated as Document, stand-alone Section, Section inside a "
            "Document, stand-alone Property; plus a save stream (errors block, warnings do not). "
            "Operation histories on such trees: links and includes (resolved, unresolved, dangling; set by "
            "the setter, the constructor, on a detached Section), merges, clones with/without keep_id, "
            "edits of the objects an earlier operation touched (type, cardinalities in every argument "
            "shape, names, new Properties with dependencies, values, dtypes), removals, reorderings, "
            "finalize(), a round trip through a writer/reader, validations and saves in the middle; the "
            "result validated as Document, as a Section inside it or as a Property inside it, through "
            "every public way of running a validation (Validation(obj), run_validation() again, "
            "validate=False + run_validation(), report(), Document.validate(), a Validation object made "
            "before the last edits) and saved through XML/JSON/YAML/RDF writers and odml.save. Wide (10+ "
            "siblings) and deep (10 levels) trees, two-digit and huge cardinality bounds, whitespace and "
            "non-ASCII names/types, values outside the modelled alphabet (oracle only). "
            "Content and origin of the stored values: dates / times / datetimes along their boundaries "
            "(years 1..9999, sub-seconds, time zones) as objects and as text in and around the documented "
            "layout, float and int boundaries, entered below the API, through the constructor, the values "
            "setter, append / extend / insert / item assignment (strict and lenient), a writer + reader or a "
            "file; value lists beyond ten values, tuple lengths of two and three digits, stored values of "
            "foreign Python types and non-text dependency / dependency_value (oracle only); the fit of a value "
            "is decided by the documented formats, independently of odml.dtypes, wherever they leave no doubt. "
            "Keys that differ but look alike (stream keys): sibling Sections whose (name, type) pairs coincide "
            "once joined with a separator ('/', ',', ':', blank, NUL, ...), concatenated, swapped, compared without "
            "case / blanks / accents / compatibility forms, cut after 8..256 characters, read as numbers or turned "
            "into text (type None vs 'None', name 1 vs '1'); sibling Properties, dependencies, dependency values and "
            "ids (one character apart) of the same kinds; names that only look like the own id; mixed with real "
            "duplicates, below the Document, a Section, a stand-alone Section, beyond the 10th child, made by renames / "
            "clones / readers in a history, validated through every entry point and saved in every format. "
            "Writer sessions (stream wsess): a few ODMLWriter objects per case (format x slot, with and without "
            "writer options) and odml.save asked 3..13 times while the document is broken (cleared type, emptied "
            "name, keep_id clones of Sections and Properties, duplicate siblings), repaired (type set, copy removed "
            "/ renamed / given a new id), given warnings only, and while other valid and invalid Documents are "
            "handed to the same writer; to_string calls and writes to a path that cannot be opened in between; "
            "every call judged by the document of that moment, a returned save has written a file and a refused "
            "one has not; the outcomes per writer object compared with the model's Writer.session. "
            "Non-trivial = at least one issue reported; distinct = distinct canonical JSON of the case.")

    # -- generation ----------------------------------------------------------
    def generate(self, tier, rng):
        cases = []
        quick = tier == "quick"
        n_doc = 2500 if quick else 60000
        n_sec = 1000 if quick else 20000
        n_prop = 5000 if quick else 150000
        n_save = 150 if quick else 3000
        rstrs = STRS + [rand_str(rng) for _ in range(300 if quick else 5000)]
        for _ in range(n_doc):
            dirt = rng.choice([0.0, 0.05, 0.15, 0.6])
            ids = id_source(rng, rng.choice([0.0, 0.1, 0.3]) if dirt else 0.0)
            secs = []
            for _ in range(rng.choice([0, 1, 2, 3])):
                secs.append(gen_sec(rng, ids, rng.choice([0, 1, 2]), STRS, dirt, [x["name"] for x in secs]))
            doc = {"id": ids(), "secs": secs}
            cases.append({"stream": "doc", "kind": "doc", "node": doc})
            if doc["secs"] and rng.random() < 0.3:
                cases.append({"stream": "sub", "kind": "sub", "node": doc,
                              "at": [rng.randrange(len(doc["secs"]))]})
        for _ in range(n_sec):
            dirt = rng.choice([0.0, 0.1, 0.6])
            ids = id_source(rng, 0.1 if dirt else 0.0)
            cases.append({"stream": "sec", "kind": "sec",
                          "node": gen_sec(rng, ids, rng.choice([0, 1, 2]), STRS, dirt)})
        for _ in range(n_prop):
            ids = id_source(rng, 0.0)
            cases.append({"stream": "prop", "kind": "prop",
                          "node": gen_prop(rng, ids, [], rstrs, rng.choice([0.0, 0.6, 0.6]))})
        # every cardinality / count combination on the three kinds
        for lo in (None, 0, 1, 2, 3):
            for hi in (None, 1, 2, 3):
                if lo is None and hi is None or (lo is not None and hi is not None and lo > hi):
                    continue
                for n in range(0, 5):
                    base_p = {"id": "p", "name": "p", "dtype": "int", "values": [{"i": k} for k in range(n)],
                              "card": [lo, hi]}
                    cases.append({"stream": "card", "kind": "prop", "node": base_p})
                    sec = {"id": "s", "name": "s", "type": "t", "sc": [lo, hi], "pc": [lo, hi],
                           "props": [{"id": "p%d" % k, "name": "p%d" % k, "values": []} for k in range(n)],
                           "subs": [{"id": "c%d" % k, "name": "c%d" % k, "type": "t", "props": [], "subs": []}
                                    for k in range(4 - n)]}
                    cases.append({"stream": "card", "kind": "sec", "node": sec})
        for _ in range(n_save):
            dirt = rng.choice([0.0, 0.0, 0.05, 0.3])
            ids = id_source(rng, 0.2 if dirt else 0.0)
            secs = []
            for _ in range(rng.choice([1, 2])):
                secs.append(gen_sec(rng, ids, 1, STRS[:20], dirt, [x["name"] for x in secs]))
            doc = {"id": ids(), "secs": secs}
            cases.append({"stream": "save", "kind": "doc", "node": doc, "save": True})
        # ---- streams added after the second seeded round (appended, the ones above are unchanged)
        scratch_dir()
        with fw.quiet():
            term_url()      # written before the workers fork, so all of them share one file
            self.preload_terminology()
        for _ in range(2600 if quick else 60000):
            cases.append(gen_history_case(rng, STRS))
        for _ in range(250 if quick else 5000):
            cases.append(gen_shape_case(rng, STRS))
        for _ in range(400 if quick else 10000):
            cases.append({"stream": "xprop", "kind": "prop", "node": gen_xprop(rng, id_source(rng, 0.0))})
        # two-digit and huge cardinality bounds against the counts around them
        for lo, hi in ((10, None), (None, 10), (9, 11), (10, 10), (11, 12), (None, 9), (12, None), (2, 10),
                       (10, 100), (None, 10 ** 20), (10 ** 20, None), (9, 10)):
            for n in range(8, 14):
                cases.append({"stream": "card2", "kind": "prop",
                              "node": {"id": "p", "name": "p", "dtype": "int", "values": [{"i": k} for k in range(n)],
                                       "card": [lo, hi]}})
                cases.append({"stream": "card2", "kind": "sec",
                              "node": {"id": "s", "name": "s", "type": "t", "sc": [lo, hi], "pc": [lo, hi],
                                       "props": [{"id": "p%d" % k, "name": "p%d" % k, "values": []} for k in range(n)],
                                       "subs": [{"id": "c%d" % k, "name": "c%d" % k, "type": "t", "props": [],
                                                 "subs": []} for k in range(21 - n)]}})
        # every writer format and both entry points against documents with / without errors
        for _ in range(200 if quick else 4000):
            dirt = rng.choice([0.0, 0.0, 0.05, 0.3])
            ids = id_source(rng, 0.2 if dirt else 0.0)
            secs = []
            for _ in range(rng.choice([1, 2])):
                secs.append(gen_sec(rng, ids, 1, STRS[:20], dirt, [x["name"] for x in secs]))
            cases.append({"stream": "save2", "kind": "doc", "node": {"id": ids(), "secs": secs},
                          "save": {"fmt": rng.choice(SAVE_FORMATS[1:]), "entry": rng.choice(["writer", "odml.save"])}})
        # ---- streams added after the third seeded round (appended, the ones above are unchanged)
        for _ in range(2500 if quick else 50000):
            cases.append({"stream": "wprop", "kind": "prop",
                          "node": gen_wide_prop(rng, id_source(rng, 0.0), STRS, rng.choice(["p", "p", "=id"]))})
        for _ in range(1200 if quick else 25000):
            cases.append(gen_values_case(rng, STRS))
        for _ in range(400 if quick else 8000):
            cases.append({"stream": "long", "kind": "prop", "node": gen_long_prop(rng, id_source(rng, 0.0), STRS)})
        for _ in range(500 if quick else 10000):
            cases.append({"stream": "xtype", "kind": "prop", "node": gen_exotic_prop(rng, id_source(rng, 0.0), STRS)})
        for _ in range(300 if quick else 6000):
            cases.append(gen_depshape_case(rng, STRS))
        # every boundary date / time / datetime once in each of the three temporal dtypes and without
        # a dtype, as an object and as text in the documented layout, below the API and through it
        for day in W_DATES:
            for clock in (W_TIMES[0], W_TIMES[3]):
                objs = [{"d": "date", "v": day}, {"d": "time", "v": clock, "tz": None},
                        {"d": "datetime", "v": day + clock, "tz": None}]
                texts = [{"s": "%s-%s-%s" % (pad(day[0], 4), pad(day[1], 2), pad(day[2], 2))},
                         {"s": "%s:%s:%s" % tuple(pad(x, 2) for x in clock[:3])}]
                texts.append({"s": texts[0]["s"] + " " + texts[1]["s"]})
                for dtype in ("date", "time", "datetime", None):
                    for val in objs + texts:
                        for how in ({"raw": True}, {"via": "ctor"}, {"via": "setter"}):
                            node = {"id": "p", "name": "p", "dtype": dtype, "values": [val], "card": None}
                            node.update(how)
                            cases.append({"stream": "tgrid", "kind": "prop", "node": node})
        # ---- stream added after the fifth seeded round (appended, the ones above are unchanged)
        for _ in range(2500 if quick else 40000):
            cases.append(gen_keys_case(rng, STRS))
        # ---- stream added after the sixth seeded round (appended, the ones above are unchanged)
        for _ in range(1500 if quick else 30000):
            cases.append(gen_session_case(rng, STRS))
        return cases

    @staticmethod
    def preload_terminology():
        """load the terminology file once in the parent process: the forked workers inherit the parsed
        document instead of racing for the library's cache file"""
        url = term_url()
        if url is None:
            return
        try:
            import odml.terminology
            odml.terminology.load(url)
        except Exception:
            pass

    # -- implementation ------------------------------------------------------
    def impl(self, case):
        before = set(threading.enumerate())
        try:
            return self.impl_inner(case)
        finally:
            # the include setter starts loader threads that print; they finish inside this case
            for thread in threading.enumerate():
                if thread not in before and thread is not threading.current_thread():
                    thread.join(10)

    def impl_inner(self, case):
        try:
            root, bt = build(case)
        except Exception as exc:
            return {"build_failed": fw.exc_name(exc)}
        hist = None
        pre = None
        target = root
        if "ops" in case or "view" in case:
            if case.get("pre"):
                pre = self.observe(root, [])
            try:
                root, hist = run_history(case, root, bt, self)
                target = pick_view(case, root)
            except HistoryTooLong:
                return {"skipped": "the history did not finish within its budget"}
            except Exception as exc:
                return {"build_failed": fw.exc_name(exc)}
        obs = self.observe(target, hist.stale if hist is not None else [])
        obs["below_api"] = bt.below_api
        if pre is not None:
            obs["pre"] = dict((k, pre[k]) for k in ("kind", "node", "issues", "crash", "unsupported") if k in pre)
            obs["oracle"] += ["before the history: " + f for f in pre["oracle"]]
        if hist is not None:
            obs["history"] = {"applied": hist.applied, "refused": hist.refused}
            obs["features"] = self.features(root)
            obs["oracle"] += hist.mid
            if hist.saves:
                obs["saves"] = hist.saves
        if case.get("save") and obs["kind"] == "doc":
            how = case["save"] if isinstance(case["save"], dict) else {}
            rec = self.judged_save(target, how.get("fmt", "XML"), how.get("entry", "writer"), hist)
            obs["save"] = rec["outcome"]
            obs["save_errors_expected"] = rec["errors_expected"]
            obs["save_fmt"] = rec["fmt"]
            obs["save_file"] = rec["file"]
        if hist is not None and hist.log:
            obs["sessions"] = hist.sessions()
        return obs

    def observe(self, target, stale):
        """snapshot, model node, Validation(target) and every other way of validating the same object"""
        from odml.validation import Validation
        kind, snap, refs = snapshot(target)
        obs = {"kind": kind, "snapshot": jsonable(snap)}
        try:
            obs["node"] = model_node(kind, snap)
        except Unsupported as exc:
            obs["unsupported"] = str(exc)
        try:
            val = Validation(target)
            obs["issues"] = issue_list(val.errors, refs)
            obs["crash"] = None
        except Exception as exc:
            obs["issues"] = []
            obs["crash"] = fw.exc_name(exc)
        # what the oracle needs is computed here (the snapshot holds live Python values)
        ex = expectation(kind, snap)
        obs["oracle"] = judge(ex, obs["issues"], obs["crash"])
        if obs["crash"] is None:
            obs["oracle"] += rank_flags(val.errors, refs)
        # "Validating any document, Section or Property": every public way of running the validation
        # (a Validation object run again, filled later, asked for its report, made before the last
        # edits; Document.validate) is held to the same rules.  Only deviating results are kept.
        alt = {}
        for name, run in self.entries(target, stale):
            try:
                issues, crash = issue_list(run(), refs), None
            except Exception as exc:
                issues, crash = [], fw.exc_name(exc)
            if issues != obs["issues"] or crash != obs["crash"]:
                alt[name] = {"issues": issues, "crash": crash}
                obs["oracle"] += ["%s: %s" % (name, f) for f in judge(ex, issues, crash)]
        if alt:
            obs["alt"] = alt
        return obs

    @staticmethod
    def entries(target, stale):
        from odml.validation import Validation

        def rerun():
            val = Validation(target)
            val.run_validation()
            return val.errors

        def report():
            val = Validation(target)
            val.report()
            return val.errors

        def deferred():
            val = Validation(target, validate=False)
            val.run_validation()
            return val.errors

        out = [("run_validation() a second time", rerun), ("errors after report()", report),
               ("Validation(validate=False).run_validation()", deferred)]
        if target.format().name not in ("section", "property"):
            out.append(("Document.validate()", lambda: target.validate().errors))
        for k, val in enumerate(stale[:4]):
            if getattr(val, "obj", None) is target:
                def again(val=val):
                    val.run_validation()
                    return val.errors
                out.append(("Validation object #%d made earlier in the history, run again" % k, again))
        return out

    @staticmethod
    def features(root):
        """which of the other library features are present in the final tree (for the distribution)"""
        out = {"link": 0, "include": 0, "merged": 0}
        try:
            secs = list(root.itersections(recursive=True))
        except Exception:
            return out
        for sec in secs:
            out["link"] += sec.link is not None
            out["include"] += sec.include is not None
            out["merged"] += bool(sec.is_merged)
        return out

    @staticmethod
    def must_codes(kind, snap):
        return C08.must_codes_ex(expectation(kind, snap))

    @staticmethod
    def must_codes_ex(ex):
        out = list(ex.must.keys())
        for code, _m, reportable, needed in ex.groups:
            if needed > 0 and reportable:
                out.append((reportable[0], 200 if code == "ids" else code))
        return out

    def judged_save(self, doc, fmt, entry, hist, slot=None, kw=None):
        """one save attempt together with what the property says about the document at that moment"""
        from odml.validation import Validation
        kind, snap, refs = snapshot(doc)
        ex = expectation(kind, snap)
        try:
            issues, crash = issue_list(Validation(doc).errors, refs), None
        except Exception as exc:
            issues, crash = [], fw.exc_name(exc)
        info = {}
        outcome = self.try_save(doc, fmt, entry, hist.writers if hist is not None else None, slot, kw, info)
        errors_expected = any(code in (101, 200, 201, 202, 203) for (_r, code) in self.must_codes_ex(ex))
        error_reported = any(i[2] == ERR for i in issues)
        if outcome == "ParserException" and not errors_expected and not error_reported:
            # The writer backends raise ParserException themselves for content they cannot write (a
            # tuple value with a line break).  That is not the validation blocking the save: when
            # the serialisation alone (to_string runs no validation) fails as well, no opinion.
            try:
                from odml.tools.odmlparser import ODMLWriter
                ODMLWriter(fmt).to_string(doc)
            except Exception as exc:
                outcome = "other:the %s backend cannot write this document (%s)" % (fmt, fw.exc_name(exc))
        if hist is not None:
            # the call as the model's writer session sees it (seeded round 6)
            try:
                node = model_node(kind, snap)
            except Unsupported:
                node = None
            if entry == "odml.save":
                hist.fresh += 1
                wkey = "fresh#%d" % hist.fresh
            else:
                wkey = self.writer_key(fmt, slot)
            seen = "raised" if crash is not None else \
                {"saved": "written", "ParserException": "refused"}.get(outcome)
            hist.log.append((wkey, fmt, node, seen))
        return {"fmt": fmt, "entry": entry, "outcome": outcome, "crash": crash,
                "errors_expected": errors_expected, "error_reported": error_reported,
                "judged_clean": not judge(ex, issues, crash), "file": info.get("file")}

    @staticmethod
    def writer_key(fmt, slot):
        return fmt if slot is None else "%s#%s" % (fmt, slot)

    @staticmethod
    def writer_for(writers, fmt, slot):
        """the writer object of that format (and slot) of this case: made once, then reused"""
        from odml.tools.odmlparser import ODMLWriter
        if writers is None:
            return ODMLWriter(fmt)
        key = C08.writer_key(fmt, slot)
        if key not in writers:
            writers[key] = ODMLWriter(fmt)
        return writers[key]

    @staticmethod
    def try_save(doc, fmt="XML", entry="writer", writers=None, slot=None, kw=None, info=None):
        try:
            from odml.tools.parser_utils import ParserException
        except ImportError:
            ParserException = None
        _SCRATCH["n"] = _SCRATCH.get("n", 0) + 1
        path = os.path.join(scratch_dir(), "out_%d_%d.%s" % (os.getpid(), _SCRATCH["n"], fmt.lower()))
        try:
            try:
                if entry == "odml.save":
                    import odml
                    odml.save(doc, path, fmt, **(kw or {}))
                else:
                    # the same writer object serves every save of one case
                    C08.writer_for(writers, fmt, slot).write_file(doc, path, **(kw or {}))
                return "saved"
            except Exception as exc:
                if ParserException is not None and isinstance(exc, ParserException):
                    return "ParserException"
                return "other:" + fw.exc_name(exc)
        finally:
            if info is not None:
                # was anything written?  (every attempt has a path of its own)
                try:
                    info["file"] = os.path.isfile(path) and os.path.getsize(path) > 0
                except OSError:
                    info["file"] = None
            try:
                os.remove(path)
            except OSError:
                pass

    # -- model ---------------------------------------------------------------
    @staticmethod
    def request_plan(obs):
        """[(label, request)] in the order they are sent"""
        plan = []
        if "node" in obs:
            plan.append(("main", {"p": "C08", "op": "validate", "kind": obs["kind"], "node": obs["node"]}))
            if "save" in obs:
                plan.append(("save", {"p": "C08", "op": "blocks_save", "node": obs["node"]}))
        pre = obs.get("pre")
        if pre and "node" in pre:
            plan.append(("pre", {"p": "C08", "op": "validate", "kind": pre["kind"], "node": pre["node"]}))
        # one request per writer object of the case: the documents it was handed, in call order
        for k, sess in enumerate(obs.get("sessions", [])):
            plan.append(("session%d" % k, {"p": "C08", "op": "session", "parser": sess["parser"],
                                           "nodes": sess["nodes"]}))
        return plan

    def model_requests(self, case, obs):
        if "build_failed" in obs or "skipped" in obs:
            return []
        return [req for _label, req in self.request_plan(obs)]

    @staticmethod
    def compare_validation(a, issues, crash, where):
        out = []
        if a["crash"] != (crash is not None):
            out.append("%smodel crash=%s, implementation raised %s" % (where, a["crash"], crash))
        elif not a["crash"]:
            mine = sorted(a["issues"], key=lambda x: (x[0], x[1], x[2]))
            theirs = [list(x) for x in issues]
            if mine != theirs:
                extra = [x for x in mine if x not in theirs]
                missing = [x for x in theirs if x not in mine]
                out.append("%sissue multisets differ: model-only %s, implementation-only %s (sizes %d/%d)"
                           % (where, extra[:4], missing[:4], len(mine), len(theirs)))
        return out

    def compare(self, case, obs, answers):
        out = []
        if "build_failed" in obs or "skipped" in obs or not answers:
            return out
        by = dict((label, ans) for (label, _req), ans in zip(self.request_plan(obs), answers))
        if "main" in by:
            out += self.compare_validation(by["main"], obs["issues"], obs["crash"], "")
            if "save" in by and not by["main"]["crash"]:
                if by["save"] != (obs["save"] == "ParserException"):
                    out.append("model blocks_save=%s, implementation save outcome %s" % (by["save"], obs["save"]))
        if "pre" in by:
            out += self.compare_validation(by["pre"], obs["pre"]["issues"], obs["pre"]["crash"],
                                           "before the history: ")
        for k, sess in enumerate(obs.get("sessions", [])):
            ans = by.get("session%d" % k)
            if ans is None:
                continue
            # an outcome of the backend's own (content it cannot write) is None here: not compared
            diff = [(i, m, s) for i, (m, s) in enumerate(zip(ans, sess["outcomes"])) if s is not None and m != s]
            if diff or len(ans) != len(sess["outcomes"]):
                out.append("writer session (%s, %d calls): (call, model, implementation) differ: %s"
                           % (sess["parser"], len(sess["outcomes"]), diff[:4]))
        return out

    # -- oracle --------------------------------------------------------------
    def oracle(self, case, obs):
        if "harness_exception" in obs or "skipped" in obs:
            return []
        if "build_failed" in obs:
            return ["building the objects through the API raised %s" % obs["build_failed"]]
        out = list(obs.get("oracle", []))
        if "save" in obs and obs["crash"] is None:
            if obs["save_errors_expected"] and obs["save"] != "ParserException":
                out.append("document with validation errors: save outcome %s" % obs["save"])
            if not obs["save_errors_expected"] and obs["save"] == "ParserException" and \
                    not any(i[2] == ERR for i in obs["issues"]):
                out.append("document without any error-rank issue was refused by save")
            if not obs["save_errors_expected"] and obs["save"] == "ParserException" and \
                    not [f for f in out]:
                out.append("document whose only issues are warnings was refused by save")
            out += self.file_clauses("", obs["save"], obs.get("save_file"))
        # saves in the middle of a history: the same three clauses, over the document of that moment
        for k, rec in enumerate(obs.get("saves", [])):
            if rec["crash"] is not None:
                continue
            where = "save #%d in the history (%s, %s): " % (k, rec["fmt"], rec["entry"])
            if rec["errors_expected"] and rec["outcome"] != "ParserException":
                out.append(where + "document with validation errors: save outcome %s" % rec["outcome"])
            if not rec["errors_expected"] and rec["outcome"] == "ParserException" and not rec["error_reported"]:
                out.append(where + "document without any error-rank issue was refused by save")
            if not rec["errors_expected"] and rec["outcome"] == "ParserException" and rec["judged_clean"]:
                out.append(where + "document whose only issues are warnings was refused by save")
            out += self.file_clauses(where, rec["outcome"], rec.get("file"))
        return out

    @staticmethod
    def file_clauses(where, outcome, wrote):
        """"block saving" taken at its word: a save that returns has written something, a refused one
        has written nothing (every attempt goes to a path of its own)"""
        if wrote is None:
            return []
        if outcome == "saved" and not wrote:
            return [where + "the save returned without an exception but no file was written"]
        if outcome == "ParserException" and wrote:
            return [where + "the save was refused but a file was written all the same"]
        return []

    def tag(self, case, obs):
        st = case["stream"]
        if "skipped" in obs:
            return (st + ":skipped", False)
        if "build_failed" in obs:
            return (st + ":build_failed", False)
        if obs.get("crash"):
            return (st + ":crash", True)
        if "unsupported" in obs:
            return (st + ":unsupported", False)
        codes = sorted(set(i[1] for i in obs.get("issues", []) if i[1] is not None))
        any_issue = bool(codes)
        if st == "ops":
            feat = obs.get("features", {})
            what = "+".join(k for k in ("link", "include", "merged") if feat.get(k)) or "plain"
            view = obs.get("kind")
            return ("ops:%s:%s:%s" % (what, view, "issues" if any_issue else "clean"), any_issue)
        if st == "wsess":
            outs = [o for sess_ in obs.get("sessions", []) for o in sess_["outcomes"]]
            recs = obs.get("saves", [])
            seq = "".join({"ParserException": "R", "saved": "W"}.get(r["outcome"], "o") for r in recs)
            what = "refused-then-written" if "RW" in seq else "written-then-refused" if "WR" in seq else \
                "all-written" if seq and set(seq) == {"W"} else "all-refused" if seq and set(seq) == {"R"} else "mixed"
            return ("wsess:%s" % what, bool(outs) or any_issue)
        if st in ("vals", "keys"):
            return ("%s:%s:%s" % (st, obs.get("kind"), "issues" if any_issue else "clean"), any_issue)
        if st in ("doc", "sub", "sec", "shape", "save2"):
            return ("%s:%s" % (st, "issues" if any_issue else "clean"), any_issue)
        return ("%s:%s" % (st, ",".join(str(c) for c in codes) or "clean"), any_issue)

    def finding_key(self, case, obs, failure):
        return None


if __name__ == "__main__":
    sys.exit(fw.main(C08(), sys.argv[1:]))
