# -*- coding: utf-8 -*-
"""
C08 - Validation reports exactly the issues the documented rules prescribe.

Tie between lean/OdmlModel/Model/Valid.lean and /repo/odml/validation.py.

A case is a small tree description.  The harness builds it with the public API (constructors
with oid=, parent=, public setters), falls back to private attributes only where the API
refuses what the property calls "made invalid on purpose" (duplicate sibling names, empty
names, values that do not fit the dtype), reads the built objects back through the public
getters (the *snapshot*), runs `Validation(root)` and
  - compares the multiset of (object, IssueID, rank) with the compiled Lean model run on the
    snapshot (correspondence),
  - evaluates the property restated over the snapshot (oracle, independent of the model).
"""
import datetime as dt
import os
import shutil
import sys
import tempfile
import uuid

import framework as fw

NS = uuid.UUID("12345678-1234-5678-1234-567812345678")

ERR, WARN = "error", "warning"
RANK_OF = {101: ERR, 200: ERR, 201: ERR, 202: ERR, 203: ERR,
           102: WARN, 300: WARN, 401: WARN, 402: WARN, 403: WARN, 500: WARN, 501: WARN, 502: WARN}

DATE = dt.date(2020, 1, 2)
TIME = dt.time(12, 30, 0)
DATETIME = dt.datetime(2020, 1, 2, 12, 30, 0)


def tok_id(tok):
    return str(uuid.uuid5(NS, tok))


# ----------------------------------------------------------------------------- values
def val_to_py(enc):
    if enc is None:
        return None
    if "i" in enc:
        return enc["i"]
    if "b" in enc:
        return enc["b"]
    if "s" in enc:
        return enc["s"]
    if "fl" in enc:
        return float(enc["fl"])
    if "d" in enc:
        return {"date": DATE, "time": TIME, "datetime": DATETIME}[enc["d"]]
    if "l" in enc:
        return [str(k) for k in range(enc["l"])]
    raise ValueError(enc)


def val_to_model(v):
    """Python value as stored -> driver encoding, or raises Unsupported."""
    if v is None:
        return None
    if isinstance(v, bool):
        return {"b": v}
    if isinstance(v, int):
        if abs(v) > 10 ** 15:
            raise Unsupported("huge int")
        return {"i": v}
    if isinstance(v, float):
        if v != v:
            return {"f": "nan"}
        if v in (float("inf"), float("-inf")):
            return {"f": "inf"}
        return {"f": "zero" if v == 0 else "one" if v == 1 else "finite"}
    if isinstance(v, str):
        if not v.isascii() or "_" in v:
            raise Unsupported("non-ascii / underscore string value")
        return {"s": v}
    if isinstance(v, dt.datetime):
        return {"d": "datetime"}
    if isinstance(v, dt.date):
        return {"d": "date"}
    if isinstance(v, dt.time):
        return {"d": "time"}
    if isinstance(v, (list, tuple)):
        return {"l": len(v)}
    raise Unsupported("value of type %s" % type(v).__name__)


class Unsupported(Exception):
    pass


def card_to_model(c):
    if c is None:
        return None
    if isinstance(c, tuple) and len(c) == 2 and all(x is None or (isinstance(x, int) and not isinstance(x, bool))
                                                     for x in c):
        return [c[0], c[1]]
    raise Unsupported("cardinality %r" % (c,))


def opt_str(x, what):
    if x is None or isinstance(x, str):
        return x
    raise Unsupported("%s of type %s" % (what, type(x).__name__))


# ----------------------------------------------------------------------------- building
def set_name(obj, wanted):
    """Public setter first; the private attribute only when the API refuses or rewrites."""
    try:
        obj.name = wanted
    except Exception:
        pass
    if obj.name != wanted:
        obj._name = wanted


class Built(object):
    def __init__(self):
        self.counter = 0
        self.below_api = 0

    def tmp(self):
        self.counter += 1
        return "tmp%d" % self.counter


def build_prop(spec, parent, bt):
    import odml
    vals = [val_to_py(v) for v in spec.get("values", [])]
    dtype = spec.get("dtype")
    prop = None
    if not spec.get("raw"):
        try:
            prop = odml.Property(name=bt.tmp(), oid=tok_id(spec["id"]), values=vals, dtype=dtype)
            same = prop.dtype == dtype or dtype is None
            same = same and len(prop.values) == len(vals) and \
                all(type(a) is type(b) and (a == b or a != a) for a, b in zip(prop.values, vals))
            if not same:
                prop = None
        except Exception:
            prop = None
    if prop is None:
        prop = odml.Property(name=bt.tmp(), oid=tok_id(spec["id"]))
        prop._dtype = dtype
        prop._values = list(vals)
        bt.below_api += 1
    if spec.get("dep") is not None:
        prop.dependency = spec["dep"]
    if spec.get("dv") is not None:
        prop.dependency_value = spec["dv"]
    if spec.get("card") is not None:
        prop.val_cardinality = tuple(spec["card"])
    if parent is not None:
        parent.append(prop)
    return prop


def build_sec(spec, parent, bt, later):
    import odml
    sec = odml.Section(name=bt.tmp(), type="t", oid=tok_id(spec["id"]), parent=parent)
    sec.type = spec.get("type")
    if spec.get("sc") is not None:
        sec.sec_cardinality = tuple(spec["sc"])
    if spec.get("pc") is not None:
        sec.prop_cardinality = tuple(spec["pc"])
    for ps in spec.get("props", []):
        later.append((build_prop(ps, sec, bt), ps))
    for ss in spec.get("subs", []):
        build_sec(ss, sec, bt, later)
    later.append((sec, spec))
    return sec


def resolve_name(obj, spec):
    name = spec.get("name")
    return obj.id if name == "=id" else name


def build(case):
    """-> (root object, Built)"""
    import odml
    bt = Built()
    later = []
    kind = case["kind"]
    if kind == "prop":
        root = build_prop(case["node"], None, bt)
        later.append((root, case["node"]))
    elif kind == "sec":
        root = build_sec(case["node"], None, bt, later)
    else:
        root = odml.Document(oid=tok_id(case["node"]["id"]))
        for ss in case["node"].get("secs", []):
            build_sec(ss, root, bt, later)
    for obj, spec in later:
        set_name(obj, resolve_name(obj, spec))
    if kind == "sub":
        for i in case["at"]:
            root = root.sections[i]
    return root, bt


# ----------------------------------------------------------------------------- snapshot
def snap_prop(p, refs, ref):
    refs[id(p)] = ref
    return {"id": p.id, "name": p.name, "dtype": p.dtype, "values": list(p.values),
            "dep": p.dependency, "dv": p.dependency_value, "card": p.val_cardinality}


def path_str(path):
    return "".join("/%d" % i for i in path)


def snap_sec(s, refs, path):
    refs[id(s)] = "S" + path_str(path)
    return {"id": s.id, "name": s.name, "type": s.type, "sc": s.sec_cardinality,
            "pc": s.prop_cardinality,
            "props": [snap_prop(p, refs, "P%s#%d" % (path_str(path), i))
                      for i, p in enumerate(s.properties)],
            "subs": [snap_sec(c, refs, path + [i]) for i, c in enumerate(s.sections)]}


def snapshot(root):
    """Public-API read-back of the tree under root -> (kind, python snapshot, id(obj) -> ref)."""
    refs = {}
    fname = root.format().name
    if fname == "property":
        return "prop", snap_prop(root, refs, "P#0"), refs
    if fname == "section":
        return "sec", snap_sec(root, refs, []), refs
    refs[id(root)] = "D"
    return "doc", {"id": root.id, "secs": [snap_sec(c, refs, [i]) for i, c in enumerate(root.sections)]}, refs


def model_prop(p):
    return {"id": opt_str(p["id"], "id"), "name": opt_str(p["name"], "name") or "",
            "dtype": opt_str(p["dtype"], "dtype"),
            "values": [val_to_model(v) for v in p["values"]],
            "dep": opt_str(p["dep"], "dependency"), "dv": opt_str(p["dv"], "dependency_value"),
            "card": card_to_model(p["card"])}


def model_sec(s):
    if s["name"] is None or not isinstance(s["name"], str):
        raise Unsupported("section name %r" % (s["name"],))
    return {"id": opt_str(s["id"], "id"), "name": s["name"], "type": opt_str(s["type"], "type"),
            "sc": card_to_model(s["sc"]), "pc": card_to_model(s["pc"]),
            "props": [model_prop(p) for p in s["props"]], "subs": [model_sec(c) for c in s["subs"]]}


def model_node(kind, snap):
    if kind == "prop":
        if snap["name"] is None:
            raise Unsupported("property name None")
        return model_prop(snap)
    if kind == "sec":
        return model_sec(snap)
    return {"id": opt_str(snap["id"], "id"), "secs": [model_sec(c) for c in snap["secs"]]}


def jsonable(snap):
    """snapshot with values replaced by their driver encoding (or a repr when unsupported)."""
    def val(v):
        try:
            return val_to_model(v)
        except Unsupported:
            return {"unsupported": repr(v)}

    def prop(p):
        q = dict(p)
        q["values"] = [val(v) for v in p["values"]]
        q["card"] = list(p["card"]) if isinstance(p["card"], tuple) else p["card"]
        return q

    def sec(s):
        q = dict(s)
        q["sc"] = list(s["sc"]) if isinstance(s["sc"], tuple) else s["sc"]
        q["pc"] = list(s["pc"]) if isinstance(s["pc"], tuple) else s["pc"]
        q["props"] = [prop(p) for p in s["props"]]
        q["subs"] = [sec(c) for c in s["subs"]]
        return q
    if "secs" in snap:
        return {"id": snap["id"], "secs": [sec(c) for c in snap["secs"]]}
    if "subs" in snap:
        return sec(snap)
    return prop(snap)


def issue_list(errors, refs):
    out = []
    for e in errors:
        vid = getattr(e.validation_id, "value", None)
        out.append([refs.get(id(e.obj), "?"), vid, e.rank])
    return sorted(out, key=lambda x: (x[0], x[1] if x[1] is not None else -1, str(x[2])))


# ----------------------------------------------------------------------------- oracle helpers
def outside(card, n):
    if not card:
        return False
    lo, hi = card
    return bool((lo and n < lo) or (hi and n > hi))


def value_fits(v, dtype):
    """Does the stored value fit the dtype, by the library's own converters (odml.dtypes)."""
    from odml import dtypes
    if dtype.endswith("-tuple"):
        try:
            n = int(dtype[:-6])
        except ValueError:
            return None
        return hasattr(v, "__len__") and len(v) == n
    try:
        dtypes.get(v, dtype)
        return True
    except Exception:
        return False


class Expect(object):
    """must: issues that have to be reported; may: issues on which the property is silent."""

    def __init__(self):
        self.must = {}      # (ref, code) -> minimal count
        self.may = set()    # (ref, code) allowed but not required
        self.groups = []    # (code, [refs], reportable refs, needed) : duplicates, any k-1 of them
        self.no_opinion_refs = set()
        self.may_raise = False

    def need(self, ref, code, n=1):
        if n:
            self.must[(ref, code)] = self.must.get((ref, code), 0) + n


def expect_prop(p, ref, siblings, ex, validated=True):
    if not validated:
        ex.no_opinion_refs.add(ref)
        return
    if not p["name"]:
        ex.need(ref, 101)
    if p["name"] == p["id"]:
        ex.need(ref, 300)
    # dependency
    dep = p["dep"]
    if dep is not None and siblings is not None:
        target = None
        for q in siblings:
            if q["name"] == dep:
                target = q
                break
        if target is None:
            ex.need(ref, 401)
        else:
            dv = p["dv"]
            if dv is None or any(type(v) is type(dv) and v == dv for v in target["values"]):
                pass
            elif isinstance(dv, str) and not any(v == dv or str(v) == dv for v in target["values"]):
                ex.need(ref, 401)
            else:
                ex.may.add((ref, 401))
    # values vs dtype
    dtype = p["dtype"]
    vals = p["values"]
    if dtype is None or dtype == "":
        dtype = None
        if vals:
            from odml import dtypes
            dtype = dtypes.infer_dtype(vals[0])
    if dtype is not None and isinstance(dtype, str):
        bad = 0
        for v in vals:
            if v is None:
                break
            fits = value_fits(v, dtype)
            if fits is None:
                ex.may_raise = True
                ex.may.add((ref, 402))
                bad = 0
                break
            if not fits:
                bad += 1
        ex.need(ref, 402, bad)
    ex.may.add((ref, 403))          # the prototype rule is not part of the property text
    if outside(p["card"], len(vals)):
        ex.need(ref, 502)


def dup_groups(items, key):
    """items: [(ref, snapshot)] in document order -> groups of refs sharing a key (size >= 2)."""
    seen = {}
    for ref, it in items:
        seen.setdefault(key(it), []).append(ref)
    return [g for g in seen.values() if len(g) >= 2]


def expect_sec(s, path, ex, is_root):
    ref = "S" + path_str(path)
    if not s["name"]:
        ex.need(ref, 101)
    if not s["type"] and not isinstance(s["type"], bool):
        ex.need(ref, 101)
    if s["type"] == "n.s.":
        ex.need(ref, 102)
    if s["name"] == s["id"]:
        ex.need(ref, 300)
    if outside(s["pc"], len(s["props"])):
        ex.need(ref, 500)
    if outside(s["sc"], len(s["subs"])):
        ex.need(ref, 501)
    prefs = [("P%s#%d" % (path_str(path), i), p) for i, p in enumerate(s["props"])]
    for g in dup_groups(prefs, lambda p: p["name"]):
        ex.groups.append((203, g, g, len(g) - 1))
    srefs = [("S" + path_str(path + [i]), c) for i, c in enumerate(s["subs"])]
    for g in dup_groups(srefs, lambda c: (c["name"], c["type"])):
        ex.groups.append((202, g, g, len(g) - 1))
    for pref, p in prefs:
        # a stand-alone root Section: the property text does not say whether its own
        # Properties are validated; the implementation does not.  No opinion.
        expect_prop(p, pref, s["props"], ex, validated=not is_root)
    for i, c in enumerate(s["subs"]):
        expect_sec(c, path + [i], ex, False)


def all_ids(s, path, out):
    for i, p in enumerate(s["props"]):
        out.append(("P%s#%d" % (path_str(path), i), p["id"]))
    out.append(("S" + path_str(path), s["id"]))
    for i, c in enumerate(s["subs"]):
        all_ids(c, path + [i], out)


def expectation(kind, snap):
    ex = Expect()
    if kind == "prop":
        expect_prop(snap, "P#0", None, ex)
    elif kind == "sec":
        expect_sec(snap, [], ex, True)
    else:
        srefs = [("S/%d" % i, c) for i, c in enumerate(snap["secs"])]
        for g in dup_groups(srefs, lambda c: (c["name"], c["type"])):
            ex.groups.append((202, g, g, len(g) - 1))
        ids = [("D", snap["id"])]
        for i, c in enumerate(snap["secs"]):
            expect_sec(c, [i], ex, False)
            all_ids(c, [i], ids)
        by = {}
        for ref, oid in ids:
            by.setdefault(oid, []).append(ref)
        for g in by.values():
            if len(g) >= 2:
                rep = [r for r in g if r != "D"]
                ex.groups.append(("ids", g, rep, len(g) - 1))
    return ex


def judge(ex, issues, crashed):
    """-> list of failure strings"""
    out = []
    if crashed is not None:
        if not ex.may_raise:
            out.append("validation raised %s" % crashed)
        return out
    counts = {}
    for ref, code, rank in issues:
        counts[(ref, code)] = counts.get((ref, code), 0) + 1
        want = RANK_OF.get(code)
        if want is not None and rank != want:
            out.append("issue %s on %s has rank %s, documented rank is %s" % (code, ref, rank, want))
    grouped = {}
    for code, members, reportable, needed in ex.groups:
        if code == "ids":
            got = sum(counts.get((r, 200), 0) + counts.get((r, 201), 0) for r in reportable)
            if got < needed:
                out.append("objects %s share an id: %d duplicate-id errors reported, at least %d expected"
                           % (members, got, needed))
            for r in reportable:
                grouped[(r, 200 if r.startswith("S") else 201)] = True
            continue
        got = sum(1 for r in reportable if counts.get((r, code), 0) > 0)
        if code in (202, 203) and got < needed:
            out.append("siblings %s share the key: %d reported with %s, at least %d expected"
                       % (members, got, code, needed))
        for r in reportable:
            grouped[(r, code)] = True
    for (ref, code), n in ex.must.items():
        if counts.get((ref, code), 0) < n:
            out.append("rule %s is violated at %s (x%d) but %d issue(s) reported"
                       % (code, ref, n, counts.get((ref, code), 0)))
    for (ref, code), n in counts.items():
        if ref in ex.no_opinion_refs and code not in (203,):
            continue
        if (ref, code) in ex.must:
            if n > ex.must[(ref, code)]:
                out.append("issue %s reported %d times for %s, the rule is violated %d time(s) there"
                           % (code, n, ref, ex.must[(ref, code)]))
            continue
        if (ref, code) in ex.may or (ref, code) in grouped:
            continue
        out.append("issue %s reported for %s although the rule is not violated there" % (code, ref))
    return out


# ----------------------------------------------------------------------------- generation
NAMES = ["a", "b", "ab", "c", "a", "b", "", "=id"]
TYPES = ["t", "t", "u", "n.s.", None, ""]
STRS = ["1", "-3", " 7 ", "+5", "--5", "1.5", "-1.5", "1e3", "1.", ".5", "inf", "-inf", "nan", "abc", "",
        "true", "T", "FALSE", "False", "f", "ff", "fa", "0", "t", "tx", "TRUEx",
        "2020-01-02", "2020-1-2", "2020-02-30", "2020-02-29", "2019-02-29", "2020-13-01", "0000-01-01",
        "20-1-2", "99999-1-1", "2020-01- 5", "2020-00-10", "2020-01-32", "2020-01-0",
        "12:30:00", "1:2:3", "24:00:00", "12:30:61", "12:30", "12:60:00", "12:30:5", "123:00:00",
        "2020-01-02 12:30:00", "2020-01-02  12:30:00", "2020-01-02T12:30:00", "2020-01-02 12:30",
        "2020-1-2 1:2:3", "2020-01-02\t12:30:00", "2020-01-0212:30:00",
        "(1;2)", "(1;2;3)", "(a", "x(1)", " (1;2) ", "(1)", "()", "(1\n)", "(;)",
        "a\nb", "a\rb", " x ", "1;2", "e5", "1e", "1e+2", "+-1", "1 2", "0x1", "12abc", "(a)b"]
ALPHA = list("0129-:. ()tfTRUEFALSalse;e+\n") + ["\t", "\r"]
DTYPES = [None, "string", "string", "int", "float", "boolean", "date", "time", "datetime", "text", "url",
          "person", "2-tuple", "3-tuple", "1-tuple", "str", "bool", "tuple", ""]
CARDS = [None, None, None, [1, None], [2, None], [None, 1], [None, 2], [1, 2], [2, 2], [0, 1], [3, 5]]


def gen_val(rng, strs):
    r = rng.random()
    if r < 0.45:
        return {"s": rng.choice(strs)}
    if r < 0.60:
        return {"i": rng.choice([0, 1, 2, -1, 7, 100])}
    if r < 0.68:
        return {"fl": rng.choice(["0.0", "1.0", "2.5", "-0.5", "inf", "nan"])}
    if r < 0.76:
        return {"b": rng.random() < 0.5}
    if r < 0.86:
        return {"d": rng.choice(["date", "time", "datetime"])}
    if r < 0.94:
        return {"l": rng.choice([0, 1, 2, 2, 3])}
    return None


def rand_str(rng):
    return "".join(rng.choice(ALPHA) for _ in range(rng.randrange(0, 9)))


def gen_values(rng, strs):
    mode = rng.random()
    n = rng.choice([0, 1, 1, 2, 2, 3, 4])
    if mode < 0.5:                                  # homogeneous-ish
        proto = gen_val(rng, strs)
        out = []
        for _ in range(n):
            if proto is not None and "s" in proto:
                out.append({"s": rng.choice(strs)})
            elif rng.random() < 0.15:
                out.append(gen_val(rng, strs))
            else:
                out.append(proto)
        return out
    return [gen_val(rng, strs) for _ in range(n)]


FIT = {"string": [{"s": "abc"}, {"s": "x y"}, {"s": "hello"}], "text": [{"s": "a\nb"}, {"s": "abc"}],
       "int": [{"i": 1}, {"i": 2}, {"i": -1}], "float": [{"fl": "2.5"}, {"fl": "0.0"}],
       "boolean": [{"b": True}, {"b": False}], "date": [{"d": "date"}], "time": [{"d": "time"}],
       "datetime": [{"d": "datetime"}], "url": [{"s": "http://x"}], "person": [{"s": "me"}],
       "2-tuple": [{"l": 2}], "3-tuple": [{"l": 3}]}
CLASSES = [["1", "-3", "--5", " 7 "], ["1.5", "-1.5", "0.25"], ["2020-01-02", "20-1-2", "2020-13-45"],
           ["12:30:00", "12:30", "99:99"], ["2020-01-02 12:30:00", "20-1-2 12:30"],
           ["(1;2)", "(3;4)", " (5;6) "], ["(1;2;3)", "(a;b;c)"], ["(1)", "()", "(a)b"],
           ["true", "t", "TRUEx", "False", "ff", "f"], ["a\nb", "c\rd"], ["abc", "x y", "hello"]]


def fresh_name(rng, used, dirt):
    if rng.random() < dirt:
        return rng.choice(NAMES)
    for n in ["a", "b", "ab", "c", "d", "e", "f", "g"]:
        if n not in used:
            return n
    return "n%d" % len(used)


def gen_prop(rng, ids, dep_names, strs, dirt=0.6, used=()):
    if rng.random() < dirt:
        dtype = rng.choice(DTYPES)
        if rng.random() < 0.02:
            dtype = rng.choice(["x-tuple", "-tuple", "+2-tuple", " 2-tuple"])
        values = gen_values(rng, strs)
        raw = rng.random() < 0.5
    else:
        dtype = rng.choice(sorted(FIT))
        values = [rng.choice(FIT[dtype]) for _ in range(rng.choice([0, 1, 2, 3]))]
        raw = False
        if dtype == "string" and rng.random() < 0.5:
            cls = rng.choice(CLASSES)
            values = [{"s": rng.choice(cls)} for _ in range(rng.choice([1, 2, 3]))]
            if rng.random() < 0.2:
                values.append({"s": rng.choice(rng.choice(CLASSES))})
    p = {"id": ids(), "name": fresh_name(rng, used, dirt), "dtype": dtype, "values": values,
         "raw": raw, "card": rng.choice(CARDS) if rng.random() < max(dirt, 0.2) else None}
    if rng.random() < 0.5:
        p["dep"] = rng.choice(dep_names + ["zz"]) if rng.random() < 0.8 and dep_names else rng.choice(["zz", "a", "b"])
        if rng.random() < 0.7:
            p["dv"] = rng.choice(["a", "1", "abc", "true", "2.5", "x", "hello", "2"] + strs[:6])
    return p


def gen_sec(rng, ids, depth, strs, dirt=0.6, used=()):
    nsub = rng.choice([0, 0, 1, 1, 2, 3]) if depth > 0 else 0
    nprop = rng.choice([0, 1, 1, 2, 3])
    subs = []
    for _ in range(nsub):
        subs.append(gen_sec(rng, ids, depth - 1, strs, dirt, [s["name"] for s in subs]))
    dep_names = [s["name"] for s in subs if s["name"] not in ("", "=id")]
    props = []
    for _ in range(nprop):
        props.append(gen_prop(rng, ids, dep_names + [q["name"] for q in props if q["name"] not in ("", "=id")],
                              strs, dirt, [q["name"] for q in props]))
    # dependencies may also name a later sibling; make the dependency value match now and then
    for q in props:
        if "dep" in q and rng.random() < 0.3 and props:
            q["dep"] = rng.choice(props)["name"] or "a"
        if "dep" in q and "dv" in q and rng.random() < 0.4:
            tgt = [t for t in props if t["name"] == q["dep"]]
            svals = [v["s"] for t in tgt[:1] for v in t["values"] if v is not None and "s" in v]
            if svals:
                q["dv"] = rng.choice(svals)
    clean_type = rng.choice(["t", "u", "t/sub"])
    return {"id": ids(), "name": fresh_name(rng, used, dirt),
            "type": rng.choice(TYPES) if rng.random() < dirt else clean_type,
            "sc": rng.choice(CARDS) if rng.random() < max(dirt, 0.15) else None,
            "pc": rng.choice(CARDS) if rng.random() < max(dirt, 0.15) else None,
            "props": props, "subs": subs}


def id_source(rng, dup_rate):
    pool = []

    def nxt():
        if pool and rng.random() < dup_rate:
            return rng.choice(pool)
        tok = "i%d" % len(pool)
        pool.append(tok)
        return tok
    return nxt


# ----------------------------------------------------------------------------- the check
class C08(fw.Check):
    prop = "C08"
    lean_targets = ["OdmlModel.Props.C08"]
    obligations = ["C08." + t for t in [
        "registry_default_exact", "registry_modelled", "required_table", "issue_ids_agree",
        "ranks_agree", "labels_distinct", "mem_issues", "validate_total",
        "validate_total_counterexample", "required_sound_complete",
        "type_undefined_sound_complete", "name_readable_sound_complete",
        "dependency_sound_complete", "values_check_sound_complete", "string_check_sound_complete",
        "props_card_sound_complete", "secs_card_sound_complete", "vals_card_sound_complete",
        "card_report_is_outside", "unique_name_type_sound_complete",
        "unique_prop_names_sound_complete", "unique_ids_sound_complete",
        "unique_ids_only_documents", "id_entries_cover", "rank_by_id", "rank_never_confused", "blocks_save_iff",
        "every_issue_accounted"]]
    trusted_base = [
        "Lean 4.33.0 kernel; axioms propext, Classical.choice, Quot.sound only (audited per theorem)",
        "hand-written model lean/OdmlModel/Model/Valid.lean (+ Card.lean), tied to /repo by this run",
        "harness/extract_tables.py (Validation._handlers, IssueID, format._args regenerated into Lean)",
        "Driver/*.lean JSON glue; harness/framework.py, harness/c08.py",
    ]
    assumptions = [
        "names, ids, types, dtypes, dependency and dependency_value are str or None (other Python "
        "types are outside the model; the harness skips the model for them)",
        "string values are ASCII without '_' (int()/float()/strptime/\\d are modelled for ASCII); "
        "decimal exponents small enough not to overflow; ints small enough for float()",
        "sections are visited depth-first in the model, breadth-first in the code: issue multisets only",
    ]
    rule = ("random trees (depth <= 3) over small name/type/id alphabets with duplicate ids, empty names, "
            "cleared types, dependencies naming existing/missing Properties and sub-Sections, values of "
            "every Python type against every dtype (built below the API where it refuses), every "
            "cardinality/count combination; validated as Document, stand-alone Section, Section inside a "
            "Document, stand-alone Property; plus a save stream (errors block, warnings do not). "
            "Non-trivial = at least one issue reported; distinct = distinct canonical JSON of the case.")

    # -- generation ----------------------------------------------------------
    def generate(self, tier, rng):
        cases = []
        quick = tier == "quick"
        n_doc = 2500 if quick else 60000
        n_sec = 1000 if quick else 20000
        n_prop = 5000 if quick else 150000
        n_save = 150 if quick else 3000
        rstrs = STRS + [rand_str(rng) for _ in range(300 if quick else 5000)]
        for _ in range(n_doc):
            dirt = rng.choice([0.0, 0.05, 0.15, 0.6])
            ids = id_source(rng, rng.choice([0.0, 0.1, 0.3]) if dirt else 0.0)
            secs = []
            for _ in range(rng.choice([0, 1, 2, 3])):
                secs.append(gen_sec(rng, ids, rng.choice([0, 1, 2]), STRS, dirt, [x["name"] for x in secs]))
            doc = {"id": ids(), "secs": secs}
            cases.append({"stream": "doc", "kind": "doc", "node": doc})
            if doc["secs"] and rng.random() < 0.3:
                cases.append({"stream": "sub", "kind": "sub", "node": doc,
                              "at": [rng.randrange(len(doc["secs"]))]})
        for _ in range(n_sec):
            dirt = rng.choice([0.0, 0.1, 0.6])
            ids = id_source(rng, 0.1 if dirt else 0.0)
            cases.append({"stream": "sec", "kind": "sec",
                          "node": gen_sec(rng, ids, rng.choice([0, 1, 2]), STRS, dirt)})
        for _ in range(n_prop):
            ids = id_source(rng, 0.0)
            cases.append({"stream": "prop", "kind": "prop",
                          "node": gen_prop(rng, ids, [], rstrs, rng.choice([0.0, 0.6, 0.6]))})
        # every cardinality / count combination on the three kinds
        for lo in (None, 0, 1, 2, 3):
            for hi in (None, 1, 2, 3):
                if lo is None and hi is None or (lo is not None and hi is not None and lo > hi):
                    continue
                for n in range(0, 5):
                    base_p = {"id": "p", "name": "p", "dtype": "int", "values": [{"i": k} for k in range(n)],
                              "card": [lo, hi]}
                    cases.append({"stream": "card", "kind": "prop", "node": base_p})
                    sec = {"id": "s", "name": "s", "type": "t", "sc": [lo, hi], "pc": [lo, hi],
                           "props": [{"id": "p%d" % k, "name": "p%d" % k, "values": []} for k in range(n)],
                           "subs": [{"id": "c%d" % k, "name": "c%d" % k, "type": "t", "props": [], "subs": []}
                                    for k in range(4 - n)]}
                    cases.append({"stream": "card", "kind": "sec", "node": sec})
        for _ in range(n_save):
            dirt = rng.choice([0.0, 0.0, 0.05, 0.3])
            ids = id_source(rng, 0.2 if dirt else 0.0)
            secs = []
            for _ in range(rng.choice([1, 2])):
                secs.append(gen_sec(rng, ids, 1, STRS[:20], dirt, [x["name"] for x in secs]))
            doc = {"id": ids(), "secs": secs}
            cases.append({"stream": "save", "kind": "doc", "node": doc, "save": True})
        return cases

    # -- implementation ------------------------------------------------------
    def impl(self, case):
        from odml.validation import Validation
        try:
            root, bt = build(case)
        except Exception as exc:
            return {"build_failed": fw.exc_name(exc)}
        kind, snap, refs = snapshot(root)
        obs = {"kind": kind, "snapshot": jsonable(snap), "below_api": bt.below_api}
        try:
            node = model_node(kind, snap)
            obs["node"] = node
        except Unsupported as exc:
            obs["unsupported"] = str(exc)
        try:
            val = Validation(root)
            obs["issues"] = issue_list(val.errors, refs)
            obs["crash"] = None
        except Exception as exc:
            obs["issues"] = []
            obs["crash"] = fw.exc_name(exc)
        # what the oracle needs is computed here (the snapshot holds live Python values)
        obs["oracle"] = judge(expectation(kind, snap), obs["issues"], obs["crash"])
        if case.get("save") and kind == "doc":
            obs["save"] = self.try_save(root)
            errors_expected = any(code in (101, 200, 201, 202, 203)
                                  for (_r, code) in self.must_codes(kind, snap))
            obs["save_errors_expected"] = errors_expected
        return obs

    @staticmethod
    def must_codes(kind, snap):
        ex = expectation(kind, snap)
        out = list(ex.must.keys())
        for code, _m, reportable, needed in ex.groups:
            if needed > 0 and reportable:
                out.append((reportable[0], 200 if code == "ids" else code))
        return out

    @staticmethod
    def try_save(doc):
        from odml.tools.odmlparser import ODMLWriter
        try:
            from odml.tools.parser_utils import ParserException
        except ImportError:
            ParserException = None
        tmp = tempfile.mkdtemp(prefix="c08_")
        try:
            path = os.path.join(tmp, "out.xml")
            try:
                ODMLWriter("XML").write_file(doc, path)
                return "saved"
            except Exception as exc:
                if ParserException is not None and isinstance(exc, ParserException):
                    return "ParserException"
                return "other:" + fw.exc_name(exc)
        finally:
            shutil.rmtree(tmp, ignore_errors=True)

    # -- model ---------------------------------------------------------------
    def model_requests(self, case, obs):
        if "node" not in obs:
            return []
        reqs = [{"p": "C08", "op": "validate", "kind": obs["kind"], "node": obs["node"]}]
        if "save" in obs:
            reqs.append({"p": "C08", "op": "blocks_save", "node": obs["node"]})
        return reqs

    def compare(self, case, obs, answers):
        out = []
        if "build_failed" in obs or not answers:
            return out
        a = answers[0]
        if a["crash"] != (obs["crash"] is not None):
            out.append("model crash=%s, implementation raised %s" % (a["crash"], obs["crash"]))
        elif not a["crash"]:
            mine = sorted(a["issues"], key=lambda x: (x[0], x[1], x[2]))
            theirs = [list(x) for x in obs["issues"]]
            if mine != theirs:
                extra = [x for x in mine if x not in theirs]
                missing = [x for x in theirs if x not in mine]
                out.append("issue multisets differ: model-only %s, implementation-only %s (sizes %d/%d)"
                           % (extra[:4], missing[:4], len(mine), len(theirs)))
        if "save" in obs and len(answers) > 1 and not a["crash"]:
            if answers[1] != (obs["save"] == "ParserException"):
                out.append("model blocks_save=%s, implementation save outcome %s" % (answers[1], obs["save"]))
        return out

    # -- oracle --------------------------------------------------------------
    def oracle(self, case, obs):
        if "harness_exception" in obs:
            return []
        if "build_failed" in obs:
            return ["building the objects through the API raised %s" % obs["build_failed"]]
        out = list(obs.get("oracle", []))
        if "save" in obs and obs["crash"] is None:
            if obs["save_errors_expected"] and obs["save"] != "ParserException":
                out.append("document with validation errors: save outcome %s" % obs["save"])
            if not obs["save_errors_expected"] and obs["save"] == "ParserException" and \
                    not any(i[2] == ERR for i in obs["issues"]):
                out.append("document without any error-rank issue was refused by save")
            if not obs["save_errors_expected"] and obs["save"] == "ParserException" and \
                    not [f for f in out]:
                out.append("document whose only issues are warnings was refused by save")
        return out

    def tag(self, case, obs):
        st = case["stream"]
        if "build_failed" in obs:
            return (st + ":build_failed", False)
        if obs.get("crash"):
            return (st + ":crash", True)
        if "unsupported" in obs:
            return (st + ":unsupported", False)
        codes = sorted(set(i[1] for i in obs.get("issues", []) if i[1] is not None))
        any_issue = bool(codes)
        if st in ("doc", "sub", "sec"):
            return ("%s:%s" % (st, "issues" if any_issue else "clean"), any_issue)
        return ("%s:%s" % (st, ",".join(str(c) for c in codes) or "clean"), any_issue)

    def finding_key(self, case, obs, failure):
        return None


if __name__ == "__main__":
    sys.exit(fw.main(C08(), sys.argv[1:]))
