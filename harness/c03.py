# -*- coding: utf-8 -*-
"""
C03 - A document is always a well-formed tree, whatever editing history produced it.

Random and enumerated editing histories are run on the real library and on the Lean heap model;
the snapshot of every object is compared after every operation; the well-formedness oracle is
evaluated on the implementation's snapshots. A second stream mixes the primitive operations with
clone (+attach), Section.merge, the link setter and clean (Model/HeapExt.lean).
"""
import itertools
import random
import re
import sys

import framework as fw
import heapcommon as hc


class HeapCheck(fw.Check):
    """Common part of C03 / C04 / C06 (same model, same executor, different oracles)."""
    driver_name = "drv_c03"
    max_ops = 40

    def histories(self, tier, rng):
        n = self.quick_n if tier == "quick" else self.thorough_n
        out = []
        for _ in range(n):
            g = hc.Gen(random.Random(rng.randrange(1 << 60)),
                       max_ops=self.max_ops if tier == "quick" else 80)
            out.append({"ops": g.history(), "q": hc.q_plan(g.rng)})
        out.extend(self.odd_histories(tier, rng))
        return out

    odd_quick_n = 500
    odd_thorough_n = 4000
    odd_nan = False

    def odd_histories(self, tier, rng):
        """Oracle-only histories (no model requests): names and ids that are not texts - int, bool,
        float, bytes, tuple, None-like - and documents loaded from YAML / JSON / XML text. The model
        compares names as strings and cannot represent them; the implementation-level oracles can."""
        n = self.odd_quick_n if tier == "quick" else self.odd_thorough_n
        out = []
        for _ in range(n):
            g = hc.Gen(random.Random(rng.randrange(1 << 60)), max_ops=30, odd=True, nan=self.odd_nan)
            out.append({"ops": g.history(), "oracle_only": True, "q": hc.q_plan(g.rng)})
        return out

    def generate(self, tier, rng):
        return self.histories(tier, rng)

    def impl(self, case):
        trace, done = hc.run_history(case["ops"], case.get("q"))
        return {"trace": trace, "done": done}

    def model_requests(self, case, obs):
        if case.get("oracle_only"):
            return []
        return [{"op": "run", "ops": hc.model_ops(obs["done"])}]

    def compare(self, case, obs, answers):
        if case.get("oracle_only"):
            return []
        model = answers[0]
        brk, _ = hc.first_wf_break(obs["trace"])
        out = []
        for k, (step, m) in enumerate(zip(obs["trace"], model)):
            if brk is not None and k > brk:
                break      # beyond a broken tree Python's deep == decides; outside the model
            if (step["out"] == "ok") != (m["out"] == "ok"):
                out.append("op %d %s: implementation %s, model %s"
                           % (k, obs["done"][k], step["out"], m["out"]))
                break
            msnap, mdocs = hc.split_docs(m["snap"])
            if step["snap"] != msnap:
                diff = [i for i, (a, b) in enumerate(zip(step["snap"], msnap)) if a != b]
                out.append("op %d %s: snapshots differ at objects %s: implementation %s, model %s"
                           % (k, obs["done"][k], diff,
                              [step["snap"][i] for i in diff[:3]], [msnap[i] for i in diff[:3]]))
                break
            # the derived query .document, wherever the query plan asked it (Model/HeapQuery.lean)
            bad = hc.doc_disagreements(step.get("q"), mdocs)
            if bad:
                out.append("after op %d %s: %s" % (k, obs["done"][k], "; ".join(bad[:3])))
                break
        return out

    @staticmethod
    def doc_oracle(trace, done, brk, snap_of=lambda s: s):
        """`an object's document is the root of its parent chain` on every well-formed snapshot of
        the history, for every object the query plan asked (hc.doc_failures); path and traversal
        queries have to terminate."""
        for k, step in enumerate(trace):
            if brk is not None and k >= brk:
                break
            fails = hc.doc_failures(snap_of(step["snap"]), step.get("q"))
            if fails:
                return ["after op %d %s (%s): %s" % (k, done[k], step["out"], f) for f in fails[:3]]
        return []

    def tag(self, case, obs):
        tr = obs.get("trace", [])
        refused = sum(1 for s in tr if s["out"] != "ok")
        kinds = sorted(set(op["op"] for op in obs.get("done", [])))
        return ("%sops=%d refused=%d" % ("odd:" if case.get("oracle_only") else "", len(tr) // 10 * 10,
                                         min(refused, 9) // 3 * 3),
                len(tr) >= 5 and len(kinds) >= 3)


# ----------------------------------------------------------------------------- extended operations
# clone (+attach), Section.merge, the link setter and clean: run on the real library and on
# lean/OdmlModel/Model/HeapExt.lean, where they are programs over the primitive operations.
# Objects created inside an operation get the next handles in creation order: on the
# implementation the public clone methods of the three classes are wrapped while the operation
# runs (entry order = allocation order of the model); a copy that is dropped again (the append
# of a merge raised) is kept alive here so that both sides number alike.

X_OPS = ("clone", "merge", "set_link", "clean")
X_FUEL = 400
MAX_OBJS_X = 45


class track_clones(object):
    def __init__(self, created):
        self.created = created
        self.saved = []

    def __enter__(self):
        import odml
        created = self.created
        impl = odml.getImplementation()
        for cls in (impl.Section, impl.Property, impl.Document):
            had = "clone" in cls.__dict__
            orig = cls.clone

            def make(orig):
                def clone(obj, *args, **kwargs):
                    slot = len(created)
                    created.append(None)
                    res = orig(obj, *args, **kwargs)
                    created[slot] = res
                    return res
                return clone
            self.saved.append((cls, had, cls.__dict__.get("clone")))
            setattr(cls, "clone", make(orig))
        return self

    def __exit__(self, *exc):
        for cls, had, old in reversed(self.saved):
            if had:
                setattr(cls, "clone", old)
            else:
                delattr(cls, "clone")
        return False


def chain(x):
    out = []
    while x is not None and len(out) < 1000:
        out.append(x)
        x = x.parent
    return out


def related(x, y):
    return any(o is y for o in chain(x)) or any(o is x for o in chain(y))


def subtree(x, limit=2000):
    """x, its Sections at every depth and their Properties (identity list)."""
    out = [x]
    todo = [x]
    while todo and len(out) < limit:
        cur = todo.pop()
        for s in list(cur.sections):
            out.append(s)
            todo.append(s)
        if hasattr(cur, "properties"):
            out.extend(list(cur.properties))
    return out


def overlap(a, b):
    ids = set(id(o) for o in subtree(a))
    return any(id(o) in ids for o in subtree(b))


class XWorld(hc.World):
    def __init__(self):
        hc.World.__init__(self)
        self.last_clone = None

    def kind(self, obj):
        if obj is None:
            return "lost"
        return hc.World.kind(self, obj)

    def snapshot(self):
        out = []
        for o in self.objs:
            if o is None:
                out.append(None)
                continue
            k = self.kind(o)
            par = o.parent
            mer = o.get_merged_equivalent() if k == "sec" else None
            out.append({
                "kind": k,
                "name": "" if k == "doc" else o.name,
                "id": o.id,
                "parent": None if par is None else self.handle_of(par),
                "secs": [self.handle_of(s) for s in list(o.sections)] if k != "prop" else [],
                "props": [self.handle_of(p) for p in list(o.properties)] if k == "sec" else [],
                "merged": None if mer is None else self.handle_of(mer),
                "link": bool(k == "sec" and o.link is not None),
            })
        return out

    # -- what the model cannot know: observed with the public API *before* the operation --------
    def secs(self):
        return [(i, o) for i, o in enumerate(self.objs) if self.kind(o) == "sec"]

    def props(self):
        return [(i, o) for i, o in enumerate(self.objs) if self.kind(o) == "prop"]

    def merged_pairs(self, region=None):
        out = []
        for i, s in self.secs():
            if region is not None and not any(s is o for o in region):
                continue
            t = s.get_merged_equivalent()
            if t is not None:
                out.append((s, t))
        return out

    def merge_tables(self, op, strict):
        op["ty"] = [o.type if self.kind(o) == "sec" else "" for o in self.objs]
        sec_bad = []
        if strict:
            bare = [(i, s.clone(children=False)) for i, s in self.secs()]
            for i, a in bare:
                for j, b in bare:
                    try:
                        a.merge_check(b, True)
                    except Exception:
                        sec_bad.append([i, j])
        prop_bad = []
        for i, a in self.props():
            for j, b in self.props():
                try:
                    a.merge_check(b, strict)
                except Exception:
                    prop_bad.append([i, j])
        op["sec_bad"] = sec_bad
        op["prop_bad"] = prop_bad

    def clean_tables(self, op, pairs, unlinked=None):
        """== and get_relative_path for every pair unmerge can look at: (object below a merged
        Section, object below its target). `unlinked`: the Section whose link the operation resets
        before it cleans; == looks at the link attribute too, so this Section is compared in the
        shape it will have then (a detached copy with the link taken off)."""
        op.setdefault("ty", [o.type if self.kind(o) == "sec" else "" for o in self.objs])
        eq, rel_bad, seen = [], [], set()
        ghost = None
        if unlinked is not None and unlinked.link is not None:
            ghost = unlinked.clone(keep_id=True)
            ghost.link = None
        for s, t in pairs:
            for a in subtree(s):
                for b in subtree(t):
                    ia, ib = self.handle_of(a), self.handle_of(b)
                    if (ia, ib) in seen or "?" in (ia, ib) or self.kind(a) != self.kind(b):
                        continue
                    seen.add((ia, ib))
                    try:
                        if (ghost if ghost is not None and a is unlinked else a) == b:
                            eq.append([ia, ib])
                    except Exception:
                        pass
                    if self.kind(a) == "sec" and a.link is not None and not (ghost is not None and a is unlinked):
                        try:
                            a.get_relative_path(b)
                        except Exception:
                            rel_bad.append([ia, ib])
        op["eq"] = eq
        op["rel_bad"] = rel_bad

    def clean_scope(self, x):
        """The merged pairs a clean of x visits, or None when a target overlaps a merged Section
        of the region (outside the scope of link resolution, see C12)."""
        region = subtree(x)
        pairs = self.merged_pairs(region)
        for s, t in pairs:
            if self.handle_of(t) == "?" or self.kind(t) != "sec":
                return None
            for s2, _t2 in pairs:
                if overlap(t, s2):
                    return None
        return pairs

    def prepare(self, op):
        """Fills in the oracle tables; False = outside the scope, the operation is skipped."""
        O = self.objs
        kind = op["op"]
        if len(O) > MAX_OBJS_X and kind in ("clone", "merge", "set_link"):
            return False
        if kind == "merge":
            a, b = O[op["dest"]], O[op["src"]]
            if related(a, b):
                op["strict"] = False     # the attribute tables could change under the operation
            self.merge_tables(op, op["strict"])
        elif kind == "clean":
            x = O[op["x"]]
            if self.kind(x) == "prop":
                return True
            pairs = self.clean_scope(x)
            if pairs is None:
                return False
            self.clean_tables(op, pairs)
        elif kind == "set_link":
            x = O[op["x"]]
            tgt = O[op.pop("tsym")]
            if op["val"] == "path":
                op["path"] = tgt.get_path() if op.pop("absolute", True) else x.get_relative_path(tgt)
                op["target"] = None
                if x.parent is not None:
                    if not op["path"]:
                        op["val"] = "falsy"
                    else:
                        try:
                            found = x.get_section_by_path(op["path"])
                            h = self.handle_of(found)
                            if h == "?" or self.kind(found) != "sec":
                                return False
                            op["target"] = h
                        except Exception:
                            op["target"] = None
                    if op["target"] is not None:
                        a, b = x, O[op["target"]]
                        if related(a, b):
                            return False
                        for s, t in self.merged_pairs():
                            if s is a:
                                continue
                            if related(b, s) or related(t, a) or related(t, b) or related(s, a):
                                return False
            op["old_target"] = None
            if x.parent is not None and x.link is not None:
                # a new link that is refused by the merge makes the setter resolve the stored link
                # again (fix 06cfd75): what its path finds now
                try:
                    found = x.get_section_by_path(x.link)
                    h = self.handle_of(found)
                    if h == "?" or self.kind(found) != "sec":
                        return False
                    op["old_target"] = h
                except Exception:
                    op["old_target"] = None
            if x.parent is not None:
                pairs = self.clean_scope(x)
                if pairs is None:
                    return False
                self.clean_tables(op, pairs, x if op["val"] != "path" else None)
                self.merge_tables(op, False)
        return True

    def apply(self, op):
        kind = op["op"]
        O = self.objs
        if kind not in X_OPS:
            n = len(O)
            hc.World.apply(self, op)
            if kind == "construct" and len(O) == n + 1:
                # attributes without any role for the tree structure; they make merge_check and ==
                # answer differently from pair to pair
                if op.get("defn") is not None:
                    O[n].definition = op["defn"]
                if op.get("unit") is not None:
                    O[n].unit = op["unit"]
                if op.get("vals") is not None and "dt" not in op:
                    O[n].values = op["vals"]
                elif op.get("vals") is not None:
                    # (round 5) values of any type: the dtype the constructor inferred is taken off first;
                    # a dtype of its own converts the values or leaves everything as it was
                    try:
                        O[n].values = None
                        O[n].dtype = None
                        O[n].values = op["vals"]
                        if op["dt"] is not None:
                            O[n].dtype = op["dt"]
                    except Exception:
                        pass
                if op.get("ref") is not None:
                    O[n].reference = op["ref"]
            return
        created = []
        try:
            with track_clones(created):
                if kind == "clone":
                    x = O[op["x"]]
                    if self.kind(x) == "prop":
                        x.clone(keep_id=op["keep_id"])
                    else:
                        x.clone(children=op["children"], keep_id=op["keep_id"])
                elif kind == "merge":
                    O[op["dest"]].merge(O[op["src"]], strict=op["strict"])
                elif kind == "clean":
                    O[op["x"]].clean()
                elif kind == "set_link":
                    O[op["x"]].link = {"none": None, "falsy": ""}.get(op["val"], op.get("path"))
        finally:
            if kind == "clone":
                self.last_clone = len(O) if created and created[0] is not None else None
                self.last["clone"] = self.last_clone
                self.last["clone_src"] = op["x"]
            O.extend(created)
            op["fresh"] = [o.id if o is not None else "" for o in created]


def resolve_x(w, op):
    """Symbolic handles of a history with extended operations -> concrete handles."""
    op = dict(op)
    for key, val in list(op.items()):
        if isinstance(val, dict) and val.get("last"):
            h = w.last_clone if val["last"] is True else w.last.get("clone_src")
            if h is None or h >= len(w.objs) or w.objs[h] is None:
                return None
            op[key] = h
            if op["op"] == "rename" and w.kind(w.objs[h]) == "doc":
                return None      # a Document has no name setter (plain attribute; not an editing operation)
    if op["op"] not in X_OPS:
        return hc.resolve(w, op)

    def pick(sym):
        if isinstance(sym, int):
            return sym
        if "rel" in sym:
            h = hc.pick(w, sym)
            return None if h == -1 else h
        cand = [i for i, o in enumerate(w.objs) if w.kind(o) in sym["cls"]]
        return cand[sym["n"] % len(cand)] if cand else None
    for key in ("x", "dest", "src", "tsym"):
        if key in op:
            op[key] = pick(op[key])
            if op[key] is None:
                return None
    return op


def run_history_x(ops, plan=None):
    w = XWorld()
    trace, done, skipped = [], [], 0
    qs = hc.Queries(plan)
    for op in ops:
        if op["op"] in ("mirror", "twin"):
            steps = hc.expand(w, op)
        else:
            cop = resolve_x(w, op)
            steps = [] if cop is None else [cop]
        for cop in steps:
            if cop["op"] in X_OPS and not w.prepare(cop):
                skipped += 1
                continue
            try:
                w.apply(cop)
                out = "ok"
            except RecursionError:
                out = "RecursionError"
            except Exception as exc:
                out = fw.exc_name(exc)
            snap = w.snapshot()
            trace.append({"out": out, "snap": snap, "q": qs.after(w, snap)})
            done.append(cop)
            if qs.cyclic:
                return trace, done, skipped
    qs.finish(w, trace)
    return trace, done, skipped


BLANK = {"kind": "sec", "name": "#lost", "id": "", "parent": None, "secs": [], "props": [],
         "merged": None, "link": False}


def oracle_snap(snap):
    return [BLANK if o is None else o for o in snap]


# (seeded round 5) values of the Properties in the extended histories: not only small int lists (which
# every other int Property takes) but texts of which all / none / only the first ones convert to the
# dtype of a same-named Property elsewhere, floats, booleans, a date, no values at all - whether a pair
# of Properties can be merged (what merge_check answers, observed before the operation) and whether the
# merge then goes through must agree for every such pair
X_VALS = [["7", "eight"], ["7", "8"], ["x"], ["7", "8", "nine", "10"], [1.5], [1.5, 2.5], ["1.5", "x"],
          [True], ["true", "maybe"], ["2020-01-02"], [], ["eight"], [1, 2, 3], ["7", "8", "9"], ["1", "2.5"],
          ["2", "1", "x"], [2, 7]]
X_DTYPES = [None, None, None, None, "int", "float", "string", "boolean", "date", "text"]


class GenX(hc.Gen):
    """Histories mixing the primitive operations with clone(+attach) / merge / link / clean."""

    def attrs(self, op):
        r = self.rng
        if op["kind"] == "sec":
            op["defn"] = r.choice([None, None, "d1", "d2"])
        elif op["kind"] == "prop":
            op["unit"] = r.choice([None, None, "mV", "V"])
            if r.random() < 0.55:
                op["vals"] = r.choice([[1], [1], [2], [1, 2]])
            else:
                op["vals"] = list(r.choice(X_VALS))
                op["dt"] = r.choice(X_DTYPES)
                op["ref"] = r.choice([None, None, "r1"])
        return op

    def after_clone(self):
        """The copy has been attached somewhere: operations that mix the original and its copy (they
        are deep-equal, with keep_id they also share the id): children of one moved into the other,
        either name cleared or changed, the original put beside the copy."""
        r = self.rng
        src, cl = hc.last("clone_src"), hc.last("clone")
        sch = lambda: self.child_of(src)
        cch = lambda: self.child_of(cl)
        ops = []
        for _ in range(r.choice([0, 1, 1, 2, 3])):
            c = r.randrange(12)
            if c < 3:
                ops.append({"op": "set_parent", "x": sch(), "np": cl})
            elif c == 3:
                ops.append({"op": "set_parent", "x": cch(), "np": src})
            elif c == 4:
                ops.append(r.choice([{"op": "append", "p": cl, "x": sch()},
                                     {"op": "insert", "p": cl, "pos": r.randrange(-3, 5), "x": sch()},
                                     {"op": "extend", "p": cl, "xs": [sch()]},
                                     {"op": "set_item", "p": cl, "sec_list": r.random() < 0.6,
                                      "key": r.randrange(-3, 4), "v": sch()}]))
            elif c == 5:
                ops.append(r.choice([{"op": "remove", "p": src, "x": cch()}, {"op": "remove", "p": cl, "x": sch()}]))
            elif c < 9:
                ops.append({"op": "rename", "x": r.choice([src, cl]), "new": r.choice(["", "", "a", "b"]),
                            "empty": r.choice(["none", "str"])})
            elif c == 9:
                a, b = r.choice([(src, cl), (cl, src)])
                ops.append(r.choice([{"op": "set_parent", "x": a, "np": hc.parent_of(b)},
                                     {"op": "append", "p": hc.parent_of(b), "x": a}]))
            elif c == 10:
                ops.append({"op": "new_id", "x": r.choice([src, cl]),
                            "oid": r.choice([None, {"idof": r.choice([src, cl]), "form": None}]), "fresh": ""})
            else:
                ops.append({"op": "set_parent", "x": self.child_of(sch()), "np": cch()})
        return ops

    def clash_block(self):
        """A merge / link assignment whose source is built around the destination: some of its
        children get the name of a child of the destination (a Section of the same or of the other
        type, a Property), the others a name of their own; children on either side are empty (a
        placeholder: falsy) or filled. Every way merge_check / the name check / merge itself can
        look at a pair of children - found by name, by name and type, by truthiness - is asked."""
        r = self.rng
        dest = hc.P(r, "sec")
        src = self.attrs(self.construct("sec", False))
        src.update({"name": r.choice(["src", "m", "n", "a"]), "args_ok": True, "mark": "clash_src",
                    "parent": r.choice([hc.parent_of(dest), hc.P(r, "doc"), hc.P(r, "doc", "sec"), None])})
        ops = [src]
        S = hc.last("clash_src")
        for _ in range(r.randrange(1, 4)):
            kind = r.choice(["sec", "sec", "prop"])
            ch = self.attrs(self.construct(kind, False))
            ch.update({"parent": S, "args_ok": True})
            if r.random() < 0.75:
                ch["name"] = {"nameof": self.child_of(dest)}
            ops.append(ch)
            if kind == "sec" and r.random() < 0.35:
                # the source's child is not empty
                g = self.attrs(self.construct(r.choice(["sec", "prop"]), False))
                g.update({"parent": hc.last("made"), "args_ok": True})
                ops.append(g)
        if r.random() < 0.4:
            # a placeholder at the destination: an empty Section / a Property with the name of a
            # child of the source, of either type
            ph = self.attrs(self.construct(r.choice(["sec", "sec", "prop"]), False))
            ph.update({"parent": dest, "args_ok": True, "name": {"nameof": self.child_of(S)}})
            ops.append(ph)
        if r.random() < 0.6:
            ops.append({"op": "merge", "dest": dest, "src": S, "strict": r.random() < 0.5})
        else:
            ops.append({"op": "set_link", "x": dest, "tsym": S, "absolute": r.random() < 0.8, "val": "path"})
        if r.random() < 0.3:
            ops.append({"op": "clean", "x": r.choice([dest, hc.parent_of(dest)])})
        return ops

    def history(self):
        r = self.rng
        P = hc.P
        ops = [self.construct("doc", False)]
        for _ in range(r.randrange(3, 7)):
            op = self.attrs(self.construct("sec", True))
            op["args_ok"] = True
            ops.append(op)
        for _ in range(r.randrange(2, 6)):
            op = self.attrs(self.construct("prop", True))
            op["args_ok"] = True
            ops.append(op)
        pool = [op for op in hc.Gen(random.Random(r.randrange(1 << 60)), max_ops=24).history()[3:]]
        pool = [self.attrs(op) if op["op"] == "construct" else op for op in pool]
        sec = lambda: P(r, "sec")
        cont = lambda: P(r, "doc", "sec", "sec", "sec")
        for _ in range(r.randrange(3, 15)):
            c = r.random()
            if c < 0.40 and pool:
                ops.append(pool.pop(0))
            elif c < 0.58:
                ops.append({"op": "clone", "x": P(r, "sec", "sec", "sec", "prop", "doc") if r.random() < 0.3
                            else sec(), "children": r.random() < 0.75, "keep_id": r.random() < 0.3})
                if r.random() < 0.5:
                    ops.append({"op": "rename", "x": {"last": True}, "new": r.choice(hc.NAMES),
                                "empty": r.choice(["none", "str"])})
                if r.random() < 0.85:
                    how = r.random()
                    if how < 0.6:
                        ops.append({"op": "append", "p": cont(), "x": {"last": True}})
                    elif how < 0.8:
                        ops.append({"op": "insert", "p": cont(), "pos": r.randrange(-3, 5), "x": {"last": True}})
                    else:
                        ops.append({"op": "set_parent", "x": {"last": True}, "np": cont()})
                    ops.extend(self.after_clone())
            elif c < 0.72:
                ops.append({"op": "merge", "dest": sec(), "src": sec(), "strict": r.random() < 0.5})
            elif c < 0.80:
                ops.extend(self.clash_block())
            elif c < 0.91:
                ops.append({"op": "set_link", "x": sec(), "tsym": sec(), "absolute": r.random() < 0.8,
                            "val": r.choice(["path", "path", "path", "path", "none", "falsy"])})
            else:
                ops.append({"op": "clean", "x": P(r, "doc", "sec", "sec", "prop") if r.random() < 0.2
                            else P(r, "doc", "sec")})
        return ops


class C03(HeapCheck):
    prop = "C03"
    odd_nan = True        # NaN names only here: an object listed twice shows as a duplicate name as well
    lean_targets = ["OdmlModel.Props.C03"]
    obligations = ["C03." + t for t in [
        "wf_empty", "wf_step", "wf_reachable_partial", "wf_run", "parent_chain_terminates",
        "not_own_ancestor", "in_exactly_one_list", "document_is_chain_root",
        # the extended operation set (clone+attach, merge, link setter, clean)
        "wf_step_ext", "wf_run_ext", "wf_reachable", "ext_step_refines", "ext_run_refines",
        "parent_chain_terminates_ext", "not_own_ancestor_ext", "in_exactly_one_list_ext",
        "document_is_chain_root_ext", "clone_detached", "clone_fresh", "clone_then_attach_wf",
        "merge_only_adds", "merge_keeps_existing", "clean_only_detaches", "clone_terminates",
        # the .document query itself (Model/HeapQuery.lean), compared between the operations
        "document_query_is_chain_root", "document_query_is_chain_root_ext", "document_query_none",
        # the link setter after a refused merge (fixes 592a7e3, dccf4ba)
        "stored_link_not_reassigned", "reresolve_does_not_nest", "legacy_relink_runs_out_of_budget",
        "stored_link_refused_unchanged",
        # fuel adequacy and monotonicity of the compound operations (Proofs/HeapExtFuel, HeapExtCount)
        "budget_monotone", "budget_irrelevant", "merge_budget_monotone", "unmerge_budget_monotone",
        "clean_budget_monotone", "link_budget_monotone", "unmerge_terminates", "clean_terminates",
        "clean_budget_independent", "merge_terminates", "merge_budget_independent", "link_terminates",
        "link_terminates_unresolved", "link_budget_independent", "run_budget_monotone",
        "reachable_ops_terminate", "ancestor_link_unfolds", "op_terminates", "history_terminates",
        "merge_at_most_doubles", "link_terminates_closed", "link_budget_independent_closed",
        "op_terminates_uniform",]]
    quick_n = 1500
    thorough_n = 40000
    case_timeout = 10
    trusted_base = [
        "Lean 4.33.0 kernel; axioms propext, Classical.choice, Quot.sound only (audited per theorem)",
        "hand-written models lean/OdmlModel/Model/Heap.lean, Model/HeapExt.lean and Model/HeapQuery.lean "
        "(the .document query), tied to /repo by this correspondence run",
        "Driver/HeapCommon.lean + Driver/C03.lean JSON glue; harness/framework.py, heapcommon.py, c03.py",
    ]
    assumptions = [
        "clone (+attach), Section.merge, the link setter and clean/unmerge are in the proved operation set "
        "(Model/HeapExt.lean, programs over the primitive operations); what the tree structure does not "
        "determine (Section types, outcome of the attribute checks of merge_check / Property.merge, ==, "
        "get_relative_path, ids of copies) is an abstract oracle in the theorems and is observed on the "
        "implementation with the public API before each operation in the correspondence run",
        "not proved: that the recursion budget of merge/unmerge/clean/link assignment suffices (termination; "
        "proved for clone); "
        "Document.finalize() / Section.merge() without argument are compositions of link assignments whose "
        "traversal order is not modelled (oracle stream only); include is never set",
        "list methods inherited from `list` (pop, del, sort, +=) are outside the property's quantifier",
        "object identity is modelled by handles; uuid4 values never matter",
    ]
    rule = ("random editing histories (5..40 ops quick, ..80 thorough) over <= 12 objects, names from "
            "{a,b,c,ab,''}, symbolic handles resolved against the live state so that attached and "
            "detached receivers, own-subtree targets, clashes and wrong types are frequent; histories mixing "
            "these with clone (+rename/attach of the copy), merge (strict or not; related pairs non-strict), "
            "link assignment (C12's scope) and clean on Sections of two types with different definitions and "
            "Properties with different units/values, <= 45 objects, all compared with the model after every op; "
            "plus clone/merge/link/finalize histories checked by the oracle only. Since seeded round 3: names "
            "also from a list of other texts ('/', blanks, line feeds, 300 characters, the id text or name of a "
            "live object), ids in ~75 spellings (white space / line feeds / control characters around the "
            "canonical text, brace and urn: combinations, digits of other scripts) or copied from a live object, "
            "positions up to +-2^62, extend with a tuple / iterator / an odML container as argument, macro "
            "operations (a deep-equal copy of a subtree built elsewhere; a twin with the name and id of an "
            "existing object) followed by operations that mix the children of original and copy, an object "
            "added once more to its own container; after clone+attach operations between original and copy; "
            "and oracle-only histories (no model requests) whose names / ids / positions are not texts / "
            "machine ints (int, bool, float, NaN, bytes, tuple, None) or that start from a document loaded "
            "from YAML / JSON / XML text. Since seeded round 4: a query plan per history (.document of "
            "every / some / no object between the operations, compared with Model/HeapQuery.lean and with the "
            "root of the parent chain; get_path / traversals / absolute lookups have to come back), chains of "
            "nested Sections moved by every route, Properties without values, merge / link sources built "
            "around the destination's child names (empty or filled, same or other type). Since seeded round 5: "
            "Properties of the extended histories with texts of which all / none / only the first ones convert, "
            "floats, booleans, dates, no values and a dtype of their own (a pair merge_check lets through must "
            "merge), refused constructor calls whose LATER argument is the invalid one, containers with 8-15 "
            "children and operations aimed at the late ones (positions beyond 5, clashes with a late sibling, "
            "extend arguments of 4-7 objects with the offending one last). Non-trivial = at least 5 "
            "executed ops of at least 3 kinds (extended histories: at least one extended operation); distinct "
            "= distinct canonical JSON of the history.")

    def generate(self, tier, rng):
        cases = self.histories(tier, rng)
        n = 60 if tier == "quick" else 1500
        for _ in range(n):
            cases.append({"extra": True, "seed": rng.randrange(1 << 60)})
        nx = 700 if tier == "quick" else 10000
        for _ in range(nx):
            g = GenX(random.Random(rng.randrange(1 << 60)))
            cases.append({"xops": g.history(), "q": hc.q_plan(g.rng)})
        return cases

    # -- extra stream: clone / merge / link+clean, oracle only -----------------
    def impl(self, case):
        if "xops" in case:
            trace, done, skipped = run_history_x(case["xops"], case.get("q"))
            return {"x": True, "trace": trace, "done": done, "skipped": skipped}
        if not case.get("extra"):
            return HeapCheck.impl(self, case)
        import odml
        r = random.Random(case["seed"])
        doc = odml.Document()
        secs = []
        for i in range(r.randrange(2, 7)):
            par = r.choice([doc] + secs)
            try:
                s = odml.Section(name=r.choice(hc.NAMES[:4]), type=r.choice(["t", "u"]), parent=par)
                secs.append(s)
                for j in range(r.randrange(0, 3)):
                    try:
                        odml.Property(name=r.choice(hc.NAMES[:4]), values=[j], parent=s)
                    except KeyError:
                        pass
            except KeyError:
                pass
        log = []
        w = hc.World()

        def everything():
            objs = [doc]
            for s in doc.itersections():
                objs.append(s)
                objs.extend(s.properties)
            return objs
        def chain(x):
            out = []
            while x is not None and len(out) < 1000:
                out.append(x)
                x = x.parent
            return out

        def related(x, y):
            return any(o is y for o in chain(x)) or any(o is x for o in chain(y))

        def linked():
            out = []
            for x in doc.itersections():
                if x.link is not None:
                    try:
                        out.append((x, x.get_section_by_path(x.link)))
                    except Exception:
                        out.append((x, x))
            return out
        for _ in range(r.randrange(1, 6)):
            what = r.choice(["clone_attach", "merge", "link", "clean", "finalize"])
            try:
                if what == "clone_attach" and secs:
                    src = r.choice(secs)
                    c = src.clone(children=r.random() < 0.7, keep_id=r.random() < 0.3)
                    c.name = r.choice(hc.NAMES[:4])
                    r.choice([doc] + secs).append(c)
                    secs.append(c)
                elif what == "merge" and len(secs) >= 2:
                    a, b = r.sample(secs, 2)
                    a.merge(b, strict=r.random() < 0.5)
                elif what == "link" and len(secs) >= 2:
                    a, b = r.sample(secs, 2)
                    # the scope of link resolution (C12): the target is neither the linking Section
                    # nor an ancestor or descendant of it, and no target is, contains or lies inside
                    # another linking Section. Outside it (a Section linked to its own ancestor)
                    # finalize() unfolds the tree without end, which is not C03's subject.
                    if related(a, b) or any(related(b, x) or related(y, a) or related(y, b) or related(x, a)
                                            for x, y in linked()):
                        log.append([what, "out-of-scope"])
                        continue
                    a.link = b.get_path()
                elif what == "clean":
                    doc.clean()
                elif what == "finalize":
                    doc.finalize()
                log.append([what, "ok"])
            except fw.CaseTimeout:
                # link structures outside C12's scope can still arise (a clone carries its link
                # along); their unfolding is not observable in finite time and not C03's subject
                return {"extra": True, "log": log + [[what, "timeout"]], "fails": []}
            except RecursionError:
                log.append([what, "RecursionError"])
            except Exception as exc:
                log.append([what, fw.exc_name(exc)])
            w.objs = everything()
            snap = w.snapshot()
            fails = hc.wf_failures(snap)
            if fails:
                return {"extra": True, "log": log, "fails": fails[:5]}
        return {"extra": True, "log": log, "fails": []}

    def model_requests(self, case, obs):
        if obs.get("extra"):
            return []
        if obs.get("x"):
            return [{"op": "runx", "fuel": X_FUEL, "ops": hc.model_ops(obs["done"])}]
        return HeapCheck.model_requests(self, case, obs)

    def compare(self, case, obs, answers):
        if obs.get("extra"):
            return []
        if obs.get("x"):
            return self.compare_x(obs, answers[0])
        return HeapCheck.compare(self, case, obs, answers)

    @staticmethod
    def brief(op):
        return dict((k, v) for k, v in op.items()
                    if k not in ("ty", "sec_bad", "prop_bad", "eq", "rel_bad", "fresh", "q"))

    def compare_x(self, obs, model):
        brk, _ = hc.first_wf_break([{"snap": oracle_snap(s["snap"])} for s in obs["trace"]])
        for k, (step, m) in enumerate(zip(obs["trace"], model)):
            if brk is not None and k > brk:
                break
            op = self.brief(obs["done"][k])
            if (step["out"] == "ok") != (m["out"] == "ok"):
                return ["op %d %s: implementation %s, model %s" % (k, op, step["out"], m["out"])]
            a = step["snap"]
            b, mdocs = hc.split_docs(m["snap"])
            if len(a) != len(b):
                return ["op %d %s: implementation created %d objects so far, model %d"
                        % (k, op, len(a), len(b))]
            # an object the implementation dropped while it was being built cannot be observed
            diff = [i for i, (x, y) in enumerate(zip(a, b)) if x is not None and x != y]
            if diff:
                return ["op %d %s: snapshots differ at objects %s: implementation %s, model %s"
                        % (k, op, diff, [a[i] for i in diff[:3]], [b[i] for i in diff[:3]])]
            bad = hc.doc_disagreements(step.get("q"), mdocs)
            if bad:
                return ["after op %d %s: %s" % (k, op, "; ".join(bad[:3]))]
        return []

    def tag(self, case, obs):
        if obs.get("x"):
            kinds = sorted(set(op["op"] for op in obs.get("done", []) if op["op"] in X_OPS))
            refused = sum(1 for st, op in zip(obs.get("trace", []), obs.get("done", []))
                          if st["out"] != "ok" and op["op"] in X_OPS)
            return ("x:%s refused=%d" % ("+".join(kinds), min(refused, 2)), len(kinds) >= 1)
        if obs.get("extra"):
            return ("extra:" + "+".join(sorted(set(l[0] for l in obs.get("log", [])))[:3]), True)
        return HeapCheck.tag(self, case, obs)

    @staticmethod
    def nan_note(op, snap, failure):
        """Marks the one shape of the known finding nan-name-readded: the object that is added
        (append / insert / extend / item assignment) has a NaN as its name. Every sibling-name check
        compares names with ==, and a NaN is not even equal to itself: the object is not recognised
        in the list it already lives in."""
        if op["op"] not in ("append", "insert", "extend", "set_item"):
            return ""
        added = op["xs"] if op["op"] == "extend" else [op["v"] if op["op"] == "set_item" else op["x"]]
        if any(isinstance(i, int) and i < len(snap) and snap[i]["name"] == u"\x01nan:%d" % i for i in added):
            return " [the name of the added object is NaN]"
        return ""

    RELINK_NOTE = " [a refused link assignment resolves the stored link again, which is refused as well]"

    def relink_note(self, obs, k):
        """Marks the one shape of the known finding refused-link-reresolved-without-end: a path is
        assigned to `.link` of an attached Section that has a link stored already, the path and the
        stored link both lead to a Section, and nothing has changed when the RecursionError arrives
        (both merges were refused: the `except` branch of the setter assigns the stored link again,
        whose `except` branch does the same, and so on)."""
        op = obs["done"][k]
        if k == 0 or op["op"] != "set_link" or op.get("val") != "path":
            return ""
        before, after = obs["trace"][k - 1]["snap"], obs["trace"][k]["snap"]
        x = op["x"]
        if op.get("target") is None or op.get("old_target") is None or x >= len(before) or before[x] is None:
            return ""
        if before[x]["link"] and before[x]["parent"] is not None and before == after:
            return self.RELINK_NOTE
        return ""

    def finding_key(self, case, obs, failure):
        if case.get("oracle_only") and failure.endswith(" [the name of the added object is NaN]"):
            return "nan-name-readded"
        # refused-link-reresolved-without-end was repaired by 592a7e3 (the note of `relink_note` still
        # marks the shape in the report): a regression is a VIOLATION
        return None

    def oracle(self, case, obs):
        if "harness_exception" in obs:
            return []
        if obs.get("extra"):
            return ["after %s: %s" % (obs["log"], f) for f in obs["fails"]]
        if obs.get("x"):
            trace = [{"snap": oracle_snap(s["snap"])} for s in obs["trace"]]
            k, fails = hc.first_wf_break(trace)
            out = []
            if k is not None:
                out = ["after op %d %s (%s): %s" % (k, self.brief(obs["done"][k]), obs["trace"][k]["out"], f)
                       for f in fails[:4] if "duplicate" not in f and "empty name" not in f]
            for k2, step in enumerate(obs["trace"]):
                if step["out"] == "RecursionError":
                    out.append("op %d %s did not terminate (RecursionError)%s"
                               % (k2, self.brief(obs["done"][k2]), self.relink_note(obs, k2)))
            if not out:
                out = self.doc_oracle(obs["trace"], [self.brief(op) for op in obs["done"]], k, oracle_snap)
            return out
        k, fails = hc.first_wf_break(obs["trace"])
        out = []
        if k is not None:
            out = ["after op %d %s (%s): %s%s" % (k, obs["done"][k], obs["trace"][k]["out"], f,
                                                  self.nan_note(obs["done"][k], obs["trace"][k]["snap"], f))
                   for f in fails[:4] if "duplicate" not in f and "empty name" not in f]
        for k2, step in enumerate(obs["trace"]):
            if step["out"] == "RecursionError":
                out.append("op %d %s did not terminate (RecursionError)" % (k2, obs["done"][k2]))
        if not out:
            out = self.doc_oracle(obs["trace"], obs["done"], k)
        return out


if __name__ == "__main__":
    sys.exit(fw.main(C03(), sys.argv[1:]))
