# -*- coding: utf-8 -*-
"""
C03 - A document is always a well-formed tree, whatever editing history produced it.

Random and enumerated editing histories are run on the real library and on the Lean heap model;
the snapshot of every object is compared after every operation; the well-formedness oracle is
evaluated on the implementation's snapshots.
"""
import itertools
import random
import sys

import framework as fw
import heapcommon as hc


class HeapCheck(fw.Check):
    """Common part of C03 / C04 / C06 (same model, same executor, different oracles)."""
    driver_name = "drv_c03"
    max_ops = 40

    def histories(self, tier, rng):
        n = self.quick_n if tier == "quick" else self.thorough_n
        out = []
        for _ in range(n):
            g = hc.Gen(random.Random(rng.randrange(1 << 60)),
                       max_ops=self.max_ops if tier == "quick" else 80)
            out.append({"ops": g.history()})
        return out

    def generate(self, tier, rng):
        return self.histories(tier, rng)

    def impl(self, case):
        trace, done = hc.run_history(case["ops"])
        return {"trace": trace, "done": done}

    def model_requests(self, case, obs):
        return [{"op": "run", "ops": hc.model_ops(obs["done"])}]

    def compare(self, case, obs, answers):
        model = answers[0]
        brk, _ = hc.first_wf_break(obs["trace"])
        out = []
        for k, (step, m) in enumerate(zip(obs["trace"], model)):
            if brk is not None and k > brk:
                break      # beyond a broken tree Python's deep == decides; outside the model
            if (step["out"] == "ok") != (m["out"] == "ok"):
                out.append("op %d %s: implementation %s, model %s"
                           % (k, obs["done"][k], step["out"], m["out"]))
                break
            if step["snap"] != m["snap"]:
                diff = [i for i, (a, b) in enumerate(zip(step["snap"], m["snap"])) if a != b]
                out.append("op %d %s: snapshots differ at objects %s: implementation %s, model %s"
                           % (k, obs["done"][k], diff,
                              [step["snap"][i] for i in diff[:3]], [m["snap"][i] for i in diff[:3]]))
                break
        return out

    def tag(self, case, obs):
        tr = obs.get("trace", [])
        refused = sum(1 for s in tr if s["out"] != "ok")
        kinds = sorted(set(op["op"] for op in obs.get("done", [])))
        return ("ops=%d refused=%d" % (len(tr) // 10 * 10, min(refused, 9) // 3 * 3),
                len(tr) >= 5 and len(kinds) >= 3)


class C03(HeapCheck):
    prop = "C03"
    lean_targets = ["OdmlModel.Props.C03"]
    obligations = ["C03." + t for t in [
        "wf_empty", "wf_step", "wf_reachable_partial", "wf_run", "parent_chain_terminates",
        "not_own_ancestor", "in_exactly_one_list", "document_is_chain_root"]]
    quick_n = 1500
    thorough_n = 40000
    case_timeout = 10
    trusted_base = [
        "Lean 4.33.0 kernel; axioms propext, Classical.choice, Quot.sound only (audited per theorem)",
        "hand-written model lean/OdmlModel/Model/Heap.lean, tied to /repo by this correspondence run",
        "Driver/HeapCommon.lean JSON glue; harness/framework.py, heapcommon.py, c03.py",
    ]
    assumptions = [
        "clone, merge and link resolve/clean are exercised by the oracle stream only (not in the "
        "proved operation set); list methods inherited from `list` (pop, del, sort, +=) are outside "
        "the property's quantifier",
        "object identity is modelled by handles; uuid4 values never matter",
    ]
    rule = ("random editing histories (5..40 ops quick, ..80 thorough) over <= 12 objects, names from "
            "{a,b,c,ab,''}, symbolic handles resolved against the live state so that attached and "
            "detached receivers, own-subtree targets, clashes and wrong types are frequent; plus "
            "clone/merge/link histories checked by the oracle only. Non-trivial = at least 5 executed "
            "ops of at least 3 kinds; distinct = distinct canonical JSON of the history.")

    def generate(self, tier, rng):
        cases = self.histories(tier, rng)
        n = 150 if tier == "quick" else 3000
        for _ in range(n):
            cases.append({"extra": True, "seed": rng.randrange(1 << 60)})
        return cases

    # -- extra stream: clone / merge / link+clean, oracle only -----------------
    def impl(self, case):
        if not case.get("extra"):
            return HeapCheck.impl(self, case)
        import odml
        r = random.Random(case["seed"])
        doc = odml.Document()
        secs = []
        for i in range(r.randrange(2, 7)):
            par = r.choice([doc] + secs)
            try:
                s = odml.Section(name=r.choice(hc.NAMES[:4]), type=r.choice(["t", "u"]), parent=par)
                secs.append(s)
                for j in range(r.randrange(0, 3)):
                    try:
                        odml.Property(name=r.choice(hc.NAMES[:4]), values=[j], parent=s)
                    except KeyError:
                        pass
            except KeyError:
                pass
        log = []
        w = hc.World()

        def everything():
            objs = [doc]
            for s in doc.itersections():
                objs.append(s)
                objs.extend(s.properties)
            return objs
        def chain(x):
            out = []
            while x is not None and len(out) < 1000:
                out.append(x)
                x = x.parent
            return out

        def related(x, y):
            return any(o is y for o in chain(x)) or any(o is x for o in chain(y))

        def linked():
            out = []
            for x in doc.itersections():
                if x.link is not None:
                    try:
                        out.append((x, x.get_section_by_path(x.link)))
                    except Exception:
                        out.append((x, x))
            return out
        for _ in range(r.randrange(1, 6)):
            what = r.choice(["clone_attach", "merge", "link", "clean", "finalize"])
            try:
                if what == "clone_attach" and secs:
                    src = r.choice(secs)
                    c = src.clone(children=r.random() < 0.7, keep_id=r.random() < 0.3)
                    c.name = r.choice(hc.NAMES[:4])
                    r.choice([doc] + secs).append(c)
                    secs.append(c)
                elif what == "merge" and len(secs) >= 2:
                    a, b = r.sample(secs, 2)
                    a.merge(b, strict=r.random() < 0.5)
                elif what == "link" and len(secs) >= 2:
                    a, b = r.sample(secs, 2)
                    # the scope of link resolution (C12): the target is neither the linking Section
                    # nor an ancestor or descendant of it, and no target is, contains or lies inside
                    # another linking Section. Outside it (a Section linked to its own ancestor)
                    # finalize() unfolds the tree without end, which is not C03's subject.
                    if related(a, b) or any(related(b, x) or related(y, a) or related(y, b) or related(x, a)
                                            for x, y in linked()):
                        log.append([what, "out-of-scope"])
                        continue
                    a.link = b.get_path()
                elif what == "clean":
                    doc.clean()
                elif what == "finalize":
                    doc.finalize()
                log.append([what, "ok"])
            except fw.CaseTimeout:
                # link structures outside C12's scope can still arise (a clone carries its link
                # along); their unfolding is not observable in finite time and not C03's subject
                return {"extra": True, "log": log + [[what, "timeout"]], "fails": []}
            except RecursionError:
                log.append([what, "RecursionError"])
            except Exception as exc:
                log.append([what, fw.exc_name(exc)])
            w.objs = everything()
            snap = w.snapshot()
            fails = hc.wf_failures(snap)
            if fails:
                return {"extra": True, "log": log, "fails": fails[:5]}
        return {"extra": True, "log": log, "fails": []}

    def model_requests(self, case, obs):
        if obs.get("extra"):
            return []
        return HeapCheck.model_requests(self, case, obs)

    def compare(self, case, obs, answers):
        if obs.get("extra"):
            return []
        return HeapCheck.compare(self, case, obs, answers)

    def tag(self, case, obs):
        if obs.get("extra"):
            return ("extra:" + "+".join(sorted(set(l[0] for l in obs.get("log", [])))[:3]), True)
        return HeapCheck.tag(self, case, obs)

    def oracle(self, case, obs):
        if "harness_exception" in obs:
            return []
        if obs.get("extra"):
            return ["after %s: %s" % (obs["log"], f) for f in obs["fails"]]
        k, fails = hc.first_wf_break(obs["trace"])
        out = []
        if k is not None:
            out = ["after op %d %s (%s): %s" % (k, obs["done"][k], obs["trace"][k]["out"], f)
                   for f in fails[:4] if "duplicate" not in f and "empty name" not in f]
        for k2, step in enumerate(obs["trace"]):
            if step["out"] == "RecursionError":
                out.append("op %d %s did not terminate (RecursionError)" % (k2, obs["done"][k2]))
        return out


if __name__ == "__main__":
    sys.exit(fw.main(C03(), sys.argv[1:]))
