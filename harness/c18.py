# -*- coding: utf-8 -*-
"""
C18 - Background loading of terminologies/templates is transparent in every schedule.

Tie between lean/OdmlModel/Model/Loader.lean and /repo: the real odml.terminology /
odml.templates code runs under the deterministic scheduler of harness/sched.py on small
include graphs reached through file: URLs in a private temp dir (the cache directory is
private as well); the compiled model replays the same picks; the step-by-step traces of
shared-table mutations, thread starts, joins and exits are compared, together with the
results, the final tables and the cache directory. The oracle restates the property over the
public API (results against the graph specification, no exception, no deadlock, identity of
repeated loads, cache files of failed fetches untouched) and does not use the model.

Streams: the original one (five named graphs, one bad node, cache mode empty / warm / stale), the
widened one (`wide_case`: the whole cache pre-state, all flavours of unfetchable / unparsable, random
DAGs, fragments, more entry points; oracle-only where the model does not reach) and a small one on
real threads (`real_case`).
"""
import hashlib
import io
import json
import os
import random
import shutil
import sys
import tempfile
import time

import framework as fw
import sched as S

RUN_TIMEOUT = 20.0

# ----------------------------------------------------------------------------- graphs
GRAPHS = {
    "single": {"R": []},
    "chain": {"R": ["A"], "A": ["D"], "D": []},
    "diamond": {"R": ["A", "B"], "A": ["D"], "B": ["D"], "D": []},
    "fan": {"R": ["A", "D"], "A": ["D"], "D": []},
    "wide": {"R": ["A", "B", "D"], "A": ["D"], "B": [], "D": []},
}
LEAF = {"single": "R", "chain": "D", "diamond": "D", "fan": "D", "wide": "D"}


def graph_names():
    return sorted(GRAPHS)


DAY = 86400                      # the property's "refreshed after a day"
UNFETCHABLE = ("missing", "dir", "badenc")           # the fetch itself fails
UNPARSABLE = ("garbage", "empty", "notodml", "oldver")   # fetched, but no odML 1.1 document
PARSABLE = ("doc", "nosec")                          # nosec: a valid document without sections
# fragments of an include (`url#path`): first section by absolute path, the extra section by
# absolute / relative path, a path that does not exist, an empty path
FRAGS_OK = ("m", "x", "rel")
FRAGS_BAD = ("zzz", "")


def kind_of(case, name):
    return case["kinds"].get(name, "doc")


def model_kind(kind):
    """The Lean model knows doc / missing / garbage; the flavours map onto these."""
    if kind in UNFETCHABLE:
        return "missing"
    if kind in UNPARSABLE:
        return "garbage"
    return kind


def frag_of(case, name, k):
    lst = (case.get("frag") or {}).get(name) or []
    return lst[k] if k < len(lst) else None


def frag_path(frag, target):
    return {"m": "/m_" + target, "x": "/x_" + target, "rel": "x_" + target,
            "zzz": "/zzz", "": ""}[frag]


def doc_xml(name, includes, urls, opts=None):
    """
    First section m_<name> carries property p_<name> and the first include; every further
    include k lives in its own top-level section i<k> with property q_<name>_<k>.
    opts (all optional): pfx = prefix of the first property ("p_", an older version of the
    resource has "o_"), frags = fragment per include, extra = a trailing section x_<name> with
    property xp_<name>, repo = [url, "doc"|"sec"] a <repository> element, nonascii = values
    carry non-ASCII text incl. U+2028.
    """
    opts = opts or {}
    tail = u" \u00e9\u00df\u2028\u4e2d" if opts.get("nonascii") else u""
    frags = opts.get("frags") or []

    def prop(pn):
        return u"<property><name>%s</name><value>[%s%s]</value><type>string</type></property>" % (pn, pn, tail)

    def inc(k):
        frag = frags[k] if k < len(frags) else None
        target = includes[k]
        return u"<include>%s%s</include>" % (urls[target], "" if frag is None else "#" + frag_path(frag, target))
    repo = opts.get("repo")
    first = u""
    if repo and repo[1] == "sec":
        first += u"<repository>%s</repository>" % repo[0]
    if includes:
        first += inc(0)
    secs = u"<section><name>m_%s</name><type>t</type>%s%s</section>" % (
        name, prop(opts.get("pfx", "p_") + name), first)
    for k in range(1, len(includes)):
        secs += u"<section><name>i%d</name><type>t</type>%s%s</section>" \
                % (k, prop("q_%s_%d" % (name, k)), inc(k))
    if opts.get("extra"):
        secs += u"<section><name>x_%s</name><type>t</type>%s</section>" % (name, prop("xp_" + name))
    head = u""
    if repo and repo[1] == "doc":
        head = u"<repository>%s</repository>" % repo[0]
    return u'<?xml version="1.0" encoding="UTF-8"?>\n<odML version="1.1">%s%s</odML>\n' % (head, secs)


def resource_bytes(case, name, kind, urls, pfx="p_"):
    """Content of the resource `name` as a file (None: no regular file - missing or a directory)."""
    if kind in ("missing", "dir"):
        return None
    if kind == "garbage":
        return b"this is not odML <<<"
    if kind == "empty":
        return b""
    if kind == "notodml":
        return b"<foo><bar>1</bar></foo>"
    if kind == "nosec":
        return b'<?xml version="1.0" encoding="UTF-8"?>\n<odML version="1.1"></odML>\n'
    opts = {"pfx": pfx, "frags": (case.get("frag") or {}).get(name), "extra": case.get("extra"),
            "nonascii": case.get("nonascii")}
    repo = (case.get("repo") or {}).get(name)
    if repo:
        opts["repo"] = [urls[repo[0]], repo[1]]
    text = doc_xml(name, case["graph"][name], urls, opts)
    if kind == "oldver":
        return text.replace(u'<odML version="1.1">', u'<odML version="1.0">').encode("utf-8")
    if kind == "badenc":
        # bytes that are not UTF-8 (a Latin-1 file): the fetch fails while decoding
        return text.replace(u"[p_", u"[\u00e9p_").replace(u"[o_", u"[\u00e9o_").encode("latin-1", "replace")
    return text.encode("utf-8")


# -- cache pre-state -----------------------------------------------------------------------
def cache_files(case):
    """
    node -> {"age": seconds, "old": "same"|"text"|"garbage", "via": "term"|"tpl"}: the copies an
    earlier session left in the cache directory. `old` = what the resource was when it was
    cached: as now (a now unfetchable one was a document then), an older text of the document,
    or something unparsable. The older cases give a mode only: warm = an hour ago, whatever can
    be fetched; stale = two days ago, when everything was there.
    """
    if "files" in case:
        return case["files"]
    mode = case.get("cache", "empty")
    out = {}
    for n in sorted(case["graph"]):
        if mode == "warm" and kind_of(case, n) != "missing":
            out[n] = {"age": 3600, "old": "same"}
        elif mode == "stale":
            out[n] = {"age": 2 * DAY, "old": "same"}
    return out


def expired(entry):
    return entry["age"] > DAY


def cached_version(case, name, entry):
    """(kind, prefix) of the cached copy of `name`."""
    kind = kind_of(case, name)
    if entry.get("old", "same") == "text":
        return ("doc", "o_")
    if entry.get("old", "same") == "garbage":
        return ("garbage", "p_")
    return ("doc" if kind in UNFETCHABLE else kind, "p_")


def views(case):
    """
    The admissible readings of "what parsing the resource directly gives": node -> (kind, prefix).
    A resource without a cache copy, or with a copy older than a day, has to be fetched: only its
    current content counts. For a copy younger than a day that differs from the resource (the
    resource changed or vanished since) the statement is ambiguous - cache_load is documented to
    serve the copy, the property speaks of the resource - so both are accepted (weaker reading).
    """
    base = dict((n, (kind_of(case, n), "p_")) for n in case["graph"])
    out = [base]
    for n, entry in sorted(cache_files(case).items()):
        if expired(entry):
            continue
        cv = cached_version(case, n, entry)
        if cv != base[n]:
            out = out + [dict(v, **{n: cv}) for v in out]
    return out


def ambiguous(case):
    return len(views(case)) > 1


def modelled(case):
    """False: the Lean model does not cover this case, the oracle alone decides."""
    if ambiguous(case) or case.get("repo") or case.get("stream") == "real":
        return False
    if any(kind_of(case, n) == "nosec" for n in case["graph"]):
        return False
    for lst in (case.get("frag") or {}).values():
        if any(f not in (None, "m") for f in lst):
            return False
    return True


# -- specification ---------------------------------------------------------------------------
def spec_ok(case, name, view=None):
    kind = view[name][0] if view else kind_of(case, name)
    return kind in PARSABLE


def spec_merged(case, name, k, view=None):
    """Property names the k-th include of `name` merges into its section."""
    target = case["graph"][name][k]
    if not spec_ok(case, target, view):
        return []
    kind = view[target][0] if view else kind_of(case, target)
    frag = frag_of(case, name, k)
    if kind == "nosec" or frag in FRAGS_BAD:
        return []            # nothing to merge (weaker reading: the include stays unresolved)
    if frag in ("x", "rel"):
        return ["xp_" + target]
    return spec_first_props(case, target, view)


def spec_first_props(case, name, view=None):
    """Property names of the first section of the fully resolved document `name`."""
    out = [(view[name][1] if view else "p_") + name]
    if case["graph"][name]:
        out += spec_merged(case, name, 0, view)
    return out


def spec_doc(case, name, view=None):
    """Expected canonical dump of load(name): None or list of [section, sorted props]."""
    if not spec_ok(case, name, view):
        return None
    if (view[name][0] if view else kind_of(case, name)) == "nosec":
        return []
    incs = case["graph"][name]
    out = [["m_" + name, sorted(spec_first_props(case, name, view))]]
    for k in range(1, len(incs)):
        out.append(["i%d" % k, sorted(["q_%s_%d" % (name, k)] + spec_merged(case, name, k, view))])
    if case.get("extra"):
        out.append(["x_" + name, ["xp_" + name]])
    return out


def versions(case, name):
    """The admissible (kind, prefix) readings of one resource, the current one first (see views)."""
    out = []
    for v in views(case):
        if v[name] not in out:
            out.append(v[name])
    return out


def merged_options(case, name, k):
    """
    The admissible property sets the k-th include of `name` merges. With an ambiguous target (a
    young cache copy that differs from the resource) every *occurrence* of an include may see
    either reading: a refresh() that runs while a loader is resolving the includes of a document
    switches from the copies to the resources in the middle. Without ambiguity: one set.
    """
    target = case["graph"][name][k]
    frag = frag_of(case, name, k)
    out = []
    for kind, pfx in versions(case, target):
        if kind not in PARSABLE or kind == "nosec" or frag in FRAGS_BAD:
            opts = [[]]
        elif frag in ("x", "rel"):
            opts = [["xp_" + target]]
        else:
            opts = first_options(case, target, pfx)
        for o in opts:
            if sorted(o) not in out:
                out.append(sorted(o))
    return out


def first_options(case, name, pfx):
    if not case["graph"][name]:
        return [[pfx + name]]
    return [sorted([pfx + name] + m) for m in merged_options(case, name, 0)]


def admissible_doc(case, name, dump):
    """Is `dump` (see dump_doc) an admissible result of load(name)?"""
    for kind, pfx in versions(case, name):
        if kind not in PARSABLE:
            if dump is None:
                return True
            continue
        if kind == "nosec":
            if dump == []:
                return True
            continue
        incs = case["graph"][name]
        want = [("m_" + name, first_options(case, name, pfx))]
        for k in range(1, len(incs)):
            want.append(("i%d" % k, [sorted(["q_%s_%d" % (name, k)] + m) for m in merged_options(case, name, k)]))
        if case.get("extra"):
            want.append(("x_" + name, [["xp_" + name]]))
        if not isinstance(dump, list) or len(dump) != len(want):
            continue
        if all(isinstance(sec, list) and len(sec) == 2 and sec[0] == wname and sec[1] in wopts
               for sec, (wname, wopts) in zip(dump, want)):
            return True
    return False


def admissible_include(case, name, props):
    """Is `props` admissible for a fresh section after `section.include = name`?"""
    for kind, pfx in versions(case, name):
        if kind not in PARSABLE or kind == "nosec":
            if props == []:
                return True
        elif props in first_options(case, name, pfx):
            return True
    return False


def loadable(case, name):
    return any(kind in PARSABLE for kind, _pfx in versions(case, name))


def dump_doc(doc):
    if doc is None:
        return None
    try:
        return [[s.name, sorted(p.name for p in s.properties)] for s in doc.sections]
    except Exception as exc:
        return {"undumpable": fw.exc_name(exc), "repr": repr(doc)[:80]}


class Handles(object):
    """Small integers for object identities, in order of first appearance."""

    def __init__(self):
        self.objs = []

    def of(self, obj):
        if obj is None:
            return None
        for i, o in enumerate(self.objs):
            if o is obj:
                return i
        self.objs.append(obj)
        return len(self.objs) - 1


# ----------------------------------------------------------------------------- real threads
class _RealRec(object):
    def __init__(self, tid, exc=None):
        self.tid = tid
        self.exc = exc


class RealRun(object):
    """
    Stand-in for the Scheduler when a case runs on real, unpatched threads (stream "real"): the
    operating system picks the interleaving (with a very short switch interval), the caller
    program runs on this thread, afterwards every thread the library started is joined. A thread
    that is still alive after the wall-clock limit counts as "blocks forever".
    """

    def __init__(self):
        self.chosen = []
        self.steps = []
        self.enabled_sets = []
        self.recs = [_RealRec(0)]

    def run(self, fn, timeout=20.0):
        import threading
        before = set(threading.enumerate())
        old_hook = threading.excepthook
        old_switch = sys.getswitchinterval()
        died = []

        def hook(args):
            died.append(args.exc_value)
        threading.excepthook = hook
        sys.setswitchinterval(1e-6)
        try:
            fn()
            deadline = time.time() + timeout
            while True:
                alive = [t for t in threading.enumerate() if t not in before and t.is_alive()]
                if not alive:
                    break
                if time.time() > deadline:
                    raise S.Deadlock("%d loader thread(s) still running %.0f s after the caller finished"
                                     % (len(alive), timeout))
                alive[0].join(max(0.05, deadline - time.time()))
        finally:
            sys.setswitchinterval(old_switch)
            threading.excepthook = old_hook
            for i, exc in enumerate(died):
                self.recs.append(_RealRec(i + 1, exc))


class RealPatched(object):
    """A fresh handler instance with its own `loading` table, bound into the module like Patched does."""

    def __init__(self, module, inst_name, rebind=("load", "deferred_load", "refresh"), base=None):
        self.module, self.inst_name, self.rebind, self.base = module, inst_name, rebind, base
        self.saved = {}

    def __enter__(self):
        mod = self.module
        base = type(getattr(mod, self.inst_name)) if self.inst_name else self.base
        sub = type("Real" + base.__name__, (base,), {"loading": {}})
        inst = sub()
        if self.inst_name:
            self.saved[self.inst_name] = getattr(mod, self.inst_name)
            setattr(mod, self.inst_name, inst)
        for name in self.rebind:
            if hasattr(mod, name) and hasattr(inst, name):
                self.saved[name] = getattr(mod, name)
                setattr(mod, name, getattr(inst, name))
        return inst

    def __exit__(self, *exc):
        for name, val in self.saved.items():
            setattr(self.module, name, val)
        return False


# ----------------------------------------------------------------------------- one scheduled run
def run_scenario(case, picks=None, rng=None):
    """
    Executes the caller program of the case under the scheduler. Returns the observation.
    Never touches the real cache: tempfile.tempdir points at a private directory meanwhile.
    """
    import odml  # noqa: F401
    import odml.terminology as T
    import odml.templates as P

    priv = tempfile.mkdtemp(prefix="c18_")
    old_tmp = tempfile.tempdir
    tempfile.tempdir = priv
    obs = {}
    try:
        docs = os.path.join(priv, "docs")
        os.makedirs(docs)
        names = sorted(case["graph"])
        # file names: plain, or with a blank and non-ASCII letters (the URL carries them verbatim)
        fname = dict((n, (u"%s \u00f6\u4e2d.xml" % n) if case.get("odd_names") else n + ".xml") for n in names)
        if case.get("same_base"):
            # every resource has the same base name, in a directory of its own: the copies in the
            # cache differ in the part of their name that is derived from the whole URL
            for n in names:
                os.makedirs(os.path.join(docs, n))
            fname = dict((n, os.path.join(n, "t.xml")) for n in names)
        urls = dict((n, "file://" + os.path.join(docs, fname[n])) for n in names)
        back = dict((u, n) for n, u in urls.items())
        base_of = dict((fname[n], n) for n in names)
        digest_of = dict((hashlib.md5(urls[n].encode("utf-8")).hexdigest(), n) for n in names)

        def put(n, kind, pfx="p_"):
            path = os.path.join(docs, fname[n])
            if os.path.isdir(path):
                shutil.rmtree(path)
            elif os.path.exists(path):
                os.remove(path)
            if kind == "dir":
                os.makedirs(path)
                return
            data = resource_bytes(case, n, kind, urls, pfx)
            if data is not None:
                with io.open(path, "wb") as fh:
                    fh.write(data)

        cache_dir = os.path.join(priv, "odml.cache")
        before = {}
        # an earlier session fetched some of the resources (through the library's own cache_load,
        # so the naming of the copies is the library's); afterwards the copies age and the
        # resources take their current state
        pre = cache_files(case)
        now = time.time()
        for n in names:
            if n not in pre:
                continue
            ckind, cpfx = cached_version(case, n, pre[n])
            put(n, ckind, cpfx)
            have = set(os.listdir(cache_dir)) if os.path.isdir(cache_dir) else set()
            with fw.quiet():
                try:
                    fobj = (P.cache_load if pre[n].get("via") == "tpl" else T.cache_load)(urls[n])
                    if hasattr(fobj, "close"):
                        fobj.close()
                except Exception:
                    pass
            if os.path.isdir(cache_dir):
                for f in set(os.listdir(cache_dir)) - have:
                    stamp = now - pre[n]["age"]
                    os.utime(os.path.join(cache_dir, f), (stamp, stamp))
        for n in names:
            put(n, kind_of(case, n))
        if os.path.isdir(cache_dir):
            for f in os.listdir(cache_dir):
                st = os.stat(os.path.join(cache_dir, f))
                before[f] = st.st_mtime_ns

        real = case.get("stream") == "real"
        sch = RealRun() if real else S.Scheduler(picks=picks, rng=rng)
        key = lambda u: back.get(u, str(u))
        handles = Handles()
        results = []

        with (RealPatched(T, "terminologies") if real
              else S.Patched(sch, T, "terminologies", "term", key)) as term_inst, \
                (RealPatched(P, None, rebind=(), base=P.TemplateHandler) if real
                 else S.Patched(sch, P, None, "tpl", key, rebind=(), base=P.TemplateHandler)) as tpl_inst:
            insts = {"term": term_inst, "tpl": tpl_inst}
            order = ["term", "tpl"]

            def caller():
                for op, tab, name in case["prog"]:
                    inst = insts[tab]
                    try:
                        if op == "load":
                            r = (T.load if tab == "term" else inst.load)(urls[name])
                            results.append({"op": [op, tab, name], "doc": dump_doc(r),
                                            "obj": handles.of(r)})
                        elif op == "deferred":
                            (T.deferred_load if tab == "term" else inst.deferred_load)(urls[name])
                            results.append({"op": [op, tab, name]})
                        elif op == "refresh":
                            T.refresh(urls[name])
                            results.append({"op": [op, tab, name]})
                        elif op == "include":
                            # a fresh document whose section includes `name` (public API path)
                            d = odml.Document()
                            s = odml.Section(name="user", type="t", parent=d)
                            s.include = urls[name]
                            results.append({"op": [op, tab, name],
                                            "props": sorted(p.name for p in s.properties)})
                        elif op == "repository":
                            d = odml.Document()
                            d.repository = urls[name]
                            results.append({"op": [op, tab, name]})
                        elif op == "sec_repository":
                            d = odml.Document()
                            s = odml.Section(name="user", type="t", parent=d)
                            s.repository = urls[name]
                            results.append({"op": [op, tab, name]})
                        elif op == "equivalent":
                            # Document.repository, then Document.get_terminology_equivalent
                            d = odml.Document()
                            d.repository = urls[name]
                            r = d.get_terminology_equivalent()
                            results.append({"op": [op, tab, name], "doc": dump_doc(r),
                                            "obj": handles.of(r)})
                        elif op == "sec_equivalent":
                            d = odml.Document()
                            s = odml.Section(name="user", type="t", parent=d)
                            s.repository = urls[name]
                            r = s.get_terminology_equivalent()
                            results.append({"op": [op, tab, name], "found": r is not None})
                        elif op == "include_orphan":
                            # a section without a document: the include is recorded, the load deferred
                            s = odml.Section(name="user", type="t")
                            s.include = urls[name]
                            results.append({"op": [op, tab, name],
                                            "props": sorted(p.name for p in s.properties)})
                        else:
                            raise ValueError(op)
                    except S.SchedAbort:
                        raise
                    except Exception as exc:
                        results.append({"op": [op, tab, name], "raised": fw.exc_name(exc)})

            outcome = "ok"
            detail = None
            try:
                with fw.quiet():
                    sch.run(caller, timeout=3 * RUN_TIMEOUT if real else RUN_TIMEOUT)
            except S.Deadlock as exc:
                outcome, detail = "deadlock", str(exc)
            except S.StepLimit as exc:
                outcome, detail = "steplimit", str(exc)
            except S.HarnessHang as exc:
                outcome, detail = "hang", str(exc)

            tables = {}
            for tab in order:
                inst = insts[tab]
                ent = {}
                for u in sorted(dict.keys(inst), key=key):
                    v = dict.__getitem__(inst, u)
                    ent[key(u)] = {"doc": dump_doc(v), "obj": handles.of(v)}
                tables[tab] = {"loaded": ent,
                               "loading": sorted(key(u) for u in dict.keys(type(inst).loading))}

        unmapped = []

        def node_of(f):
            head, _dot, base = f.partition(".")
            if case.get("same_base"):
                if head not in digest_of:
                    unmapped.append(f)      # another naming scheme: the copies cannot be told apart
                return digest_of.get(head, f)
            return base_of.get(base or f, base or f)

        cache = {}
        if os.path.isdir(cache_dir):
            for f in sorted(os.listdir(cache_dir)):
                st = os.stat(os.path.join(cache_dir, f))
                cache[node_of(f)] = {"rewritten": before.get(f) != st.st_mtime_ns, "existed": f in before}
        for f in before:
            if node_of(f) not in cache:
                cache[node_of(f)] = {"deleted": True}

        obs = {
            "outcome": outcome, "detail": detail,
            "picks": sch.chosen,
            "steps": sch.steps,
            "results": results,
            "tables": tables,
            "cache": {} if unmapped else cache,
            "cache_unmapped": bool(unmapped),
            "thread_errors": [[r.tid, fw.exc_name(r.exc)] for r in sch.recs[1:] if r.exc is not None],
            "threads": len(sch.recs),
            "enabled": sch.enabled_sets,
        }
        return obs
    finally:
        tempfile.tempdir = old_tmp
        shutil.rmtree(priv, ignore_errors=True)



# ----------------------------------------------------------------------------- model side helpers
def tree_first_props(tree, names):
    out = ["p_" + names[tree["u"]]]
    if tree["k"] and tree["k"][0] is not None:
        out += tree_first_props(tree["k"][0], names)
    return out


def tree_dump(tree, names, extra=False):
    """Model content (Tree) -> the canonical dump the implementation side produces."""
    if tree is None:
        return None
    n = names[tree["u"]]
    out = [["m_" + n, sorted(tree_first_props(tree, names))]]
    for k, kid in enumerate(tree["k"][1:], 1):
        props = ["q_%s_%d" % (n, k)]
        if kid is not None:
            props += tree_first_props(kid, names)
        out.append(["i%d" % k, sorted(props)])
    if extra:
        out.append(["x_" + n, ["xp_" + n]])
    return out


# caller operations -> the model's program (the setters are deferred_load [+ load])
MODEL_OPS = {"load": ["load"], "deferred": ["deferred"], "refresh": ["refresh"],
             "include": ["deferred", "load"], "repository": ["deferred"],
             "sec_repository": ["deferred"], "equivalent": ["deferred", "load"],
             "sec_equivalent": ["deferred", "load"], "include_orphan": ["deferred"]}


def world_request(case):
    names = sorted(case["graph"])
    idx = dict((n, i) for i, n in enumerate(names))
    graph = [[idx[n], model_kind(kind_of(case, n)), [idx[m] for m in case["graph"][n]]] for n in names]
    cache = []
    for n, entry in sorted(cache_files(case).items()):
        cache.append([idx[n], "stale" if expired(entry) else "fresh"])
    prog = []
    for op, tab, name in case["prog"]:
        tpl = tab == "tpl"
        for mop in MODEL_OPS[op]:
            prog.append([mop, tpl and op in ("load", "deferred", "refresh"), idx[name]])
    return {"p": "C18", "graph": graph, "cache": cache, "prog": prog}, names, idx


class Renumber(object):
    def __init__(self):
        self.m = {}

    def of(self, x):
        if x is None:
            return None
        return self.m.setdefault(x, len(self.m))


PROGS = {
    # name -> caller program (ops on the graph's node names); R is always the root
    "plain": [["load", "term", "R"], ["load", "term", "R"]],
    "deferred_root": [["deferred", "term", "R"], ["load", "term", "R"], ["load", "term", "R"]],
    "deferred_kids": [["deferred", "term", "A"], ["deferred", "term", "D"], ["load", "term", "R"],
                      ["load", "term", "D"]],
    "two_loaders": [["deferred", "term", "A"], ["deferred", "term", "B"], ["load", "term", "R"],
                    ["load", "term", "R"]],
    "leaf_race": [["deferred", "term", "A"], ["load", "term", "D"], ["load", "term", "D"],
                  ["load", "term", "R"], ["load", "term", "D"]],
    "refresh": [["deferred", "term", "A"], ["load", "term", "R"], ["refresh", "term", "R"],
                ["load", "term", "R"]],
    "templates": [["deferred", "tpl", "R"], ["deferred", "term", "A"], ["load", "tpl", "R"],
                  ["load", "tpl", "R"], ["load", "term", "A"]],
    "setters": [["repository", "term", "A"], ["include", "term", "R"], ["load", "term", "R"]],
}


def prog_fits(prog, graph):
    return all(name in graph for _op, _tab, name in prog)


# ----------------------------------------------------------------------------- the check
class C18(fw.Check):
    prop = "C18"
    lean_targets = ["OdmlModel.Props.C18"]
    obligations = ["C18." + t for t in [
        "resolve_is_direct_parse", "load_result_schedule_independent", "table_entries_resolved",
        "cached_identity", "cache_monotone", "failed_fetch_writes_nothing", "no_exception",
        "join_names_started_thread", "progress", "waits_for_decreases_rank",
        "measure_decreases", "effective_steps_bounded", "fair_schedule_terminates",
        "maximal_run_completes", "load_none_iff_unloadable",
        "maximal_run_requested_loaded_or_failed"]]
    trusted_base = [
        "Lean 4.33.0 kernel; axioms propext, Classical.choice, Quot.sound only (audited per theorem)",
        "hand-written model lean/OdmlModel/Model/Loader.lean, tied to /repo by this correspondence run",
        "harness/sched.py (deterministic scheduler, monkeypatched in; mutual exclusion of threading.Lock "
        "is provided by the scheduler's lock and assumed of the real one)",
        "Driver/C18.lean JSON glue and event diffing; harness/framework.py, harness/c18.py",
        "urllib file: fetching, lxml parsing and Section.merge (exercised end to end, abstracted in the model "
        "as the include graph and positional content trees)",
    ]
    assumptions = [
        "partial: the GIL, OS scheduling (that the real scheduler is fair) and network timeouts are not "
        "modelled; 'never blocks forever' is proved in the model's terms: `progress` (no reachable state is "
        "stuck: some thread is enabled unless all have finished; waits-for edges go down the include DAG), "
        "`measure_decreases` / `effective_steps_bounded` (every step decreases a measure, every schedule "
        "has a bounded number of effective steps) and `fair_schedule_terminates` (every weakly fair "
        "infinite schedule reaches the state where the caller has completed its whole program)",
        "interleaving granularity is the property's: accesses to the two shared tables (critical sections "
        "of the handler lock), thread start, join and exit; fetching, cache-file writing and parsing are "
        "atomic with the preceding critical section (concurrent writers of one cache file are not modelled)",
        "resources do not change during a run; a fresh cache file has the content of its resource "
        "(a fresh cache file of a vanished resource is outside the model)",
    ]
    rule = ""
    base_rule = ("scheduled runs of caller programs (deferred_load / load / refresh / include and "
                 "repository setters, terminology and template handlers) over the include graphs "
                 "single, chain, diamond, fan, wide with the leaf present / missing / unparsable and the "
                 "cache empty / warm / stale; quick: seeded random schedules; thorough: one schedule per "
                 "transition of the model's reachable state graph for the small graphs. A case is "
                 "non-trivial when at least one loader thread ran; distinct = distinct canonical JSON "
                 "of the case. Widened stream: random include DAGs over five resources (deeper chains, a "
                 "target included twice, ten and more includes in one document), any node missing / a "
                 "directory / not UTF-8 / unparsable in four ways / a document without sections, a cache copy "
                 "per resource of any age from seconds to over a year and on both sides of the one-day limit, "
                 "written through either handler, the resource unchanged / changed / unparsable / gone since, "
                 "includes with #fragments, <repository> elements inside resources, non-ASCII content and file "
                 "names, equal base names, and the Section.repository / get_terminology_equivalent / "
                 "include-without-document entry points; cases the model does not cover (a young copy that "
                 "differs from its resource, fragments, repositories inside resources, documents without "
                 "sections) are decided by the oracle alone. Real stream: such cases with identical young "
                 "copies on real threads under the operating system's scheduler, oracle-only.")

    def __init__(self):
        self.rule = self.base_rule
        self.explored = {}

    def extra_exhaustive(self, tier):
        return tier == "thorough" and bool(self.explored)

    # -- generation ----------------------------------------------------------
    def random_case(self, rng):
        gname = rng.choice(graph_names())
        graph = GRAPHS[gname]
        leaf = LEAF[gname]
        kinds = {}
        r = rng.random()
        if r < 0.25:
            kinds[leaf] = "missing"
        elif r < 0.5:
            kinds[leaf] = "garbage"
        elif r < 0.56 and "A" in graph:
            kinds["A"] = rng.choice(["missing", "garbage"])
        cache = rng.choice(["empty", "empty", "warm", "stale"])
        if rng.random() < 0.6:
            pname = rng.choice(sorted(p for p in PROGS if prog_fits(PROGS[p], graph)))
            prog = [list(op) for op in PROGS[pname]]
        else:
            names = sorted(graph)
            prog = []
            for _ in range(rng.randrange(0, 4)):
                prog.append([rng.choice(["deferred", "deferred", "repository"]),
                             "term", rng.choice(names)])
            if rng.random() < 0.15:
                prog.append(["deferred", "tpl", "R"])
            for _ in range(rng.randrange(1, 4)):
                r2 = rng.random()
                if r2 < 0.6:
                    prog.append(["load", "term", rng.choice(["R", "R", rng.choice(names)])])
                elif r2 < 0.7:
                    prog.append(["load", "tpl", "R"])
                elif r2 < 0.8:
                    prog.append(["include", "term", rng.choice(names)])
                elif r2 < 0.9:
                    prog.append(["refresh", "term", "R"])
                else:
                    prog.append(["deferred", "term", rng.choice(names)])
            prog.append(["load", "term", "R"])
        return {"g": gname, "graph": graph, "kinds": kinds, "cache": cache, "prog": prog,
                "sched": {"seed": rng.randrange(1 << 30)}}

    # ages of a cache copy in seconds: just written, the clock of the writer was ahead, an hour,
    # either side of the one-day limit (the margin is far above the run time of a case), between
    # one and two days, whole days, a month, more than a year
    AGES = [0, -3600, 60, 3600, 12 * 3600, DAY - 3600, DAY - 600, DAY + 600, DAY + 3600, 30 * 3600,
            36 * 3600, 47 * 3600, 2 * DAY - 600, 2 * DAY + 600, 3 * DAY, 7 * DAY, 30 * DAY, 400 * DAY]
    NODES = ["R", "A", "B", "D", "E"]

    def random_graph(self, rng):
        """A named graph or a random DAG over R < A < B < D < E (includes point to later nodes)."""
        r = rng.random()
        if r < 0.4:
            gname = rng.choice(graph_names())
            return gname, dict((n, list(v)) for n, v in GRAPHS[gname].items())
        if r < 0.45:
            # many includes in one document (two-digit section numbers), two leaves
            return "bush", {"R": [rng.choice(["A", "D"]) for _ in range(rng.randrange(10, 14))],
                            "A": ["D"] if rng.random() < 0.5 else [], "D": []}
        nodes = ["R"] + sorted(rng.sample(self.NODES[1:], rng.randrange(1, 5)), key=self.NODES.index)
        graph = {}
        for i, n in enumerate(nodes):
            later = nodes[i + 1:]
            incs = []
            if later:
                r = rng.random()
                count = 0 if r < 0.15 else 1 if r < 0.6 else 2 if r < 0.9 else 3
                if i == 0:
                    count = max(count, 1)
                for _ in range(count):
                    incs.append(rng.choice(later))     # the same target may be included twice
                if rng.random() < 0.5:
                    incs.sort(key=nodes.index)
            graph[n] = incs
        if rng.random() < 0.3:                         # a chain through all nodes
            for i in range(len(nodes) - 1):
                if nodes[i + 1] not in graph[nodes[i]]:
                    graph[nodes[i]].insert(0, nodes[i + 1])
        return "dag%d" % len(nodes), graph

    def random_prog(self, rng, names, wide_ops):
        """wide_ops: also the operations added for the widened stream."""
        prog = []
        pre = ["deferred", "deferred", "repository"] + (["sec_repository", "include_orphan"] if wide_ops else [])
        for _ in range(rng.randrange(0, 4)):
            prog.append([rng.choice(pre), "term", rng.choice(names)])
        if rng.random() < 0.2:
            prog.append(["deferred", "tpl", rng.choice(names) if wide_ops else "R"])
        for _ in range(rng.randrange(1, 5)):
            r2 = rng.random()
            if r2 < 0.45:
                prog.append(["load", "term", rng.choice(["R", "R", rng.choice(names)])])
            elif r2 < 0.55:
                prog.append(["load", "tpl", rng.choice(["R", rng.choice(names)])])
            elif r2 < 0.65:
                prog.append(["include", "term", rng.choice(names)])
            elif r2 < 0.75:
                prog.append(["refresh", "term", rng.choice(["R", rng.choice(names)])])
            elif r2 < 0.85:
                prog.append([rng.choice(["equivalent", "equivalent", "sec_equivalent"]), "term",
                             rng.choice(names)])
            else:
                prog.append([rng.choice(pre), "term", rng.choice(names)])
        prog.append(["load", "term", "R"])
        if rng.random() < 0.3:
            prog.append(["load", "term", rng.choice(names)])
        return prog

    def wide_case(self, rng):
        """
        The widened stream: every dimension of the cache pre-state (a copy per resource or none,
        its age anywhere from seconds to a year and on both sides of the one-day limit, written by
        either handler, the resource the same / changed / unparsable / gone since), every flavour
        of "cannot be fetched or parsed" on any node, random DAGs (deeper chains, a target
        included twice), includes with fragments, a document without sections, <repository>
        elements inside resources, non-ASCII content and file names, and the remaining setters
        and getters that reach the loader.
        """
        gname, graph = self.random_graph(rng)
        names = sorted(graph)
        case = {"g": gname, "graph": graph, "kinds": {}, "stream": "wide"}
        # kinds
        r = rng.random()
        bad = 0 if r < 0.4 else 1 if r < 0.85 else 2
        flavours = ["missing", "missing", "garbage", "garbage", "dir", "badenc", "empty", "notodml", "oldver"]
        for n in rng.sample(names, min(bad, len(names))):
            case["kinds"][n] = rng.choice(flavours)
        sinks = [n for n in names if not graph[n] and n not in case["kinds"]]
        special = rng.random()
        if sinks and special < 0.04:
            case["kinds"][rng.choice(sinks)] = "nosec"          # oracle-only
        # cache pre-state
        r = rng.random()
        if r < 0.2:
            files = {}
        else:
            files = {}
            # one age for all, or an age per resource
            common = rng.choice(self.AGES) if rng.random() < 0.4 else None
            for n in names:
                if rng.random() < 0.8:
                    age = common if common is not None and rng.random() < 0.8 else rng.choice(self.AGES)
                    r3 = rng.random()
                    old = "same" if r3 < 0.45 else "text" if r3 < 0.9 else "garbage"
                    ent = {"age": age, "old": old}
                    if rng.random() < 0.2:
                        ent["via"] = "tpl"
                    files[n] = ent
        case["files"] = files
        case["cache"] = "files"
        # shape of the resources
        if rng.random() < 0.3:
            case["extra"] = True
        if rng.random() < 0.3:
            case["nonascii"] = True
        r = rng.random()
        if r < 0.2:
            case["odd_names"] = True
        elif r < 0.35:
            case["same_base"] = True
        r = rng.random()
        if r < 0.3:
            frag = {}
            for n in names:
                if graph[n] and rng.random() < 0.6:
                    pool = ["m", "m", None] + (["x", "rel"] if case.get("extra") else [])
                    frag[n] = [rng.choice(pool) for _ in graph[n]]
            if special > 0.96 and any(graph[m] for m in names):
                n = rng.choice([m for m in names if graph[m]])
                lst = frag.get(n) or [None] * len(graph[n])
                lst[rng.randrange(len(lst))] = rng.choice(FRAGS_BAD)     # oracle-only (left unresolved)
                frag[n] = lst
            if frag:
                case["frag"] = frag
        if rng.random() < 0.12:
            repo = {}
            for n in rng.sample(names, rng.randrange(1, 3) if len(names) > 1 else 1):
                repo[n] = [rng.choice(names), rng.choice(["doc", "sec"])]    # oracle-only
            case["repo"] = repo
        if rng.random() < 0.35:
            pname = rng.choice(sorted(p for p in PROGS if prog_fits(PROGS[p], graph)))
            case["prog"] = [list(op) for op in PROGS[pname]]
        else:
            case["prog"] = self.random_prog(rng, names, True)
        case["sched"] = {"seed": rng.randrange(1 << 30)}
        return case

    def real_case(self, rng):
        """
        A case for real threads. The property's interleavings are those of the accesses to the
        shared tables and of thread start / join / exit; cache_load counts as one step. On real
        threads two cache_loads of one URL can overlap *inside* the file operations (one truncates
        the copy the other is about to parse - this does happen on the unchanged tree and is
        outside the property's granularity, see design.d/C18.md). So the real-thread cases never
        write a cache file: every fetchable resource has a young, identical copy, unfetchable ones
        have none, nothing is refreshed. What remains is what the property is about: the races on
        the tables, with the real lock, Thread and join.
        """
        case = self.wide_case(rng) if rng.random() < 0.7 else self.random_case(rng)
        case["stream"] = "real"
        case["cache"] = "files"
        case["files"] = dict((n, {"age": rng.choice([60, 3600, 12 * 3600, DAY - 3600]), "old": "same"})
                             for n in sorted(case["graph"]) if kind_of(case, n) not in UNFETCHABLE)
        case["prog"] = [op for op in case["prog"] if op[0] != "refresh"]
        case["sched"] = {"os": rng.randrange(1 << 30)}
        return case

    def explored_cases(self, budget):
        """One schedule per transition of the model's reachable state graph (thorough tier)."""
        try:
            model = fw.Model(self.driver())
        except fw.Infra:
            return []
        combos = []
        for gname in ("chain", "diamond", "fan"):
            for kind in ("doc", "missing", "garbage"):
                for pname in ("deferred_root", "deferred_kids", "two_loaders", "leaf_race"):
                    if prog_fits(PROGS[pname], GRAPHS[gname]):
                        combos.append((gname, kind, pname, "empty"))
        combos += [("diamond", "doc", "refresh", "warm"), ("chain", "missing", "refresh", "stale"),
                   ("chain", "doc", "templates", "empty"), ("fan", "garbage", "setters", "stale")]
        # copies on both sides of the one-day limit, the resources changed since (named by the ages)
        combos += [("chain", "doc", "deferred_root", {"R": [3600, "same"], "A": [36 * 3600, "text"],
                                                      "D": [25 * 3600, "text"]}),
                   ("diamond", "missing", "two_loaders", {"R": [DAY + 600, "text"], "A": [DAY - 600, "same"],
                                                          "B": [47 * 3600, "same"], "D": [30 * 3600, "same"]}),
                   ("fan", "garbage", "leaf_race", {"A": [2 * DAY - 600, "garbage"], "D": [DAY + 3600, "text"]})]
        out = []
        for gname, kind, pname, cache in combos:
            case = {"g": gname, "graph": GRAPHS[gname], "kinds": {} if kind == "doc" else {LEAF[gname]: kind},
                    "cache": cache, "prog": [list(op) for op in PROGS[pname]]}
            if isinstance(cache, dict):
                case["files"] = dict((n, {"age": a, "old": o}) for n, (a, o) in cache.items())
                case["cache"] = cache = "files-" + "-".join("%s%dh" % (n, a // 3600) for n, (a, o) in sorted(cache.items()))
                assert modelled(case)
            req, _names, _idx = world_request(case)
            try:
                ans = model.ask([dict(req, op="explore", limit=60000)])[0]
            except fw.Infra:
                continue
            self.explored["%s/%s/%s/%s" % (gname, kind, pname, cache)] = {
                "states": ans["states"], "transitions": ans["transitions"], "complete": ans["complete"]}
            for picks in ans["schedules"]:
                out.append(dict(case, sched={"picks": picks}))
        total = len(out)
        if len(out) > budget:
            step = len(out) / float(budget)
            out = [out[int(i * step)] for i in range(budget)]
        self.rule = self.base_rule + " Explored state graphs (states/transitions, all transitions " \
            "scheduled unless sampled): %s; schedules run: %d of %d." % (
                json.dumps(self.explored, sort_keys=True), len(out), total)
        return out

    def generate(self, tier, rng):
        n = 1000 if tier == "quick" else 4000
        cases = [self.random_case(rng) for _ in range(n)]
        cases += [self.wide_case(rng) for _ in range(1000 if tier == "quick" else 4000)]
        # the same kinds of cases on real threads, scheduled by the operating system (oracle-only)
        cases += [self.real_case(rng) for _ in range(120 if tier == "quick" else 600)]
        if tier == "thorough":
            cases += self.explored_cases(60000)
        return cases

    # -- implementation ------------------------------------------------------
    def impl(self, case):
        sc = case.get("sched", {})
        if "picks" in sc:
            return run_scenario(case, picks=sc["picks"])
        return run_scenario(case, rng=random.Random(sc.get("seed", 0)))

    # -- model ---------------------------------------------------------------
    def model_requests(self, case, obs):
        if obs.get("outcome") == "hang":
            raise fw.Infra("C18 harness-side hang (no scheduling point reached): %s" % obs.get("detail"))
        if not modelled(case):
            return []          # oracle-only: the model does not cover this case
        req, _names, _idx = world_request(case)
        return [dict(req, op="run", picks=obs["picks"], max=4000)]

    def compare(self, case, obs, answers):
        if not answers:
            return []
        ans = answers[0]
        extra = bool(case.get("extra"))
        _req, names, idx = world_request(case)
        out = []
        if ans["outcome"] != obs["outcome"]:
            out.append("model outcome %s, implementation outcome %s" % (ans["outcome"], obs["outcome"]))
        if ans["err"]:
            out.append("model reached its error state")
        if obs["steps"] and obs["steps"][0]["ev"]:
            out.append("implementation touched the tables before its first scheduling point: %s"
                       % obs["steps"][0]["ev"])
        isteps = obs["steps"][1:]
        msteps = ans["steps"]

        def canon_ev(ev, impl):
            ev = list(ev)
            if impl and len(ev) == 3 and ev[2] is not None:
                ev[2] = idx.get(ev[2], ev[2])
            return json.dumps(ev)
        for i in range(max(len(isteps), len(msteps))):
            a = isteps[i] if i < len(isteps) else None
            b = msteps[i] if i < len(msteps) else None
            ca = None if a is None else [a["t"], sorted(canon_ev(e, True) for e in a["ev"])]
            cb = None if b is None else [b["t"], sorted(canon_ev(e, False) for e in b["ev"])]
            if ca != cb:
                out.append("step %d: implementation %s, model %s" % (i, ca, cb))
                break
        # results
        ri, rm = Renumber(), Renumber()
        mres = list(ans["results"])
        pos = 0
        for r in obs["results"]:
            op = r["op"][0]
            width = len(MODEL_OPS[op])
            ms = mres[pos:pos + width]
            pos += width
            if len(ms) < width:
                out.append("model completed fewer operations than the implementation (%s)" % r["op"])
                break
            if "raised" in r:
                out.append("implementation raised %s in %s; the model has no such transition"
                           % (r["raised"], r["op"]))
                continue
            m = ms[-1]
            if op in ("load", "equivalent"):
                want = tree_dump(m["val"]["doc"], names, extra)
                if want != r["doc"]:
                    out.append("%s: model %s, implementation %s" % (r["op"], want, r["doc"]))
                if ri.of(r["obj"]) != rm.of(m["val"]["obj"]):
                    out.append("%s: object identity pattern differs (model obj %s, implementation obj %s)"
                               % (r["op"], m["val"]["obj"], r["obj"]))
            elif op == "sec_equivalent":
                if r["found"] and m["val"]["doc"] is None:
                    out.append("%s: found an equivalent although the model's load gives None" % r["op"])
            elif op == "include_orphan":
                if r["props"]:
                    out.append("%s: a section without a document merged %s" % (r["op"], r["props"]))
            elif op == "include":
                tree = m["val"]["doc"]
                want = sorted(tree_first_props(tree, names)) if tree is not None else []
                if want != r["props"]:
                    out.append("%s: model merges %s, implementation %s" % (r["op"], want, r["props"]))
                ri.of(None)
        if pos != len(mres) and not out:
            out.append("model completed %d operations, implementation %d" % (len(mres), pos))
        for tab in ("term", "tpl"):
            ment = dict((names[u], v) for u, v in ans["tables"][tab]["loaded"])
            ient = obs["tables"][tab]["loaded"]
            if sorted(ment) != sorted(ient):
                out.append("%s table keys: model %s, implementation %s" % (tab, sorted(ment), sorted(ient)))
                continue
            for n in sorted(ment):
                if tree_dump(ment[n]["doc"], names, extra) != ient[n]["doc"]:
                    out.append("%s[%s]: model %s, implementation %s"
                               % (tab, n, tree_dump(ment[n]["doc"], names, extra), ient[n]["doc"]))
                if ri.of(ient[n]["obj"]) != rm.of(ment[n]["obj"]):
                    out.append("%s[%s]: object identity pattern differs" % (tab, n))
            mload = sorted(names[u] for u in ans["tables"][tab]["loading"])
            if mload != obs["tables"][tab]["loading"]:
                out.append("%s.loading leftovers: model %s, implementation %s"
                           % (tab, mload, obs["tables"][tab]["loading"]))
        for u, st, wcount in ([] if obs.get("cache_unmapped") else ans["cache"]):
            n = names[u]
            ic = obs["cache"].get(n)
            if (st != "absent") != (ic is not None and not ic.get("deleted")):
                out.append("cache file of %s: model %s, implementation %s" % (n, st, ic))
            elif ic is not None and not ic.get("deleted"):
                if (wcount > 0) != bool(ic["rewritten"] or not ic["existed"]):
                    out.append("cache file of %s: model wrote it %d times, implementation %s" % (n, wcount, ic))
        return out[:6]

    # -- oracle (property over the public API, independent of the model) ------
    def oracle(self, case, obs):
        if "harness_exception" in obs or obs.get("outcome") == "hang":
            return []
        out = []
        sched = "schedule %s" % obs["picks"]
        if obs["outcome"] == "deadlock":
            out.append("blocks forever: %s under %s" % (obs["detail"], sched))
        elif obs["outcome"] != "ok":
            out.append("does not terminate: %s under %s" % (obs["detail"], sched))
        for tid, name in obs["thread_errors"]:
            out.append("loader thread %d died with %s under %s" % (tid, name, sched))
        last = {}            # (tab, name) -> object handle of the last load since the last refresh
        for r in obs["results"]:
            op, tab, name = r["op"]
            if "raised" in r:
                out.append("%s(%s) raised %s under %s" % (op, name, r["raised"], sched))
                if op == "refresh":
                    last = {}      # it may have cleared the table before it raised
                continue
            if op == "refresh":
                last = {}
            elif op in ("load", "equivalent"):
                # Document.get_terminology_equivalent is load(repository) of the terminology handler
                if not admissible_doc(case, name, r["doc"]):
                    out.append("%s(%s) returned %s, direct parse + finalize gives %s under %s"
                               % (op, name, r["doc"], spec_doc(case, name), sched))
                if r["obj"] is not None:
                    if (tab, name) in last and last[(tab, name)] != r["obj"]:
                        out.append("%s(%s) returned a different object than the previous load "
                                   "(no refresh in between) under %s" % (op, name, sched))
                    last[(tab, name)] = r["obj"]
            elif op == "include":
                if not admissible_include(case, name, r["props"]):
                    want = sorted(spec_first_props(case, name)) \
                        if spec_ok(case, name) and kind_of(case, name) != "nosec" else []
                    out.append("include of %s merged %s, expected %s under %s" % (name, r["props"], want, sched))
            elif op == "include_orphan":
                if r["props"]:
                    out.append("include of %s into a section without a document merged %s under %s"
                               % (name, r["props"], sched))
            elif op == "sec_equivalent":
                # the equivalent is looked up in load(repository): there is none in a None
                if r["found"] and not loadable(case, name):
                    out.append("get_terminology_equivalent found a section in unloadable %s under %s"
                               % (name, sched))
        if obs["outcome"] == "ok":
            for tab in ("term", "tpl"):
                for n, ent in sorted(obs["tables"][tab]["loaded"].items()):
                    if not admissible_doc(case, n, ent["doc"]):
                        out.append("%s table holds %s for %s, direct parse + finalize gives %s under %s"
                                   % (tab, ent["doc"], n, spec_doc(case, n), sched))
                    if (tab, n) in last and ent["obj"] != last[(tab, n)]:
                        out.append("the cached object of %s is not the one the last load returned under %s"
                                   % (n, sched))
        for n, ent in sorted(obs["cache"].items()):
            # a resource that is not there (no file / a directory): the fetch fails. (A resource that
            # is not UTF-8 fails while decoding - whether that still is "the fetch" is left open.)
            if kind_of(case, n) in ("missing", "dir"):
                if ent.get("deleted"):
                    out.append("cache file of unfetchable %s was deleted under %s" % (n, sched))
                elif not ent["existed"]:
                    out.append("failed fetch of %s created a cache file under %s" % (n, sched))
                elif ent["rewritten"]:
                    out.append("failed fetch of %s overwrote its cache file under %s" % (n, sched))
        return out[:6]

    # -- known findings ---------------------------------------------------------
    def finding_key(self, case, obs, failure):
        """
        No open finding. The two shapes classified here until 2026-09-30 - an include whose target
        parses but has no section (IndexError) and an include with a fragment naming no section of
        its target (ValueError) - are repaired (2ac71b2, f376b4e on work-fixC18): such an include
        is left unresolved, so a raise from these inputs is a VIOLATION again.
        """
        return None

    def tag(self, case, obs):
        kinds = ",".join("%s=%s" % kv for kv in sorted(case["kinds"].items())) or "all-doc"
        cache = case.get("cache", "empty")
        if "files" in case:
            ents = case["files"].values()
            cache = "files[%s%s%s%s]" % ("f" if any(not expired(e) for e in ents) else "",
                                        "s" if any(expired(e) for e in ents) else "",
                                        "c" if any(e.get("old", "same") != "same" for e in ents) else "",
                                        "" if modelled(case) else ",oracle-only")
        if case.get("stream") == "real":
            return ("real:%s:%s:%s:%s" % (case.get("g", "?"), kinds, cache, obs.get("outcome", "?")), True)
        return ("%s:%s:%s:%s" % (case.get("g", "?"), kinds, cache,
                                 obs.get("outcome", "?")), obs.get("threads", 1) > 1)


if __name__ == "__main__":
    sys.exit(fw.main(C18(), sys.argv[1:]))
