# -*- coding: utf-8 -*-
"""
C18 - Background loading of terminologies/templates is transparent in every schedule.

Tie between lean/OdmlModel/Model/Loader.lean and /repo: the real odml.terminology /
odml.templates code runs under the deterministic scheduler of harness/sched.py on small
include graphs reached through file: URLs in a private temp dir (the cache directory is
private as well); the compiled model replays the same picks; the step-by-step traces of
shared-table mutations, thread starts, joins and exits are compared, together with the
results, the final tables and the cache directory. The oracle restates the property over the
public API (results against the graph specification, no exception, no deadlock, identity of
repeated loads, cache files of failed fetches untouched) and does not use the model.
"""
import hashlib
import io
import json
import os
import random
import shutil
import sys
import tempfile
import time

import framework as fw
import sched as S

RUN_TIMEOUT = 20.0

# ----------------------------------------------------------------------------- graphs
GRAPHS = {
    "single": {"R": []},
    "chain": {"R": ["A"], "A": ["D"], "D": []},
    "diamond": {"R": ["A", "B"], "A": ["D"], "B": ["D"], "D": []},
    "fan": {"R": ["A", "D"], "A": ["D"], "D": []},
    "wide": {"R": ["A", "B", "D"], "A": ["D"], "B": [], "D": []},
}
LEAF = {"single": "R", "chain": "D", "diamond": "D", "fan": "D", "wide": "D"}


def graph_names():
    return sorted(GRAPHS)


def doc_xml(name, includes, urls):
    """
    First section m_<name> carries property p_<name> and the first include; every further
    include k lives in its own top-level section i<k> with property q_<name>_<k>.
    """
    def prop(pn):
        return "<property><name>%s</name><value>[%s]</value><type>string</type></property>" % (pn, pn)
    first = ""
    if includes:
        first = "<include>%s</include>" % urls[includes[0]]
    secs = "<section><name>m_%s</name><type>t</type>%s%s</section>" % (name, prop("p_" + name), first)
    for k, inc in enumerate(includes[1:], 1):
        secs += "<section><name>i%d</name><type>t</type>%s<include>%s</include></section>" \
                % (k, prop("q_%s_%d" % (name, k)), urls[inc])
    return '<?xml version="1.0" encoding="UTF-8"?>\n<odML version="1.1">%s</odML>\n' % secs


def spec_ok(case, name):
    return case["kinds"].get(name, "doc") == "doc"


def spec_first_props(case, name):
    """Property names of the first section of the fully resolved document `name`."""
    out = ["p_" + name]
    incs = case["graph"][name]
    if incs and spec_ok(case, incs[0]):
        out += spec_first_props(case, incs[0])
    return out


def spec_doc(case, name):
    """Expected canonical dump of load(name): None or list of [section, sorted props]."""
    if not spec_ok(case, name):
        return None
    incs = case["graph"][name]
    out = [["m_" + name, sorted(spec_first_props(case, name))]]
    for k, inc in enumerate(incs[1:], 1):
        props = ["q_%s_%d" % (name, k)]
        if spec_ok(case, inc):
            props += spec_first_props(case, inc)
        out.append(["i%d" % k, sorted(props)])
    return out


def dump_doc(doc):
    if doc is None:
        return None
    try:
        return [[s.name, sorted(p.name for p in s.properties)] for s in doc.sections]
    except Exception as exc:
        return {"undumpable": fw.exc_name(exc), "repr": repr(doc)[:80]}


class Handles(object):
    """Small integers for object identities, in order of first appearance."""

    def __init__(self):
        self.objs = []

    def of(self, obj):
        if obj is None:
            return None
        for i, o in enumerate(self.objs):
            if o is obj:
                return i
        self.objs.append(obj)
        return len(self.objs) - 1


# ----------------------------------------------------------------------------- one scheduled run
def run_scenario(case, picks=None, rng=None):
    """
    Executes the caller program of the case under the scheduler. Returns the observation.
    Never touches the real cache: tempfile.tempdir points at a private directory meanwhile.
    """
    import odml  # noqa: F401
    import odml.terminology as T
    import odml.templates as P

    priv = tempfile.mkdtemp(prefix="c18_")
    old_tmp = tempfile.tempdir
    tempfile.tempdir = priv
    obs = {}
    try:
        docs = os.path.join(priv, "docs")
        os.makedirs(docs)
        names = sorted(case["graph"])
        urls = dict((n, "file://" + os.path.join(docs, n + ".xml")) for n in names)
        back = dict((u, n) for n, u in urls.items())

        def write_all(everything):
            for n in names:
                kind = case["kinds"].get(n, "doc")
                path = os.path.join(docs, n + ".xml")
                if kind == "missing" and not everything:
                    if os.path.exists(path):
                        os.remove(path)
                    continue
                with io.open(path, "w", encoding="utf-8") as fh:
                    fh.write(u"this is not odML <<<" if kind == "garbage"
                             else doc_xml(n, case["graph"][n], urls))

        cache_dir = os.path.join(priv, "odml.cache")
        before = {}
        mode = case.get("cache", "empty")
        if mode in ("warm", "stale"):
            # a previous session fetched the files: stale = long ago, when the now missing
            # resources still existed; warm = recently (missing ones were never there)
            write_all(everything=(mode == "stale"))
            with fw.quiet():
                for n in names:
                    try:
                        fobj = T.cache_load(urls[n])
                        if hasattr(fobj, "close"):
                            fobj.close()
                    except Exception:
                        pass
            age = 2 * 86400 if mode == "stale" else 3600
            now = time.time()
            if os.path.isdir(cache_dir):
                for f in os.listdir(cache_dir):
                    os.utime(os.path.join(cache_dir, f), (now - age, now - age))
        write_all(everything=False)
        if os.path.isdir(cache_dir):
            for f in os.listdir(cache_dir):
                st = os.stat(os.path.join(cache_dir, f))
                before[f] = st.st_mtime_ns

        sch = S.Scheduler(picks=picks, rng=rng)
        key = lambda u: back.get(u, str(u))
        handles = Handles()
        results = []

        with S.Patched(sch, T, "terminologies", "term", key) as term_inst, \
                S.Patched(sch, P, None, "tpl", key, rebind=(), base=P.TemplateHandler) as tpl_inst:
            insts = {"term": term_inst, "tpl": tpl_inst}
            order = ["term", "tpl"]

            def caller():
                for op, tab, name in case["prog"]:
                    inst = insts[tab]
                    try:
                        if op == "load":
                            r = (T.load if tab == "term" else inst.load)(urls[name])
                            results.append({"op": [op, tab, name], "doc": dump_doc(r),
                                            "obj": handles.of(r)})
                        elif op == "deferred":
                            (T.deferred_load if tab == "term" else inst.deferred_load)(urls[name])
                            results.append({"op": [op, tab, name]})
                        elif op == "refresh":
                            T.refresh(urls[name])
                            results.append({"op": [op, tab, name]})
                        elif op == "include":
                            # a fresh document whose section includes `name` (public API path)
                            d = odml.Document()
                            s = odml.Section(name="user", type="t", parent=d)
                            s.include = urls[name]
                            results.append({"op": [op, tab, name],
                                            "props": sorted(p.name for p in s.properties)})
                        elif op == "repository":
                            d = odml.Document()
                            d.repository = urls[name]
                            results.append({"op": [op, tab, name]})
                        else:
                            raise ValueError(op)
                    except S.SchedAbort:
                        raise
                    except Exception as exc:
                        results.append({"op": [op, tab, name], "raised": fw.exc_name(exc)})

            outcome = "ok"
            detail = None
            try:
                with fw.quiet():
                    sch.run(caller, timeout=RUN_TIMEOUT)
            except S.Deadlock as exc:
                outcome, detail = "deadlock", str(exc)
            except S.StepLimit as exc:
                outcome, detail = "steplimit", str(exc)
            except S.HarnessHang as exc:
                outcome, detail = "hang", str(exc)

            tables = {}
            for tab in order:
                inst = insts[tab]
                ent = {}
                for u in sorted(dict.keys(inst), key=key):
                    v = dict.__getitem__(inst, u)
                    ent[key(u)] = {"doc": dump_doc(v), "obj": handles.of(v)}
                tables[tab] = {"loaded": ent,
                               "loading": sorted(key(u) for u in dict.keys(type(inst).loading))}

        cache = {}
        if os.path.isdir(cache_dir):
            for f in sorted(os.listdir(cache_dir)):
                nm = f.split(".", 1)[1][:-4] if "." in f else f
                st = os.stat(os.path.join(cache_dir, f))
                cache[nm] = {"rewritten": before.get(f) != st.st_mtime_ns, "existed": f in before}
        for f in before:
            nm = f.split(".", 1)[1][:-4]
            if nm not in cache:
                cache[nm] = {"deleted": True}

        obs = {
            "outcome": outcome, "detail": detail,
            "picks": sch.chosen,
            "steps": sch.steps,
            "results": results,
            "tables": tables,
            "cache": cache,
            "thread_errors": [[r.tid, fw.exc_name(r.exc)] for r in sch.recs[1:] if r.exc is not None],
            "threads": len(sch.recs),
            "enabled": sch.enabled_sets,
        }
        return obs
    finally:
        tempfile.tempdir = old_tmp
        shutil.rmtree(priv, ignore_errors=True)



# ----------------------------------------------------------------------------- model side helpers
def tree_first_props(tree, names):
    out = ["p_" + names[tree["u"]]]
    if tree["k"] and tree["k"][0] is not None:
        out += tree_first_props(tree["k"][0], names)
    return out


def tree_dump(tree, names):
    """Model content (Tree) -> the canonical dump the implementation side produces."""
    if tree is None:
        return None
    n = names[tree["u"]]
    out = [["m_" + n, sorted(tree_first_props(tree, names))]]
    for k, kid in enumerate(tree["k"][1:], 1):
        props = ["q_%s_%d" % (n, k)]
        if kid is not None:
            props += tree_first_props(kid, names)
        out.append(["i%d" % k, sorted(props)])
    return out


def world_request(case):
    names = sorted(case["graph"])
    idx = dict((n, i) for i, n in enumerate(names))
    graph = [[idx[n], case["kinds"].get(n, "doc"), [idx[m] for m in case["graph"][n]]] for n in names]
    mode = case.get("cache", "empty")
    cache = []
    for n in names:
        kind = case["kinds"].get(n, "doc")
        if mode == "warm" and kind != "missing":
            cache.append([idx[n], "fresh"])
        elif mode == "stale":
            cache.append([idx[n], "stale"])
    prog = []
    for op, tab, name in case["prog"]:
        tpl = tab == "tpl"
        if op in ("load", "deferred", "refresh"):
            prog.append([op, tpl, idx[name]])
        elif op == "include":
            prog += [["deferred", False, idx[name]], ["load", False, idx[name]]]
        elif op == "repository":
            prog.append(["deferred", False, idx[name]])
    return {"p": "C18", "graph": graph, "cache": cache, "prog": prog}, names, idx


class Renumber(object):
    def __init__(self):
        self.m = {}

    def of(self, x):
        if x is None:
            return None
        return self.m.setdefault(x, len(self.m))


PROGS = {
    # name -> caller program (ops on the graph's node names); R is always the root
    "plain": [["load", "term", "R"], ["load", "term", "R"]],
    "deferred_root": [["deferred", "term", "R"], ["load", "term", "R"], ["load", "term", "R"]],
    "deferred_kids": [["deferred", "term", "A"], ["deferred", "term", "D"], ["load", "term", "R"],
                      ["load", "term", "D"]],
    "two_loaders": [["deferred", "term", "A"], ["deferred", "term", "B"], ["load", "term", "R"],
                    ["load", "term", "R"]],
    "leaf_race": [["deferred", "term", "A"], ["load", "term", "D"], ["load", "term", "D"],
                  ["load", "term", "R"], ["load", "term", "D"]],
    "refresh": [["deferred", "term", "A"], ["load", "term", "R"], ["refresh", "term", "R"],
                ["load", "term", "R"]],
    "templates": [["deferred", "tpl", "R"], ["deferred", "term", "A"], ["load", "tpl", "R"],
                  ["load", "tpl", "R"], ["load", "term", "A"]],
    "setters": [["repository", "term", "A"], ["include", "term", "R"], ["load", "term", "R"]],
}


def prog_fits(prog, graph):
    return all(name in graph for _op, _tab, name in prog)


# ----------------------------------------------------------------------------- the check
class C18(fw.Check):
    prop = "C18"
    lean_targets = ["OdmlModel.Props.C18"]
    obligations = ["C18." + t for t in [
        "resolve_is_direct_parse", "load_result_schedule_independent", "table_entries_resolved",
        "cached_identity", "cache_monotone", "failed_fetch_writes_nothing", "no_exception"]]
    trusted_base = [
        "Lean 4.33.0 kernel; axioms propext, Classical.choice, Quot.sound only (audited per theorem)",
        "hand-written model lean/OdmlModel/Model/Loader.lean, tied to /repo by this correspondence run",
        "harness/sched.py (deterministic scheduler, monkeypatched in; mutual exclusion of threading.Lock "
        "is provided by the scheduler's lock and assumed of the real one)",
        "Driver/C18.lean JSON glue and event diffing; harness/framework.py, harness/c18.py",
        "urllib file: fetching, lxml parsing and Section.merge (exercised end to end, abstracted in the model "
        "as the include graph and positional content trees)",
    ]
    assumptions = [
        "partial: fairness-based termination of real threads, the GIL, OS scheduling and network timeouts "
        "are not modelled; `progress` (some thread is always enabled, waits-for edges go down the include "
        "DAG) is the logic part of 'never blocks forever'",
        "interleaving granularity is the property's: accesses to the two shared tables (critical sections "
        "of the handler lock), thread start, join and exit; fetching, cache-file writing and parsing are "
        "atomic with the preceding critical section (concurrent writers of one cache file are not modelled)",
        "resources do not change during a run; a fresh cache file has the content of its resource "
        "(a fresh cache file of a vanished resource is outside the model)",
    ]
    rule = ""
    base_rule = ("scheduled runs of caller programs (deferred_load / load / refresh / include and "
                 "repository setters, terminology and template handlers) over the include graphs "
                 "single, chain, diamond, fan, wide with the leaf present / missing / unparsable and the "
                 "cache empty / warm / stale; quick: seeded random schedules; thorough: one schedule per "
                 "transition of the model's reachable state graph for the small graphs. A case is "
                 "non-trivial when at least one loader thread ran; distinct = distinct canonical JSON "
                 "of the case.")

    def __init__(self):
        self.rule = self.base_rule
        self.explored = {}

    def extra_exhaustive(self, tier):
        return tier == "thorough" and bool(self.explored)

    # -- generation ----------------------------------------------------------
    def random_case(self, rng):
        gname = rng.choice(graph_names())
        graph = GRAPHS[gname]
        leaf = LEAF[gname]
        kinds = {}
        r = rng.random()
        if r < 0.25:
            kinds[leaf] = "missing"
        elif r < 0.5:
            kinds[leaf] = "garbage"
        elif r < 0.56 and "A" in graph:
            kinds["A"] = rng.choice(["missing", "garbage"])
        cache = rng.choice(["empty", "empty", "warm", "stale"])
        if rng.random() < 0.6:
            pname = rng.choice(sorted(p for p in PROGS if prog_fits(PROGS[p], graph)))
            prog = [list(op) for op in PROGS[pname]]
        else:
            names = sorted(graph)
            prog = []
            for _ in range(rng.randrange(0, 4)):
                prog.append([rng.choice(["deferred", "deferred", "repository"]),
                             "term", rng.choice(names)])
            if rng.random() < 0.15:
                prog.append(["deferred", "tpl", "R"])
            for _ in range(rng.randrange(1, 4)):
                r2 = rng.random()
                if r2 < 0.6:
                    prog.append(["load", "term", rng.choice(["R", "R", rng.choice(names)])])
                elif r2 < 0.7:
                    prog.append(["load", "tpl", "R"])
                elif r2 < 0.8:
                    prog.append(["include", "term", rng.choice(names)])
                elif r2 < 0.9:
                    prog.append(["refresh", "term", "R"])
                else:
                    prog.append(["deferred", "term", rng.choice(names)])
            prog.append(["load", "term", "R"])
        return {"g": gname, "graph": graph, "kinds": kinds, "cache": cache, "prog": prog,
                "sched": {"seed": rng.randrange(1 << 30)}}

    def explored_cases(self, budget):
        """One schedule per transition of the model's reachable state graph (thorough tier)."""
        try:
            model = fw.Model(self.driver())
        except fw.Infra:
            return []
        combos = []
        for gname in ("chain", "diamond", "fan"):
            for kind in ("doc", "missing", "garbage"):
                for pname in ("deferred_root", "deferred_kids", "two_loaders", "leaf_race"):
                    if prog_fits(PROGS[pname], GRAPHS[gname]):
                        combos.append((gname, kind, pname, "empty"))
        combos += [("diamond", "doc", "refresh", "warm"), ("chain", "missing", "refresh", "stale"),
                   ("chain", "doc", "templates", "empty"), ("fan", "garbage", "setters", "stale")]
        out = []
        for gname, kind, pname, cache in combos:
            case = {"g": gname, "graph": GRAPHS[gname], "kinds": {} if kind == "doc" else {LEAF[gname]: kind},
                    "cache": cache, "prog": [list(op) for op in PROGS[pname]]}
            req, _names, _idx = world_request(case)
            try:
                ans = model.ask([dict(req, op="explore", limit=60000)])[0]
            except fw.Infra:
                continue
            self.explored["%s/%s/%s/%s" % (gname, kind, pname, cache)] = {
                "states": ans["states"], "transitions": ans["transitions"], "complete": ans["complete"]}
            for picks in ans["schedules"]:
                out.append(dict(case, sched={"picks": picks}))
        total = len(out)
        if len(out) > budget:
            step = len(out) / float(budget)
            out = [out[int(i * step)] for i in range(budget)]
        self.rule = self.base_rule + " Explored state graphs (states/transitions, all transitions " \
            "scheduled unless sampled): %s; schedules run: %d of %d." % (
                json.dumps(self.explored, sort_keys=True), len(out), total)
        return out

    def generate(self, tier, rng):
        n = 1000 if tier == "quick" else 4000
        cases = [self.random_case(rng) for _ in range(n)]
        if tier == "thorough":
            cases += self.explored_cases(60000)
        return cases

    # -- implementation ------------------------------------------------------
    def impl(self, case):
        sc = case.get("sched", {})
        if "picks" in sc:
            return run_scenario(case, picks=sc["picks"])
        return run_scenario(case, rng=random.Random(sc.get("seed", 0)))

    # -- model ---------------------------------------------------------------
    def model_requests(self, case, obs):
        if obs.get("outcome") == "hang":
            raise fw.Infra("C18 harness-side hang (no scheduling point reached): %s" % obs.get("detail"))
        req, _names, _idx = world_request(case)
        return [dict(req, op="run", picks=obs["picks"], max=4000)]

    def compare(self, case, obs, answers):
        ans = answers[0]
        _req, names, idx = world_request(case)
        out = []
        if ans["outcome"] != obs["outcome"]:
            out.append("model outcome %s, implementation outcome %s" % (ans["outcome"], obs["outcome"]))
        if ans["err"]:
            out.append("model reached its error state")
        if obs["steps"] and obs["steps"][0]["ev"]:
            out.append("implementation touched the tables before its first scheduling point: %s"
                       % obs["steps"][0]["ev"])
        isteps = obs["steps"][1:]
        msteps = ans["steps"]

        def canon_ev(ev, impl):
            ev = list(ev)
            if impl and len(ev) == 3 and ev[2] is not None:
                ev[2] = idx.get(ev[2], ev[2])
            return json.dumps(ev)
        for i in range(max(len(isteps), len(msteps))):
            a = isteps[i] if i < len(isteps) else None
            b = msteps[i] if i < len(msteps) else None
            ca = None if a is None else [a["t"], sorted(canon_ev(e, True) for e in a["ev"])]
            cb = None if b is None else [b["t"], sorted(canon_ev(e, False) for e in b["ev"])]
            if ca != cb:
                out.append("step %d: implementation %s, model %s" % (i, ca, cb))
                break
        # results
        ri, rm = Renumber(), Renumber()
        mres = list(ans["results"])
        pos = 0
        for r in obs["results"]:
            op = r["op"][0]
            width = 2 if op == "include" else 1
            ms = mres[pos:pos + width]
            pos += width
            if len(ms) < width:
                out.append("model completed fewer operations than the implementation (%s)" % r["op"])
                break
            if "raised" in r:
                out.append("implementation raised %s in %s; the model has no such transition"
                           % (r["raised"], r["op"]))
                continue
            m = ms[-1]
            if op == "load":
                want = tree_dump(m["val"]["doc"], names)
                if want != r["doc"]:
                    out.append("%s: model %s, implementation %s" % (r["op"], want, r["doc"]))
                if ri.of(r["obj"]) != rm.of(m["val"]["obj"]):
                    out.append("%s: object identity pattern differs (model obj %s, implementation obj %s)"
                               % (r["op"], m["val"]["obj"], r["obj"]))
            elif op == "include":
                tree = m["val"]["doc"]
                want = sorted(tree_first_props(tree, names)) if tree is not None else []
                if want != r["props"]:
                    out.append("%s: model merges %s, implementation %s" % (r["op"], want, r["props"]))
                ri.of(None)
        if pos != len(mres) and not out:
            out.append("model completed %d operations, implementation %d" % (len(mres), pos))
        for tab in ("term", "tpl"):
            ment = dict((names[u], v) for u, v in ans["tables"][tab]["loaded"])
            ient = obs["tables"][tab]["loaded"]
            if sorted(ment) != sorted(ient):
                out.append("%s table keys: model %s, implementation %s" % (tab, sorted(ment), sorted(ient)))
                continue
            for n in sorted(ment):
                if tree_dump(ment[n]["doc"], names) != ient[n]["doc"]:
                    out.append("%s[%s]: model %s, implementation %s"
                               % (tab, n, tree_dump(ment[n]["doc"], names), ient[n]["doc"]))
                if ri.of(ient[n]["obj"]) != rm.of(ment[n]["obj"]):
                    out.append("%s[%s]: object identity pattern differs" % (tab, n))
            mload = sorted(names[u] for u in ans["tables"][tab]["loading"])
            if mload != obs["tables"][tab]["loading"]:
                out.append("%s.loading leftovers: model %s, implementation %s"
                           % (tab, mload, obs["tables"][tab]["loading"]))
        for u, st, wcount in ans["cache"]:
            n = names[u]
            ic = obs["cache"].get(n)
            if (st != "absent") != (ic is not None and not ic.get("deleted")):
                out.append("cache file of %s: model %s, implementation %s" % (n, st, ic))
            elif ic is not None and not ic.get("deleted"):
                if (wcount > 0) != bool(ic["rewritten"] or not ic["existed"]):
                    out.append("cache file of %s: model wrote it %d times, implementation %s" % (n, wcount, ic))
        return out[:6]

    # -- oracle (property over the public API, independent of the model) ------
    def oracle(self, case, obs):
        if "harness_exception" in obs or obs.get("outcome") == "hang":
            return []
        out = []
        sched = "schedule %s" % obs["picks"]
        if obs["outcome"] == "deadlock":
            out.append("blocks forever: %s under %s" % (obs["detail"], sched))
        elif obs["outcome"] != "ok":
            out.append("does not terminate: %s under %s" % (obs["detail"], sched))
        for tid, name in obs["thread_errors"]:
            out.append("loader thread %d died with %s under %s" % (tid, name, sched))
        last = {}            # (tab, name) -> object handle of the last load since the last refresh
        for r in obs["results"]:
            op, tab, name = r["op"]
            if "raised" in r:
                out.append("%s(%s) raised %s under %s" % (op, name, r["raised"], sched))
                continue
            if op == "refresh":
                last = {}
            elif op == "load":
                want = spec_doc(case, name)
                if r["doc"] != want:
                    out.append("load(%s) returned %s, direct parse + finalize gives %s under %s"
                               % (name, r["doc"], want, sched))
                if r["obj"] is not None:
                    if (tab, name) in last and last[(tab, name)] != r["obj"]:
                        out.append("load(%s) returned a different object than the previous load "
                                   "(no refresh in between) under %s" % (name, sched))
                    last[(tab, name)] = r["obj"]
            elif op == "include":
                want = sorted(spec_first_props(case, name)) if spec_ok(case, name) else []
                if r["props"] != want:
                    out.append("include of %s merged %s, expected %s under %s" % (name, r["props"], want, sched))
        if obs["outcome"] == "ok":
            for tab in ("term", "tpl"):
                for n, ent in sorted(obs["tables"][tab]["loaded"].items()):
                    if ent["doc"] != spec_doc(case, n):
                        out.append("%s table holds %s for %s, direct parse + finalize gives %s under %s"
                                   % (tab, ent["doc"], n, spec_doc(case, n), sched))
                    if (tab, n) in last and ent["obj"] != last[(tab, n)]:
                        out.append("the cached object of %s is not the one the last load returned under %s"
                                   % (n, sched))
        for n, ent in sorted(obs["cache"].items()):
            if case["kinds"].get(n, "doc") == "missing":
                if ent.get("deleted"):
                    out.append("cache file of unfetchable %s was deleted under %s" % (n, sched))
                elif not ent["existed"]:
                    out.append("failed fetch of %s created a cache file under %s" % (n, sched))
                elif ent["rewritten"]:
                    out.append("failed fetch of %s overwrote its cache file under %s" % (n, sched))
        return out[:6]

    def tag(self, case, obs):
        kinds = ",".join("%s=%s" % kv for kv in sorted(case["kinds"].items())) or "all-doc"
        return ("%s:%s:%s:%s" % (case.get("g", "?"), kinds, case.get("cache", "empty"),
                                 obs.get("outcome", "?")), obs.get("threads", 1) > 1)


if __name__ == "__main__":
    sys.exit(fw.main(C18(), sys.argv[1:]))
