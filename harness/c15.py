# -*- coding: utf-8 -*-
"""
C15 - Version conversion 1.0 -> 1.1 keeps the content and yields a loadable file.

Tie between lean/OdmlModel/Model/Conv.lean and /repo:
  odml.tools.converters.VersionConverter (convert / write_to_file / conversion_log) and
  odml.tools.xmlparser.XMLReader(ignore_errors=False) on the result.

Streams
  conv   generated 1.0 documents (abstract trees for XML, typed dicts for JSON / YAML) x
         StringIO / file input; the converted text is parsed with bare lxml and compared with the
         model's `convertTree`, the log with `convertLog`, the strictly loaded document with the
         model's `readDoc`; the oracle compares the loaded document with an independent Python
         statement of the 1.0 content, checks the log mentions everything dropped and that the
         source bytes are unchanged.
         Optional case keys (added after seeded round 2): "backend" = spelling of the backend
         argument ("xml", "Json", ... or "default" = argument left out), "surface" = surface
         syntax of the source text (pretty-printed, XML declaration with / without encoding,
         stylesheet PI, comments before / after the root, file encodings and BOM; JSON written
         with raw non-ASCII); "#comment" / "#pi" nodes inside the tree = XML comments and
         processing instructions at that place (the model is asked about the tree without them).
         A few generated documents get a root that already declares format version 1.1 (what
         FormatConverter feeds the converter as well): there the single value element of a Property
         is the encoded value list of the 1.1 format and is kept as it is (`encoded_values`).
  hist   operation histories on ONE converter object: convert / write_to_file / str() in any
         order, refused calls (unknown backend), failing calls (wrong backend, target in a missing
         directory), the source rewritten between two calls, another converter working in
         between; after every step the output, the log, the source and the created files are
         observed and every delivered output is judged like a single conversion.
         For StringIO sources the model is also asked which text reaches the XML parser (`dropDecl`,
         Model/ConvText.lean: the XML declaration is taken off, whatever encoding it names).
         Added after seeded round 5: the declaration of a StringIO text / of a file names any
         encoding (ISO-8859-1, windows-1252, UTF-16, US-ASCII, Shift_JIS, ...; quotes, standalone),
         Windows line ends, CDATA sections, <a></a>, DOCTYPE, YAML byte order mark / scalar styles,
         source file names (blank, non-ASCII, no / other extension), non-ASCII text in every place
         of the document (units, definitions, file names, author, dropped elements, ...).
  csv    random value texts through xmlparser.from_csv and the model's `fromCsv`.
  uuid   id texts through uuid.UUID and the model's `parseUuid`.
  tables VersionConverter._version_map against the model's `versionMap`.
"""
import io
import json
import os
import re
import shutil
import subprocess
import sys
import tempfile
import uuid as uuidlib

import framework as fw

FRESH = "#fresh-uuid4#"
UUID4 = re.compile(r"^[0-9a-f]{8}-[0-9a-f]{4}-4[0-9a-f]{3}-[89ab][0-9a-f]{3}-[0-9a-f]{12}$")

PROP_KEYS_11 = ["id", "name", "value", "unit", "definition", "dependency", "dependencyvalue",
                "uncertainty", "reference", "type", "value_origin", "val_cardinality"]


# ----------------------------------------------------------------------------- trees <-> text
def T(tag, text="", kids=None, attrs=None):
    return [tag, attrs or [], text or "", kids or []]


def xml_escape(s, attr=False):
    s = s.replace("&", "&amp;").replace("<", "&lt;").replace(">", "&gt;").replace("\r", "&#13;")
    if attr:
        s = s.replace('"', "&quot;").replace("\n", "&#10;").replace("\t", "&#9;")
    return s


def is_misc(t):
    """comment / processing instruction node of a generated tree"""
    return t[0] in ("#comment", "#pi")


def misc_to_xml(t):
    return "<!--%s-->" % t[2] if t[0] == "#comment" else "<?%s?>" % t[2]


def strip_misc(t):
    return [t[0], t[1], t[2], [strip_misc(k) for k in t[3] if not is_misc(k)]]


def has_misc(t):
    return is_misc(t) or any(has_misc(k) for k in t[3])


def cdata_ok(text, enc):
    """texts that may be written as one CDATA section without changing what they mean: no ']]>', no
    carriage return (a literal one is normalised away, only a character reference keeps it), not
    blank (blank text may be dropped by the parser, blank CDATA is not), every character in the
    encoding of the file (there are no character references inside CDATA)"""
    try:
        text.encode(enc or "utf-8")
    except (UnicodeError, LookupError):
        return False
    return bool(text.strip()) and "]]>" not in text and "\r" not in text


def attrs_to_xml(attrs, opt=None):
    if (opt or {}).get("squote"):
        return "".join(" %s='%s'" % (k, xml_escape(v, True).replace("'", "&apos;")) for k, v in attrs)
    return "".join(' %s="%s"' % (k, xml_escape(v, True)) for k, v in attrs)


def tree_to_xml(t, opt=None):
    """opt (all optional; other ways to write down the same tree): "cdata" - every second suitable
    element text as a CDATA section ("enc": the encoding the file is going to be written in), "longempty" - <a></a> instead of <a/>, "squote" - XML
    attributes in single quotes"""
    if is_misc(t):
        return misc_to_xml(t)
    opt = opt or {}
    tag, attrs, text, kids = t
    a = attrs_to_xml(attrs, opt)
    if opt.get("cdata") and cdata_ok(text, opt.get("enc")) and (len(text) + len(kids)) % 2 == 0:
        body = "<![CDATA[%s]]>" % text
    else:
        body = xml_escape(text)
    inner = body + "".join(tree_to_xml(k, opt) for k in kids)
    if not inner and not opt.get("longempty"):
        return "<%s%s/>" % (tag, a)
    return "<%s%s>%s</%s>" % (tag, a, inner, tag)


def tree_to_pretty(t, depth=0, opt=None):
    """The same document indented the way the 1.0 files are: element-only content on lines of
    its own; an element with text is left on one line (white space there would be content)."""
    pad = "  " * depth
    if is_misc(t):
        return pad + misc_to_xml(t) + "\n"
    tag, attrs, text, kids = t
    if text or not kids:
        return pad + tree_to_xml(t, opt) + "\n"
    a = attrs_to_xml(attrs, opt)
    return "%s<%s%s>\n%s%s</%s>\n" % (pad, tag, a, "".join(tree_to_pretty(k, depth + 1, opt) for k in kids), pad, tag)


def lxml_to_tree(el, notes):
    """bare lxml element -> abstract tree; anything the abstract tree cannot hold is noted."""
    kids = []
    for k in el:
        if not isinstance(k.tag, str):
            notes.append("non-element node")
            continue
        kids.append(lxml_to_tree(k, notes))
        if k.tail is not None and k.tail.strip():
            notes.append("tail text %r after <%s>" % (k.tail, k.tag))
    return [el.tag, [[k, v] for k, v in el.attrib.items()], el.text if el.text is not None else "", kids]


def parse_text(text, notes):
    from lxml import etree
    parser = etree.XMLParser(remove_blank_text=True)
    root = etree.fromstring(text.encode("utf-8") if isinstance(text, str) else text, parser)
    return lxml_to_tree(root, notes)


# ----------------------------------------------------------------------------- typed dicts
def scalar_py(s):
    return s


def dval_py(v):
    return dict((k, scalar_py(s)) for k, s in v)


def dprop_py(p):
    out = {}
    for it in p:
        if it[0] == "attr":
            out[it[1]] = scalar_py(it[2])
        else:
            out["values"] = [dval_py(v) for v in it[1]]
    return out


def dsec_py(s):
    out = {}
    for it in s:
        if it[0] == "attr":
            out[it[1]] = scalar_py(it[2])
        elif it[0] == "props":
            out["properties"] = [dprop_py(p) for p in it[1]]
        else:
            out["sections"] = [dsec_py(x) for x in it[1]]
    return out


def s_text(s):      # Document / Section / Property level
    return "" if s is None else (s if isinstance(s, str) else str(s))


def s_str(s):       # value level: str(x)
    return str(s)


def dval_tree(v):
    text = ""
    kids = []
    for k, s in v:
        if k == "value":
            text = s_str(s)
        elif k:
            kids.append(T(k, s_str(s)))
    return T("value", text, kids)


def dprop_tree(p):
    kids = []
    for it in p:
        if it[0] == "attr":
            if it[1]:
                kids.append(T(it[1], s_text(it[2])))
        else:
            kids += [dval_tree(v) for v in it[1]]
    return T("property", "", kids)


def dsec_tree(s, tag="section"):
    """What the typed dict means as a 1.0 tree (oracle side, independent of the model)."""
    kids = []
    for it in s:
        if it[0] == "attr":
            if it[1]:
                kids.append(T(it[1], s_text(it[2])))
        elif it[0] == "props":
            kids += [dprop_tree(p) for p in it[1]]
        else:
            kids += [dsec_tree(x) for x in it[1]]
    return T(tag, "", kids)


# ----------------------------------------------------------------------------- oracle spec
WS = None   # Python's own str.strip() is the reference


def find(kids, tag):
    for k in kids:
        if k[0] == tag:
            return k
    return None


def py_uuid(text):
    try:
        return str(uuidlib.UUID(text)) if text else None
    except ValueError:
        return None


def spec_id(kids):
    k = find(kids, "id")
    if k is None:
        return FRESH
    return py_uuid(k[2]) or FRESH


def descend(t):
    out = []
    for k in t[3]:
        out.append(k)
        out += descend(k)
    return out


SUFFIXED = "\x00numeric suffix:"


def spec_names(ns):
    """The names a group of siblings with the source names ns has after the conversion: the first
    sibling with a name keeps it, the k-th one gets '-k'.  Where that rule would give two siblings
    the same name (a sibling is literally called 'p-2'), the property only says that the names are
    made unique by a numeric suffix: the renamed siblings are then specified as SUFFIXED + name
    (any number), and content_diff demands pairwise different sibling names in every case."""
    def rule(mark):
        out, prev = [], []
        for n in ns:
            c = prev.count(n)
            prev.append(n)
            out.append(n if c == 0 else (SUFFIXED + n if mark else "%s-%d" % (n, c + 1)))
        return out
    plain = rule(False)
    return plain if len(set(plain)) == len(plain) else rule(True)


def name_matches(want, got):
    """want: a stripped name, or SUFFIXED + source name (stripped on the right only)"""
    if not want.startswith(SUFFIXED):
        return want == got
    base = want[len(SUFFIXED):]
    m = re.match(r"^(.*)-([1-9][0-9]*)$", got, re.S)
    return m is not None and (base + "-" + m.group(2)).strip() == got


def spec_prop(p, name, encoded=False):
    kids = p[3]
    values = [k for k in kids if k[0] == "value"]
    vals = [v[2].strip() for v in values if v[2].strip()]
    if encoded and len(vals) == 1:
        # the source already is a 1.1 document (what FormatConverter feeds the converter as well,
        # see C17): its single value element holds the encoded list of the 1.1 format
        try:
            from odml.tools.xmlparser import from_csv
            vals = [str(v) for v in from_csv(vals[0])]
        except ImportError:
            pass
    lifted = []
    for v in values:
        for d in descend(v):
            if d[0] == "value":
                continue
            tag = {"filename": "value_origin", "dtype": "type"}.get(d[0], d[0])
            text = d[2]
            if d[0] in ("type", "dtype") and text == "binary":
                text = "text"
            lifted.append((tag, text))

    def attr(tag):
        own = find(kids, tag)
        if own is not None:
            return own[2].strip()
        for t, x in lifted:
            if t == tag:
                return x.strip()
        return ""
    dv = find(kids, "dependency_value")
    return {"name": name.strip(), "values": vals, "unit": attr("unit"),
            "uncertainty": attr("uncertainty"), "dtype": attr("type"),
            "value_origin": attr("value_origin"), "definition": attr("definition"),
            "reference": attr("reference"), "dependency": attr("dependency"),
            "dependency_value": dv[2].strip() if dv is not None else attr("dependencyvalue"),
            "id": spec_id(kids)}


def spec_sec(s, name, encoded=False):
    kids = s[3]
    named = [k for k in kids if k[0] == "property" and find(k[3], "name") is not None]
    props = [spec_prop(k, name, encoded)
             for k, name in zip(named, spec_names([find(k[3], "name")[2] for k in named]))]
    ft = lambda tag: (find(kids, tag) or T(tag))[2].strip()
    return {"name": name.strip(), "type": ft("type"), "definition": ft("definition"),
            "id": spec_id(kids), "props": props, "secs": spec_secs(kids, encoded)}


def spec_secs(kids, encoded=False):
    secs = [k for k in kids if k[0] == "section"]
    names = spec_names([(find(k[3], "name") or T("name"))[2] for k in secs])
    return [spec_sec(k, name, encoded) for k, name in zip(secs, names)]


def spec_doc(tree):
    encoded = dict((k, v) for k, v in tree[1]).get("version") == "1.1"
    return {"id": spec_id(tree[3]), "secs": spec_secs(tree[3], encoded)}


def dropped_items(tree, sec_keys, doc_keys):
    """(tag, text) of every element the 1.1 document has no place for, and the markers of unnamed
    Properties; what the conversion log has to mention."""
    out = []

    def in_prop(p):
        nm = find(p[3], "name")
        if nm is None:
            out.append(("unnamed", None, p))
            return
        have = {}
        for k in p[3]:
            if k[0] != "value":
                have.setdefault(k[0], k[2])
        for k in p[3]:
            if k[0] == "value":
                for d in descend(k):
                    if d[0] == "value":
                        continue
                    tag = {"filename": "value_origin", "dtype": "type"}.get(d[0], d[0])
                    if tag in have:
                        if have[tag] != d[2]:
                            out.append(("elem", d[0], d[2]))
                    elif tag in PROP_KEYS_11:
                        have[tag] = d[2]
                    else:
                        out.append(("elem", d[0], d[2]))
            elif k[0] not in PROP_KEYS_11 and k[0] != "dependency_value":
                out.append(("elem", k[0], k[2]))

    def in_sec(s, keys):
        for k in s[3]:
            if k[0] == "property":
                in_prop(k)
                if "property" not in keys:
                    out.append(("elem", k[0], k[2]))
            elif k[0] == "section":
                in_sec(k, sec_keys)
            elif k[0] not in keys:
                out.append(("elem", k[0], k[2]))
    in_sec(tree, doc_keys)
    return out


def loaded_doc(doc):
    def s(v):
        return "" if v is None else str(v)

    def prop(p):
        return {"name": s(p.name), "values": [str(v) for v in p.values], "unit": s(p.unit),
                "uncertainty": s(p.uncertainty), "dtype": s(p.dtype),
                "value_origin": s(p.value_origin), "definition": s(p.definition),
                "reference": s(p.reference), "dependency": s(p.dependency),
                "dependency_value": s(p.dependency_value), "id": s(p.id)}

    def sec(x):
        return {"name": s(x.name), "type": s(x.type), "definition": s(x.definition), "id": s(x.id),
                "props": [prop(p) for p in x.properties], "secs": [sec(y) for y in x.sections]}
    return {"id": s(doc.id), "secs": [sec(x) for x in doc.sections]}


def content_diff(want, got, path="doc", ids=None):
    """Differences between a specified content (ids: FRESH marker = any new uuid4) and an
    observed one."""
    out = []
    if ids is None:
        ids = []
    if isinstance(want, dict):
        for k in want:
            if k == "id":
                if want[k] == FRESH:
                    if not UUID4.match(got[k] or ""):
                        out.append("ids: %s.id is %r, not a new uuid4" % (path, got[k]))
                    ids.append(got[k])
                elif want[k] != got[k]:
                    out.append("ids: %s.id is %r, expected the kept id %r" % (path, got[k], want[k]))
            elif k in ("props", "secs"):
                if len(want[k]) != len(got[k]):
                    out.append("tree: %s has %d %s, expected %d (%s vs %s)"
                               % (path, len(got[k]), k, len(want[k]),
                                  [x["name"] for x in got[k]], [x["name"] for x in want[k]]))
                else:
                    for i, (a, b) in enumerate(zip(want[k], got[k])):
                        out += content_diff(a, b, "%s.%s[%d]" % (path, k, i), ids)
                names = [x["name"] for x in got[k]]
                if len(set(names)) != len(names):
                    out.append("names: %s has %s with the same name: %s" % (path, k, names))
            elif k == "dtype" and want[k] == "":
                pass            # no dtype in the source: the library infers one from the values
            elif k == "name":
                if not name_matches(want[k], got[k]):
                    out.append("names: %s.name is %r, expected %r" % (
                        path, got[k], want[k].replace(SUFFIXED, "a numeric suffix on ")))
            elif want[k] != got[k]:
                kind = "values" if k == "values" else ("names" if k == "name" else "attrs")
                out.append("%s: %s.%s is %r, expected %r" % (kind, path, k, got[k], want[k]))
    return out


# ----------------------------------------------------------------------------- generator
NAMES = ["a", "b", "p", "p-2", "p-3", "a-2", "s", "s-2", "ab", "q", "p-10", "\u00f1"]
NAMES_WF = ["a", "b", "p", "q", "s", "ab", "\u00f1"]
TYPES = ["t", "recording", "subject/animal", "t\u00ffpe"]
WORDS = ["a", "b", "c", "x y", "1", "12", "w1", "é", "v", "zz", "\u540d"]
COMMENTS = [" note ", "c", " <section> old </section> ", "", " a - b ", " was <?xml version='1.0'?> ", "?>"]
TRICKY = ["a,b", "c,", ",", 'say "hi"', '"q"', '"', "[x]", "[x", "y]", "[a,b]", "a\nb", " lead", "trail ",
          " nb ", " ", "  ", "\n", "a;b", "(1;2)", "x\ty", "['one', 'two']", "a]b[c", "<&>",
          "a\rb", '"a,b"', "[]", "[", "]", "a, b", "''"]
VALID_IDS = ["79b613eb-a256-46bf-84f6-207df465b8f7", "{79B613EB-A256-46BF-84F6-207DF465B8F7}",
             "urn:uuid:12345678-1234-5678-1234-567812345678", "12345678123456781234567812345678",
             "ABCDEF00-0000-4000-8000-00000000000A"]
BAD_IDS = ["xyz", "1234", "79b613eb-a256-46bf-84f6-207df465b8fz", "79b613eb-a256-46bf-84f6-207df465b8f",
           "79b613eb-a256-46bf-84f6-207df465b8f77", "not an id", "",
           " 79b613eb-a256-46bf-84f6-207df465b8f7 "]
UNSUPPORTED = ["mapping", "foo", "Name", "synonym", "comment", "checksum", "encoder", "filename", "dtype",
               "values", "odML"]
VATTR_UNSUP = ["encoder", "checksum", "comment", "foo", "Unit"]
# non-ASCII text (BMP, no character Python's strip() takes for white space) for every place of a
# document that holds text: what a 1.0 file written in ISO-8859-1 / windows-1252 / UTF-16 is full of
UNI_NAMES = ["Gr\u00f6\u00dfe", "Messger\u00e4t", "\u00f1", "\u540d\u524d", "\u0394t", "caf\u00e9"]
UNI_WORDS = ["gro\u00df", "\u00b5", "\u00e9t\u00e9", "\u20ac 5", "\u540d", "na\u00efve", "\u00c5"]
UNI_POOLS = {"unit": ["\u00b5m", "\u03a9", "\u00b0C"], "uncertainty": ["0.1", "2"],
             "filename": ["d\u00e4tei.txt", "g.dat"], "definition": ["Gr\u00f6\u00dfe in \u00b5m", "d\u00e9f two"],
             "reference": ["r\u00e9f1", "ref2"]}


class Gen(object):
    def __init__(self, rng, profile, uni=False):
        self.r = rng
        self.p = profile      # "wf": plain value texts, no sibling called 'p-2'; "wild": everything
        self.uni = uni        # non-ASCII text in names, types, values, units, definitions, ... as well
        self.marker = 0

    def pool(self, tag, plain):
        return UNI_POOLS[tag] if (self.uni and tag in UNI_POOLS) else plain

    def words(self, plain, uni_words=None):
        """a text from `plain`; in a non-ASCII document half of the time a non-ASCII one"""
        if self.uni and self.chance(0.5):
            return self.r.choice(uni_words or UNI_WORDS)
        return self.r.choice(plain)

    # -- XML comments / processing instructions at any level --------------------
    def misc(self):
        if self.chance(0.7):
            return T("#comment", self.r.choice(COMMENTS))
        return T("#pi", self.r.choice(["note keep", "x-odml a=\"b\""]))

    def decorate(self, tree, n, in_values):
        """n comments / PIs at random places inside the document, root / Section / Property
        level and (in_values) inside value elements."""
        spots = []

        def walk(t):
            if t[0] in ("odML", "section", "property"):
                spots.append(t)
            elif t[0] == "value" and in_values:
                spots.append(t)
            for k in t[3]:
                walk(k)
        walk(tree)
        plain = [t for t in spots if t[0] != "value"]
        for _ in range(n):
            pool = spots if (in_values and self.chance(0.5)) else plain
            vals = [t for t in pool if t[0] == "value"]
            t = self.r.choice(vals) if (vals and in_values and self.chance(0.6)) else self.r.choice(pool)
            t[3].insert(self.r.randrange(len(t[3]) + 1), self.misc())
        return tree

    # -- boundary sizes: 10 and more siblings of one name, many value elements, deep chains --
    def crowd_props(self):
        name = self.name()
        out = []
        for i in range(self.r.choice([10, 11, 12, 13])):
            kids = [T("name", name), T("value", "v%d" % i)]
            if self.chance(0.3):
                kids += self.idkid()
            out.append(T("property", "", kids))
        return out

    def crowd_secs(self):
        name = self.name()
        out = []
        for i in range(self.r.choice([10, 11, 12])):
            kids = [T("name", name), T("type", "t")]
            if self.chance(0.3):
                kids.append(T("property", "", [T("name", "p"), T("value", str(i))]))
            out.append(T("section", "", kids))
        return out

    def chain(self, n):
        kids = [T("name", self.name()), T("type", self.r.choice(TYPES)), self.prop()] + self.idkid()
        if n > 1:
            kids.append(self.chain(n - 1))
            if self.chance(0.5):
                kids.append(self.chain(1))
        return T("section", "", kids)

    def chance(self, x):
        return self.r.random() < x

    def name(self):
        if self.uni and self.chance(0.45):
            return self.r.choice(UNI_NAMES)
        if self.p == "wf":
            return self.r.choice(NAMES_WF)
        return self.r.choice(NAMES)

    def idkid(self):
        c = self.r.random()
        if c < 0.45:
            return []
        if c < 0.75:
            return [T("id", self.r.choice(VALID_IDS))]
        return [T("id", self.r.choice(BAD_IDS))]

    def inert(self, tag):
        t = T(tag, self.words(["", "u1", "some text", "x"], ["\u00fcbrig", "\u00b5", "r\u00e9sum\u00e9 1"]))
        if self.chance(0.2):
            t[3] = [T(self.r.choice(["deep", "foo", "name", "unit"]), self.words(["", "d"]))]
        return t

    def vtext(self, dtype):
        if dtype == "int":
            return str(self.r.choice([0, 1, 7, 12, 345, -3]))
        if self.p == "wild" and self.chance(0.4):
            return self.r.choice(TRICKY)
        w = self.words(WORDS)
        if self.chance(0.2):
            w = self.r.choice([" ", "\n   ", ""]) + w + self.r.choice([" ", "\n  ", ""])
        return w

    def value(self, dtype, attrs_here, conflict):
        kids = []
        if attrs_here:
            if dtype is not None and self.chance(0.8):
                d = dtype
                if conflict and dtype in ("string", "text") and self.chance(0.5):
                    d = self.r.choice(["string", "text"])
                kids.append(T(self.r.choice(["type", "dtype"]), d))
            for tag, pool in (("unit", ["mV", "s", "V"]), ("uncertainty", ["0.1", "2"]),
                              ("filename", ["f.txt", "g.dat"]), ("definition", ["def one", "def two"]),
                              ("reference", ["ref1", "ref2"])):
                if self.chance(0.35):
                    pool = self.pool(tag, pool)
                    kids.append(T(tag, pool[0] if not conflict else self.r.choice(pool)))
            if self.chance(0.25):
                kids.append(T(self.r.choice(VATTR_UNSUP), self.words(["", "e1", "chk"], ["pr\u00fcf", "\u00e9"])))
            if self.chance(0.05):
                kids.append(self.inert(self.r.choice(VATTR_UNSUP)))
            if self.chance(0.05):
                kids.append(T("unit", ""))
            self.r.shuffle(kids)
        empty = self.chance(0.07)
        return T("value", "" if empty else self.vtext(dtype), kids)

    def prop(self):
        kids = []
        named = not self.chance(0.1)
        if named:
            kids.append(T("name", self.name()))
        else:
            self.marker += 1
        dtype = self.r.choice([None, "string", "string", "text", "int", "binary"])
        nvals = self.r.choice([0, 1, 1, 2, 2, 3, 4])
        if self.chance(0.04):
            nvals = self.r.choice([5, 9, 10, 11, 12])
        where = self.r.choice(["first", "later", "all", "none", "random"])
        conflict = self.chance(0.4)
        vals = []
        for i in range(nvals):
            here = {"first": i == 0, "later": i > 0, "all": True, "none": False,
                    "random": self.chance(0.5)}[where]
            vals.append(self.value(dtype, here, conflict))
        if not named:
            vals.append(T("value", "UNNAMED%d" % self.marker))
        extra = []
        if self.chance(0.3):
            extra.append(T("definition", self.words(["def one", "prop def"], UNI_POOLS["definition"])))
        if self.chance(0.2):
            extra.append(T("dependency", self.words(["dep"], UNI_NAMES)))
        if self.chance(0.25):
            extra.append(T(self.r.choice(["dependency_value", "dependencyvalue"]), self.words(["dv"])))
        if self.chance(0.25):
            extra.append(self.inert(self.r.choice(UNSUPPORTED)))
        extra += self.idkid()
        kids += extra
        if self.chance(0.3):
            self.r.shuffle(kids)
        pos = self.r.randrange(len(kids) + 1)
        if self.chance(0.6):
            kids = kids[:pos] + vals + kids[pos:]
        else:
            for v in vals:
                kids.insert(self.r.randrange(len(kids) + 1), v)
        return T("property", "", kids)

    def section(self, depth):
        kids = [T("name", self.name()), T("type", self.r.choice(TYPES))]
        if self.chance(0.3):
            kids.append(T("definition", self.words(["sec def"], ["Abschnitt f\u00fcr Gr\u00f6\u00dfen"])))
        kids += self.idkid()
        if self.chance(0.3):
            kids.append(self.inert(self.r.choice(UNSUPPORTED)))
        for _ in range(self.r.choice([0, 1, 2, 2, 3, 4])):
            kids.append(self.prop())
        if self.chance(0.02):
            kids += self.crowd_props()
        if depth < 3:
            for _ in range(self.r.choice([0, 0, 1, 2, 3] if depth else [1, 2, 3])):
                kids.append(self.section(depth + 1))
            if self.chance(0.01):
                kids += self.crowd_secs()
        if self.chance(0.3):
            head, rest = kids[:2], kids[2:]
            self.r.shuffle(rest)
            kids = head + rest
        if self.chance(0.1):
            self.r.shuffle(kids)
        return T("section", "", kids)

    def doc(self):
        kids = []
        if self.chance(0.6):
            kids.append(T("author", self.words(["me"], ["J\u00fcrgen M\u00fcller", "\u540d\u524d"])))
        if self.chance(0.6):
            kids.append(T("date", "2008-07-07"))
        if self.chance(0.4):
            kids.append(T("version", "v1.13"))
        kids += self.idkid()
        if self.chance(0.3):
            kids.append(self.inert(self.r.choice(UNSUPPORTED[:-1])))
        if self.chance(0.08):
            kids.append(self.prop())
        for _ in range(self.r.choice([0, 1, 1, 2, 3])):
            kids.append(self.section(0))
        if self.chance(0.03):
            kids.append(self.chain(self.r.choice([5, 6, 8, 9])))
        if self.chance(0.4):
            self.r.shuffle(kids)
        attrs = [["version", "1"]] if self.chance(0.8) else []
        return T("odML", "", kids, attrs)

    # -- typed dict documents (JSON / YAML) -----------------------------------
    def d_scalar_value(self, dtype):
        if dtype == "int" and self.chance(0.5):
            return self.r.choice([0, 1, 7, 12, 345])
        return self.vtext(dtype) or "v"

    def d_val(self, dtype, here, conflict):
        items = []
        if not self.chance(0.05):
            items.append(["value", self.d_scalar_value(dtype)])
        if here:
            if dtype is not None and self.chance(0.8):
                d = dtype
                if conflict and dtype in ("string", "text") and self.chance(0.5):
                    d = self.r.choice(["string", "text"])
                items.append([self.r.choice(["type", "dtype"]), d])
            for tag, pool in (("unit", ["mV", "s"]), ("uncertainty", ["0.1", 2]), ("filename", ["f.txt", "g"]),
                              ("definition", ["def one", "def two"]), ("reference", ["ref1", "ref2"])):
                if self.chance(0.3):
                    if tag != "uncertainty":
                        pool = self.pool(tag, pool)
                    items.append([tag, pool[0] if not conflict else self.r.choice(pool)])
            if self.chance(0.25):
                items.append([self.r.choice(VATTR_UNSUP), self.words([None, "e1", 5], ["pr\u00fcf"])])
        self.r.shuffle(items)
        return items

    def d_prop(self):
        items = []
        named = not self.chance(0.1)
        if named:
            items.append(["attr", "name", self.name()])
        dtype = self.r.choice([None, "string", "string", "text", "int", "binary"])
        where = self.r.choice(["first", "later", "all", "none", "random"])
        conflict = self.chance(0.4)
        vals = []
        nvals = self.r.choice([0, 1, 1, 2, 3, 4])
        if self.chance(0.04):
            nvals = self.r.choice([5, 9, 10, 11, 12])
        for i in range(nvals):
            here = {"first": i == 0, "later": i > 0, "all": True, "none": False,
                    "random": self.chance(0.5)}[where]
            vals.append(self.d_val(dtype, here, conflict))
        if not named:
            self.marker += 1
            vals.append([["value", "UNNAMED%d" % self.marker]])
        if self.chance(0.3):
            items.append(["attr", "definition", self.words(["prop def"], UNI_POOLS["definition"])])
        if self.chance(0.25):
            items.append(["attr", self.r.choice(["dependency_value", "dependencyvalue"]), self.words(["dv"])])
        if self.chance(0.25):
            items.append(["attr", self.r.choice(["mapping", "foo", "synonym"]), self.words([None, "m"], ["\u00fcbrig"])])
        c = self.idkid()
        if c and c[0][2]:
            items.append(["attr", "id", c[0][2]])
        if vals or self.chance(0.5):
            items.insert(self.r.randrange(len(items) + 1), ["values", vals])
        return items

    def d_sec(self, depth):
        items = [["attr", "name", self.name()], ["attr", "type", self.r.choice(TYPES)]]
        if self.chance(0.3):
            items.append(["attr", "definition", self.words(["sec def"], ["Abschnitt f\u00fcr Gr\u00f6\u00dfen"])])
        c = self.idkid()
        if c and c[0][2]:
            items.append(["attr", "id", c[0][2]])
        if self.chance(0.25):
            items.append(["attr", self.r.choice(["mapping", "foo", "synonym"]), self.words([None, "m"], ["\u00fcbrig"])])
        if self.chance(0.8):
            props = [self.d_prop() for _ in range(self.r.choice([0, 1, 2, 3]))]
            if self.chance(0.03):
                name = self.name()
                props += [[["attr", "name", name], ["values", [[["value", "v%d" % i]]]]]
                          for i in range(self.r.choice([10, 11, 12]))]
            items.append(["props", props])
        if depth < 2 and self.chance(0.7):
            secs = [self.d_sec(depth + 1) for _ in range(self.r.choice([0, 1, 2, 3]))]
            if self.chance(0.02):
                name = self.name()
                secs += [[["attr", "name", name], ["attr", "type", "t"]] for _ in range(self.r.choice([10, 11]))]
            items.append(["secs", secs])
        head, rest = items[:1], items[1:]
        self.r.shuffle(rest)
        return head + rest

    def d_doc(self):
        items = []
        if self.chance(0.6):
            items.append(["attr", "author", self.words(["me"], ["J\u00fcrgen M\u00fcller", "\u540d\u524d"])])
        if self.chance(0.5):
            items.append(["attr", "date", "2018-07-07"])
        if self.chance(0.5):
            items.append(["attr", "version", "v1.13"])
        if self.chance(0.2):
            items.append(["attr", "foo", self.r.choice([None, "x"])])
        items.append(["secs", [self.d_sec(0) for _ in range(self.r.choice([0, 1, 2, 3]))]])
        self.r.shuffle(items)
        return items


def rand_text(rng, alpha, n):
    return "".join(rng.choice(alpha) for _ in range(rng.randrange(0, n)))


# ----------------------------------------------------------------------------- the check
class C15(fw.Check):
    prop = "C15"
    lean_targets = ["OdmlModel.Props.C15"]
    obligations = ["C15." + t for t in [
        "fold_values_nonempty", "fold_values_none", "fold_values", "fold_values_full",
        "fold_values_witness_commas", "fold_values_witness_quote", "fold_values_witness_blank",
        "fold_values_witness_bracket", "fold_values_witness_newline", "fold_values_encoded_single",
        "fold_values_witness_encoded", "fold_values_legacy_counterexample", "lift_first_wins",
        "firstLift_spec", "rename_sections_spec", "rename_properties_spec", "rename_unique",
        "rename_unique_properties", "rename_keeps_first", "rename_numeric_suffix",
        "rename_default_when_free", "rename_unique_witness", "rename_legacy_counterexample",
        "add_id_spec", "id_kept_iff_valid", "propCleanup_vocab", "property_vocab", "section_vocab",
        "document_vocab", "id_in_all_keys", "mapped_tags_in_vocab", "propCleanup_logs",
        "secCleanup_logs", "docCleanup_logs", "secCleanup_keeps", "docCleanup_keeps",
        "unnamed_property_logged", "convert_source_unchanged", "write_only_target", "convert_root",
        "convert_version", "valToTree_text", "valToTree_attrs", "propToTree_vals",
        # whole-tree composition readDoc (convertTree x) = content10 x (proof extension 2026-09-30)
        "sampleDoc_wf", "lifted_element_unique", "last_wins_is_first_wins", "property_content",
        "section_content", "convert_preserves_content", "convert_preserves_content_wf10",
        "wf10_implies_convWF", "fresh_uuid4_ok", "fresh_marker_ok", "add_id_twice",
        "property_content_needs_unique_tags", "property_content_needs_no_value_id",
        "property_content_needs_fresh_canonical",
        # whole-tree structural acceptance by the strict reader
        "convert_accepted", "wf10_implies_loadWF", "convert_loadable_with_same_content",
        "convert_accepted_needs_type",
        # the text entry point (StringIO): the declaration is taken off, what it names plays no role
        "stringio_decl_dropped", "stringio_declared_encoding_irrelevant", "stringio_no_decl_unchanged",
        "stringio_only_prefix_removed", "stringio_decl_witness"]]
    trusted_base = [
        "Lean 4.33.0 kernel; axioms propext, Classical.choice, Quot.sound only (audited per theorem)",
        "hand-written model lean/OdmlModel/Model/Conv.lean + ConvXml.lean + ConvText.lean, tied to /repo by this run",
        "harness/extract_tables.py (format._args tables regenerated into Lean on every run)",
        "Driver/C15.lean JSON glue; harness/framework.py, harness/c15.py",
        "lxml text<->tree, json / PyYAML text<->dict, csv module (Py/Csv.lean + Model/XmlCsv.lean, the "
        "model shared with C01; from_csv compared on every run by the stream csv, to_csv through every "
        "converted value text), uuid.UUID (modelled and compared), uuid4 freshness",
    ]
    assumptions = [
        "documents of the modelled shape (Shape10): sections under root/sections, properties under "
        "root/sections, value elements directly under properties, no comments / tail text",
        "no repository / include elements (network), as the property says",
        "uuid.UUID modelled for ASCII hex texts (no '_', sign, blank or 0x inside a 32-character id)",
        "dict front ends: Document/Section/Property scalars are strings or null",
        "XML comments / processing instructions, the XML declaration of a StringIO text and the locale of "
        "the process are no content: the model is asked about the parsed source tree without them and "
        "comments / PIs are ignored in the output",
    ]
    rule = ("generated 1.0 documents: any tree shape up to depth 4, 0..4 value elements per Property "
            "with attributes on the first / later / all / random values, agreeing and conflicting, "
            "duplicate sibling names at every level (incl. literal 'p-2'), present / absent / "
            "malformed / non-canonical ids, unsupported elements at document, section, property and "
            "value level, both dependency_value spellings, value texts with , \" [ ] newline blank; "
            "x XML (StringIO and file) / JSON / YAML (file) x write_to_file target names; 10-13 siblings "
            "of one name, 5-12 value elements, section chains of depth 5-9; the same documents in other "
            "surface syntax (pretty-printed, XML declaration naming any of 12 encodings in either quote style "
            "with / without standalone - for files written in that encoding, for a StringIO the decoded text -, "
            "stylesheet PI, DOCTYPE, comments / PIs at every level, CDATA sections, <a></a>, single-quoted "
            "attributes, Windows line ends, BOM files, raw / escaped non-ASCII, flow style, scalar styles, line "
            "width and byte order mark in JSON / YAML, key order of the top-level dict, source file names with "
            "blanks / non-ASCII / no or another extension, StringIO read position) x non-ASCII text in every "
            "text-carrying place of the document x backend spelling (lower / mixed case / left out); operation histories on one "
            "converter object (convert, write_to_file, str, refused and failing calls, source rewritten in "
            "between, another converter in between); JSON / YAML / XML files in a child process with an ASCII "
            "locale and another hash seed; the same generated documents with a root that already declares format "
            "version 1.1; plus csv / uuid differential streams. Non-trivial = the conversion changes or drops something. "
            "distinct = distinct canonical JSON of the case.")

    # a history case runs up to 7 conversions, a locale case starts a child interpreter; the
    # machine is shared: generous limit per case (CPU seconds; wall limit is 6 times that)
    case_timeout = 60

    # -- generation ----------------------------------------------------------
    def generate(self, tier, rng):
        n = 1500 if tier == "quick" else 30000
        cases = [{"stream": "tables"}]
        for i in range(n):
            profile = "wf" if i % 3 else "wild"
            g = Gen(rng, profile, uni=(i % 7 == 6))
            kind = i % 5
            if kind in (0, 1):
                cases.append({"stream": "conv", "fmt": "XML", "input": "stringio", "tree": g.doc()})
            elif kind == 2:
                cases.append({"stream": "conv", "fmt": "XML", "input": "file", "tree": g.doc(),
                              "out": rng.choice(["res", "res.xml", "res.odml", "res.txt"])})
            else:
                cases.append({"stream": "conv", "fmt": "JSON" if kind == 3 else "YAML", "input": "file",
                              "doc": g.d_doc(), "out": rng.choice(["res", "res.xml", "o.odml"])})
        cases += self.generate_surface(210 if tier == "quick" else 4000, rng)
        cases += self.generate_hist(220 if tier == "quick" else 4000, rng)
        cases += self.generate_locale(6 if tier == "quick" else 48, rng)
        m = 300 if tier == "quick" else 8000
        alpha = ['a', 'b', ',', '"', '[', ']', ' ', '\n', '\r', 'x', "'", ';']
        for _ in range(m):
            s = rand_text(rng, alpha, 10)
            if rng.random() < 0.7:
                s = "[" + s + "]"
            cases.append({"stream": "csv", "s": s})
        for s in ["", "[]", "[", "]", "[a]", "[a,b]", "[a,]", '["a,b",c]', '["a""b"]', '["a\nb",c]', "[a\nb]",
                  '[a"b]', '["a"b,c]', "[\n]", "[a\rb]", "[a\r\nb]", "[\r]", '["]', '["a]', "[,]", "[,,]"]:
            cases.append({"stream": "csv", "s": s})
        ualpha = list("0123456789abcdefABCDEF") + ["-", "{", "}", "urn:", "uuid:", "g", "z"]
        for s in VALID_IDS + BAD_IDS + ["urn:uuid:{12345678-1234-5678-1234-567812345678}", "{}", "-" * 32,
                                        "uuuid:rn:" + "1" * 32, "uurn:uid:" + "a" * 32]:
            cases.append({"stream": "uuid", "s": s})
        for _ in range(100 if tier == "quick" else 3000):
            body = "".join(rng.choice(ualpha) for _ in range(rng.choice([30, 31, 32, 32, 32, 33, 36])))
            cases.append({"stream": "uuid", "s": body})
        for f in ["res", "res.xml", "res.odml", "a.xml.txt", ".xml", "xml", "", "x.XML", "dir/out.odml"]:
            cases.append({"stream": "outname", "s": f})
        cases += self.generate_current(40 if tier == "quick" else 800, rng)
        return cases

    @staticmethod
    def generate_current(n, rng):
        """conv cases whose root already declares the current format version (FormatConverter runs
        the converter over 1.1 files as well): the text of a single value element is then the encoded
        value list of a 1.1 Property and is kept as it is (`encoded_values`, fix 118e0c3)"""
        cases = []
        for i in range(n):
            g = Gen(rng, "wild" if i % 2 else "wf")
            tree = g.doc()
            tree[1] = [["version", "1.1"]]
            cases.append({"stream": "conv", "fmt": "XML", "input": "stringio" if i % 3 else "file", "tree": tree,
                          "out": "res"})
        return cases

    @staticmethod
    def backend_spelling(rng, fmt):
        """how the caller writes the backend argument: the code upper-cases it; for XML it may
        be left out"""
        c = rng.random()
        if c < 0.3:
            return fmt
        if c < 0.55:
            return fmt.lower()
        if c < 0.75:
            return fmt.capitalize()
        if c < 0.85:
            return "".join(ch.upper() if rng.random() < 0.5 else ch.lower() for ch in fmt)
        return "default" if fmt == "XML" else fmt.lower()

    def generate_surface(self, n, rng):
        """conv cases that vary how the same 1.0 document is written down and how the
        call is spelled: pretty-printed / compact, XML declaration, stylesheet PI, comments and
        PIs at every level, file encodings, BOM, raw non-ASCII in JSON; backend spelling."""
        cases = []
        for i in range(n):
            g = Gen(rng, "wf" if i % 3 else "wild", uni=(i % 4 != 3))
            kind = i % 6
            backend = self.backend_spelling(rng, "XML" if kind < 4 else ("JSON" if kind == 4 else "YAML"))
            if kind < 4:
                tree = g.doc()
                inp = "stringio" if kind < 2 else "file"
                nmisc = rng.choice([0, 0, 1, 2, 3, 5])
                if nmisc:
                    g.decorate(tree, nmisc, in_values=(rng.random() < 0.2))
                surface = self.xml_surface(rng, inp, True)
                case = {"stream": "conv", "fmt": "XML", "input": inp, "tree": tree, "surface": surface,
                        "backend": backend}
                if inp == "file":
                    case["out"] = rng.choice(["res", "res.xml", "res.odml", "res.txt", "r\u00e9s \u00fc"])
                    case["srcname"] = self.src_name(rng, "XML")
                cases.append(case)
            else:
                fmt = "JSON" if kind == 4 else "YAML"
                surface = self.dict_surface(rng, fmt)
                cases.append({"stream": "conv", "fmt": fmt, "input": "file", "doc": g.d_doc(),
                              "out": rng.choice(["res", "res.xml", "o.odml"]), "surface": surface,
                              "backend": backend, "srcname": self.src_name(rng, fmt)})
        return cases

    # every encoding below is one lxml reads from a file (probed on the unchanged tree; UTF-32 is not)
    FILE_DECLS = [None, "noenc", "UTF-8", "utf-8", "ISO-8859-1", "UTF-16", "bom", "bom+UTF-8",
                  "iso-8859-1", "ISO-8859-15", "windows-1252", "US-ASCII", "UTF-16LE", "UTF-16BE", "bom16",
                  "Shift_JIS", "KOI8-R"]
    # a text stream holds decoded text: whatever encoding its first line names is history
    STRINGIO_DECLS = [None, "noenc", "UTF-8", "utf-8", "ISO-8859-1", "iso-8859-1", "latin1", "ISO-8859-15",
                      "windows-1252", "US-ASCII", "UTF-16", "UTF-16LE", "Shift_JIS", "KOI8-R"]

    def xml_surface(self, rng, inp, comments):
        """how an XML source is written down (see source_of)"""
        decl = rng.choice(self.STRINGIO_DECLS if inp == "stringio" else self.FILE_DECLS)
        surface = {"pretty": rng.random() < 0.6, "decl": decl, "pi": rng.random() < 0.4}
        if comments:
            surface.update({"top": rng.random() < 0.25, "tail": rng.random() < 0.15})
        if decl not in (None, "bom", "bom16"):
            if rng.random() < 0.3:
                surface["quote"] = "'"
            if rng.random() < 0.15:
                surface["standalone"] = rng.choice(["yes", "no"])
        for key, chance in (("crlf", 0.2), ("cdata", 0.15), ("longempty", 0.15), ("squote", 0.15), ("doctype", 0.1),
                            ("oneline", 0.35)):
            if rng.random() < chance:
                surface[key] = True
        if inp == "stringio":
            # where the read position of the StringIO is: start, end (just written), middle
            surface["pos"] = rng.choice(["start", "end", "mid"])
        return surface

    @staticmethod
    def dict_surface(rng, fmt):
        surface = {"raw": rng.random() < 0.7, "compact": rng.random() < 0.4}
        if rng.random() < 0.2:
            surface["version_first"] = True
        if fmt == "JSON":
            if rng.random() < 0.2:
                surface["crlf"] = True
            if rng.random() < 0.15:
                surface["tabs"] = True
        else:
            if rng.random() < 0.2:
                surface["bom"] = True       # YAML streams may start with a byte order mark
            if rng.random() < 0.25:
                surface["style"] = rng.choice(['"', "'"])
            if rng.random() < 0.15:
                surface["width"] = rng.choice([10, 30, 1000])
        return surface

    @staticmethod
    def src_name(rng, fmt):
        """name of the source file: the parser is chosen by the backend argument, not by the name"""
        ext = {"XML": ".xml", "JSON": ".json", "YAML": ".yaml"}[fmt]
        return rng.choice(["src" + ext, "src" + ext, "src", "my src" + ext, "sr\u00f6c \u540d" + ext, "src.odml",
                           "src.v1.0" + ext, "SRC" + ext.upper()])

    def generate_locale(self, n, rng):
        """conv cases (file input) run in a child interpreter whose locale encoding is ASCII:
        what a source file means does not depend on the locale of the process"""
        cases = []
        for i in range(n):
            fmt = ["JSON", "YAML", "XML"][i % 3]
            # every second XML case hands the text over as a StringIO that names another encoding
            stringio = (fmt == "XML" and i % 2 == 1)
            for _ in range(6):
                g = Gen(rng, "wf", uni=(i % 2 == 1))
                case = {"stream": "conv", "fmt": fmt, "input": "stringio" if stringio else "file", "locale": "C",
                        "surface": {"pretty": True, "decl": rng.choice(["ISO-8859-1", "windows-1252", "UTF-16"])
                                    if stringio else "UTF-8"} if fmt == "XML" else
                                   ({"raw": True} if i % 2 == 0 else {"escaped": True}),
                        "backend": fmt, "hashseed": rng.choice([0, 1, 7, 4242])}
                if not stringio:
                    case["out"] = "res"
                case["tree" if fmt == "XML" else "doc"] = g.doc() if fmt == "XML" else g.d_doc()
                if i % 2 or not self.ascii_source(case):
                    break
            cases.append(case)
        return cases

    def ascii_source(self, case):
        return all(b < 128 for b in self.source_of(case)[1])

    def generate_hist(self, n, rng):
        """operation histories on one converter object"""
        cases = []
        targets = ["res", "res.xml", "o.odml", "res.txt", "second"]
        for i in range(n):
            g = Gen(rng, "wf" if i % 3 else "wild", uni=(i % 2 == 0))
            fmt = ["XML", "XML", "XML", "JSON", "YAML"][i % 5]
            inp = "stringio" if (fmt == "XML" and rng.random() < 0.5) else "file"
            others = [f for f in ("XML", "JSON", "YAML") if f != fmt]
            ops = []
            for _ in range(rng.choice([2, 2, 3, 3, 4, 5, 6])):
                c = rng.random()
                if c < 0.34:
                    ops.append(["convert", self.backend_spelling(rng, fmt)])
                elif c < 0.58:
                    ops.append(["write", rng.choice(targets), self.backend_spelling(rng, fmt)])
                elif c < 0.64:
                    ops.append([rng.choice(["str", "str", "unicode"])])
                elif c < 0.70:
                    ops.append(["bad", rng.choice(["CSV", "", "XMLX", "odml", " xml"])])
                elif c < 0.76:
                    ops.append(["wrong", rng.choice(others)])
                elif c < 0.82:
                    ops.append(["write_nodir", rng.choice(targets), self.backend_spelling(rng, fmt)])
                elif c < 0.91:
                    ops.append(["edit"])
                else:
                    ops.append(["other"])
            # at least two calls that deliver an output, the last op is one of them
            judged = [o for o in ops if o[0] in ("convert", "write")]
            if len(judged) < 2 or ops[-1][0] not in ("convert", "write"):
                ops.append(["write", rng.choice(targets), self.backend_spelling(rng, fmt)] if rng.random() < 0.5
                           else ["convert", self.backend_spelling(rng, fmt)])
            if len([o for o in ops if o[0] in ("convert", "write")]) < 2:
                ops.insert(0, ["convert", self.backend_spelling(rng, fmt)])
            case = {"stream": "hist", "fmt": fmt, "input": inp, "ops": ops}
            if i % 2 == 0:
                # the surface syntax of the source (both states of it) and the name of the source file
                case["surface"] = self.xml_surface(rng, inp, False) if fmt == "XML" else self.dict_surface(rng, fmt)
                case["surface"].pop("pos", None)
                if inp == "file":
                    case["srcname"] = self.src_name(rng, fmt)
            second = any(o[0] in ("edit", "other") for o in ops)     # else the second document is not used
            if fmt == "XML":
                case["tree"] = g.doc()
                case["tree2"] = g.doc() if second else T("odML", "", [], [["version", "1"]])
            else:
                case["doc"] = g.d_doc()
                case["doc2"] = g.d_doc() if second else [["secs", []]]
            cases.append(case)
        return cases

    # -- implementation ------------------------------------------------------
    def impl(self, case):
        st = case["stream"]
        if st == "tables":
            from odml.tools.converters import VersionConverter
            from odml import format as ofmt
            return {"version_map": sorted([k, v] for k, v in VersionConverter._version_map.items()),
                    "doc_keys": list(ofmt.Document.arguments_keys),
                    "sec_keys": list(ofmt.Section.arguments_keys)}
        if st == "csv":
            from odml.tools.xmlparser import from_csv
            try:
                return {"fields": list(from_csv(case["s"]))}
            except Exception as exc:
                return {"raised": fw.exc_name(exc)}
        if st == "uuid":
            try:
                return {"uuid": str(uuidlib.UUID(case["s"]))}
            except ValueError:
                return {"uuid": None}
        if st == "outname":
            return self.impl_outname(case["s"])
        if st == "hist":
            return self.impl_hist(case)
        if case.get("locale"):
            return self.impl_locale(case)
        return self.impl_conv(case)

    def impl_locale(self, case):
        """impl_conv in a child interpreter started with an ASCII locale"""
        code = ("import sys, json; sys.path.insert(0, %r); import framework as fw, c15; "
                "case = json.loads(sys.stdin.read()); case.pop('locale');\n"
                "with fw.quiet(): obs = c15.C15().impl_conv(case)\n"
                "import locale; obs['encoding'] = locale.getpreferredencoding(False); "
                "print('RESULT' + json.dumps(obs))"
                % os.path.dirname(os.path.abspath(__file__)))
        env = dict(os.environ, PYTHONUTF8="0", PYTHONCOERCECLOCALE="0", LC_ALL="C", LANG="C",
                   ODML_REPO=fw.REPO, PYTHONDONTWRITEBYTECODE="1", PYTHONHASHSEED=str(case.get("hashseed", 0)))
        proc = subprocess.run([sys.executable, "-c", code], input=json.dumps(case).encode("ascii"),
                              env=env, stdout=subprocess.PIPE, stderr=subprocess.PIPE, timeout=600)
        for line in proc.stdout.decode("ascii", "replace").splitlines():
            if line.startswith("RESULT"):
                return json.loads(line[len("RESULT"):])
        raise RuntimeError("child interpreter gave no result: %s" % proc.stderr.decode("ascii", "replace")[-600:])

    def impl_outname(self, name):
        from odml.tools.converters import VersionConverter
        tmp = tempfile.mkdtemp(prefix="c15o")
        try:
            src = '<odML version="1"><section><name>s</name><type>t</type></section></odML>'
            if "/" in name:
                os.makedirs(os.path.join(tmp, os.path.dirname(name)))
            before = set(self.listing(tmp))
            VersionConverter(io.StringIO(src)).write_to_file(os.path.join(tmp, name))
            new = sorted(set(self.listing(tmp)) - before)
            return {"new": new}
        except Exception as exc:
            return {"raised": fw.exc_name(exc)}
        finally:
            shutil.rmtree(tmp, ignore_errors=True)

    @staticmethod
    def listing(root):
        out = []
        for d, _ds, fs in os.walk(root):
            for f in fs:
                out.append(os.path.relpath(os.path.join(d, f), root))
        return sorted(out)

    def source_of(self, case, version=0):
        """-> (text a StringIO source holds, bytes a source file holds, XML body without prolog)

        The surface keys only change how the document is written down, never what it says; the
        third component is always the plain body (what the oracle and the model read).
        XML: "decl" = None | "noenc" | "bom" | "bom+UTF-8" | the name of an encoding (the declaration
        names it, the file is written in it, characters it does not have as character references);
        "quote" = "'" (pseudo-attributes in single quotes), "standalone", "doctype", "pi", "top",
        "tail", "oneline" (prolog and root on one line), "crlf" (Windows line ends), "cdata" / "longempty" / "squote" (see tree_to_xml).
        A StringIO source holds the text a program gets that reads that file with its encoding: the
        declaration may name any encoding, the text is already decoded."""
        sf = case.get("surface") or {}
        if case["fmt"] == "XML":
            tree = case["tree2" if version else "tree"]
            body = tree_to_pretty(tree) if sf.get("pretty") else tree_to_xml(tree)
            decl = sf.get("decl")
            opt = dict((k, True) for k in ("cdata", "longempty", "squote") if sf.get(k))
            written = body
            if opt:
                opt["enc"] = decl if decl not in (None, "noenc", "bom", "bom+UTF-8", "bom16") else "utf-8"
                written = tree_to_pretty(tree, 0, opt) if sf.get("pretty") else tree_to_xml(tree, opt)
            q = "'" if sf.get("quote") == "'" else '"'
            pre, enc, bom = "", "utf-8", b""
            alone = " standalone=%s%s%s" % (q, sf["standalone"], q) if sf.get("standalone") else ""
            if decl == "noenc":
                pre = "<?xml version=%s1.0%s%s?>\n" % (q, q, alone)
            elif decl == "bom":
                bom = b"\xef\xbb\xbf"
            elif decl == "bom16":
                enc = "UTF-16"          # byte order mark (written by the codec), no declaration
            elif decl == "bom+UTF-8":
                pre, bom = "<?xml version=%s1.0%s encoding=%sUTF-8%s%s?>\n" % (q, q, q, q, alone), b"\xef\xbb\xbf"
            elif decl:
                pre, enc = "<?xml version=%s1.0%s encoding=%s%s%s%s?>\n" % (q, q, q, decl, q, alone), decl
            if sf.get("doctype"):
                pre += "<!DOCTYPE odML>\n"
            if sf.get("pi"):
                pre += '<?xml-stylesheet type="text/xsl" href="odmlTerms.xsl"?>\n'
            if sf.get("top"):
                pre += "<!-- odML 1.0 file -->\n"
            if sf.get("oneline"):
                pre = pre.replace("\n", "")       # no line break between the prolog and the root
            text = pre + written + ("\n<!-- end -->\n" if sf.get("tail") else "")
            if sf.get("crlf"):
                text = text.replace("\n", "\r\n")
            data = text.encode(enc, "xmlcharrefreplace")
            # what a reader of the file has in hand (the byte order mark is no part of the text)
            text = data.decode(enc)
            return text, bom + data, body
        data = {"Document": dsec_py(case["doc2" if version else "doc"]), "odml-version": "1"}
        if sf.get("version_first"):
            data = {"odml-version": "1", "Document": data["Document"]}
        if case["fmt"] == "JSON":
            text = json.dumps(data, indent=None if sf.get("compact") else ("\t" if sf.get("tabs") else 2),
                              ensure_ascii=not sf.get("raw"))
            if sf.get("crlf"):
                text = text.replace("\n", "\r\n")          # line ends outside strings only
        else:
            import yaml
            text = yaml.safe_dump(data, sort_keys=False, allow_unicode=not sf.get("escaped"),
                                  default_flow_style=True if sf.get("compact") else False,
                                  default_style=sf.get("style"), width=sf.get("width", 80))
            if ("style" in sf or "width" in sf) and yaml.safe_load(text) != data:
                # PyYAML's emitter does not write every text in every style so that its own loader
                # reads it back (e.g. a folded double-quoted scalar ending in a line break + blanks in
                # flow style): then the file would not say what the case says - plain style instead
                text = yaml.safe_dump(data, sort_keys=False, allow_unicode=not sf.get("escaped"),
                                      default_flow_style=True if sf.get("compact") else False)
        bom = b"\xef\xbb\xbf" if (sf.get("bom") and case["fmt"] == "YAML") else b""
        return text, bom + text.encode("utf-8"), None

    @staticmethod
    def backend_args(case_backend, fmt):
        if case_backend is None:
            return (fmt,)
        if case_backend == "default":
            return ()
        return (case_backend,)

    @staticmethod
    def decorated(case):
        sf = case.get("surface") or {}
        return bool(sf.get("pi") or sf.get("top") or sf.get("tail")) or \
            any(has_misc(case[k]) for k in ("tree", "tree2") if k in case)

    def impl_conv(self, case):
        from odml.tools.converters import VersionConverter
        from odml.tools.xmlparser import XMLReader, XML_HEADER
        text, data, body = self.source_of(case)
        bargs = self.backend_args(case.get("backend"), case["fmt"])
        obs = {}
        notes = []
        tmp = tempfile.mkdtemp(prefix="c15")
        try:
            if case["fmt"] == "XML":
                # comments / PIs of the source are not part of the abstract tree
                obs["src_parsed"] = parse_text(body, [] if self.decorated(case) else notes)
            if case["input"] == "stringio":
                src = io.StringIO(text)
                pos = (case.get("surface") or {}).get("pos")
                if pos == "end":
                    src = io.StringIO()
                    src.write(text)
                elif pos == "mid":
                    src.read(len(text) // 2)
                src_path = None
            else:
                ext = {"XML": ".xml", "JSON": ".json", "YAML": ".yaml"}[case["fmt"]]
                src_path = os.path.join(tmp, case.get("srcname") or "src" + ext)
                with open(src_path, "wb") as fh:
                    fh.write(data)
                with open(src_path, "rb") as fh:
                    src_bytes = fh.read()
                src = src_path
            vc = VersionConverter(src)
            try:
                out = vc.convert(*bargs)
                obs["raised"] = None
            except Exception as exc:
                out = None
                obs["raised"] = fw.exc_name(exc)
            obs["log"] = [str(m) for m in vc.conversion_log]
            if out is not None:
                obs["out_has_root"] = "<odML " in out
                obs["tree"] = parse_text(out, notes)
                try:
                    doc = XMLReader(ignore_errors=False, show_warnings=False).from_string(out)
                    obs["loaded"] = loaded_doc(doc)
                    obs["load_error"] = None
                except Exception as exc:
                    obs["loaded"] = None
                    obs["load_error"] = fw.exc_name(exc)
            # source untouched by convert()
            if src_path is None:
                obs["source_unchanged"] = (src.getvalue() == text)
            else:
                with open(src_path, "rb") as fh:
                    obs["source_unchanged"] = (fh.read() == src_bytes)
                # write_to_file
                target = os.path.join(tmp, case["out"])
                before = self.listing(tmp)
                try:
                    VersionConverter(src_path).write_to_file(target, *bargs)
                    obs["write_raised"] = None
                except Exception as exc:
                    obs["write_raised"] = fw.exc_name(exc)
                after = self.listing(tmp)
                obs["new_files"] = sorted(set(after) - set(before))
                with open(src_path, "rb") as fh:
                    obs["source_unchanged_after_write"] = (fh.read() == src_bytes)
                obs["src_name"] = os.path.basename(src_path)
                if obs["new_files"]:
                    with io.open(os.path.join(tmp, obs["new_files"][0]), encoding="utf-8") as fh:
                        written = fh.read()
                    obs["written_header"] = written.startswith(XML_HEADER)
                    try:
                        obs["written_tree"] = parse_text(written.encode("utf-8"), notes)
                    except Exception as exc:
                        obs["written_tree"] = {"unparsable": fw.exc_name(exc)}
            if self.decorated(case):
                # the comments / PIs of the source may stay in the output: no part of the content
                notes = [n for n in notes if n != "non-element node"]
            obs["notes"] = notes
            return obs
        finally:
            shutil.rmtree(tmp, ignore_errors=True)

    # -- histories on one converter object -----------------------------------------
    def impl_hist(self, case):
        from odml.tools.converters import VersionConverter
        from odml.tools.xmlparser import XMLReader, XML_HEADER
        fmt = case["fmt"]
        vers = [self.source_of(case, 0), self.source_of(case, 1)]
        obs = {"steps": []}
        tmp = tempfile.mkdtemp(prefix="c15h")
        try:
            if fmt == "XML":
                obs["src_parsed"] = [parse_text(v[2], []) for v in vers]
            ext = {"XML": ".xml", "JSON": ".json", "YAML": ".yaml"}[fmt]
            src_path = None
            if case["input"] == "stringio":
                src = io.StringIO(vers[0][0])
            else:
                src_path = os.path.join(tmp, case.get("srcname") or "src" + ext)
                with open(src_path, "wb") as fh:
                    fh.write(vers[0][1])
                src = src_path
            other_path = os.path.join(tmp, "other" + ext)
            with open(other_path, "wb") as fh:
                fh.write(vers[1][1])
            base = set(self.listing(tmp))
            cur = 0
            vc = VersionConverter(src)
            for op in case["ops"]:
                st = {"op": op, "ver": cur, "raised": None}
                notes = []
                out = None
                kind = op[0]
                try:
                    if kind == "convert":
                        out = vc.convert(*self.backend_args(op[1], fmt))
                    elif kind == "str":
                        out = str(vc)
                    elif kind == "unicode":
                        out = vc.__unicode__()
                    elif kind == "write":
                        target = os.path.join(tmp, op[1])
                        vc.write_to_file(target, *self.backend_args(op[2], fmt))
                    elif kind == "write_nodir":
                        vc.write_to_file(os.path.join(tmp, "nodir", op[1]), *self.backend_args(op[2], fmt))
                    elif kind in ("bad", "wrong"):
                        vc.convert(op[1])
                    elif kind == "edit":
                        cur = 1
                        st["ver"] = 1
                        if src_path is None:
                            src.seek(0)
                            src.truncate()
                            src.write(vers[1][0])
                        else:
                            with open(src_path, "wb") as fh:
                                fh.write(vers[1][1])
                    elif kind == "other":
                        VersionConverter(other_path if src_path else io.StringIO(vers[1][0])).convert(fmt)
                except Exception as exc:
                    st["raised"] = fw.exc_name(exc)
                st["log"] = [str(m) for m in vc.conversion_log]
                if src_path is None:
                    st["src_ok"] = (src.getvalue() == vers[cur][0])
                else:
                    with open(src_path, "rb") as fh:
                        st["src_ok"] = (fh.read() == vers[cur][1])
                with open(other_path, "rb") as fh:
                    st["src_ok"] = st["src_ok"] and fh.read() == vers[1][1]
                st["files"] = sorted(set(self.listing(tmp)) - base)
                if kind == "write" and st["raised"] is None:
                    want = op[1] if op[1].endswith((".xml", ".odml")) else op[1] + ".xml"
                    st["want"] = want
                    path = os.path.join(tmp, want)
                    if os.path.isfile(path):
                        with io.open(path, encoding="utf-8") as fh:
                            out = fh.read()
                        st["header"] = out.startswith(XML_HEADER)
                        try:
                            doc = XMLReader(ignore_errors=False, show_warnings=False).from_file(path)
                            st["loaded"], st["load_error"] = loaded_doc(doc), None
                        except Exception as exc:
                            st["loaded"], st["load_error"] = None, fw.exc_name(exc)
                        out = out.encode("utf-8")
                    else:
                        st["missing"] = True
                elif isinstance(out, str) and kind in ("convert", "str", "unicode"):
                    try:
                        doc = XMLReader(ignore_errors=False, show_warnings=False).from_string(out)
                        st["loaded"], st["load_error"] = loaded_doc(doc), None
                    except Exception as exc:
                        st["loaded"], st["load_error"] = None, fw.exc_name(exc)
                if out is not None and kind in ("convert", "str", "unicode", "write"):
                    try:
                        st["tree"] = parse_text(out, notes)
                    except Exception as exc:
                        st["tree"] = None
                        st["unparsable"] = fw.exc_name(exc)
                    st["delivered"] = True
                st["notes"] = notes
                obs["steps"].append(st)
            return obs
        finally:
            shutil.rmtree(tmp, ignore_errors=True)

    # -- model ---------------------------------------------------------------
    def model_requests(self, case, obs):
        st = case["stream"]
        if st == "tables":
            return [{"op": "tables"}]
        if st == "csv":
            return [{"op": "csv", "s": case["s"]}]
        if st == "uuid":
            s = case["s"]
            h = s.replace("urn:", "").replace("uuid:", "").strip("{}").replace("-", "")
            if len(h) == 32 and not re.match(r"^[0-9a-zA-Z]*$", h):
                return []
            return [{"op": "uuid", "s": s}]
        if st == "outname":
            return [{"op": "outname", "s": case["s"]}]
        if st == "hist":
            if case["fmt"] == "XML":
                return [{"op": "convert", "fresh": FRESH, "tree": t} for t in obs["src_parsed"]]
            return [{"op": "dict", "fresh": FRESH, "doc": case[k]} for k in ("doc", "doc2")]
        if case["fmt"] == "XML":
            # comments / PIs (also inside value elements), the XML declaration of a StringIO text
            # and the locale of the process are no content: the model is asked about the parsed
            # source tree without them (the three former known findings are fixed: 0b2a6bf,
            # efa346d, 7b9559d)
            reqs = [{"op": "convert", "fresh": FRESH, "tree": obs["src_parsed"]}]
            if case["input"] == "stringio":
                # the front end of the text entry point (Model/ConvText.lean): which text reaches the
                # XML parser; compare() checks that it parses to the tree the model is asked about
                reqs.append({"op": "decl", "s": self.source_of(case)[0]})
            return reqs
        return [{"op": "dict", "fresh": FRESH, "doc": case["doc"]}]

    @staticmethod
    def tree_diff(m, i, path, fresh_seen):
        """model tree vs implementation tree, fresh ids matched by shape."""
        out = []
        if m[0] != i[0]:
            return ["%s: model tag <%s>, implementation <%s>" % (path, m[0], i[0])]
        here = "%s/%s" % (path, m[0])
        if m[1] != i[1]:
            out.append("%s: model attributes %s, implementation %s" % (here, m[1], i[1]))
        if m[0] == "id" and m[2] == FRESH:
            if not UUID4.match(i[2]):
                out.append("%s: model expects a new uuid4, implementation has %r" % (here, i[2]))
            elif i[2] in fresh_seen:
                out.append("%s: new id %r is used twice" % (here, i[2]))
            fresh_seen.add(i[2])
        elif m[2] != i[2]:
            out.append("%s: model text %r, implementation %r" % (here, m[2], i[2]))
        if len(m[3]) != len(i[3]):
            out.append("%s: model children %s, implementation %s"
                       % (here, [k[0] for k in m[3]], [k[0] for k in i[3]]))
        else:
            for a, b in zip(m[3], i[3]):
                out += C15.tree_diff(a, b, here, fresh_seen)
        return out

    @staticmethod
    def log_diff(mlog, ilog):
        out = []
        if len(mlog) != len(ilog):
            return ["model log has %d entries %s, implementation %d: %s"
                    % (len(mlog), [e["k"] for e in mlog], len(ilog), ilog)]
        for e, msg in zip(mlog, ilog):
            for key in ("tag", "text"):
                if key in e and e[key] and e[key] not in msg:
                    out.append("log entry %s: %s %r not mentioned in %r" % (e["k"], key, e[key], msg))
        return out

    def compare(self, case, obs, answers):
        st = case["stream"]
        if not answers:
            return []
        a = answers[0]
        out = []
        if st == "tables":
            if sorted(a["version_map"]) != obs["version_map"]:
                out.append("model _version_map %s, implementation %s" % (a["version_map"], obs["version_map"]))
            return out
        if st == "csv":
            got = obs.get("fields") if "fields" in obs else None
            if a != got:
                out.append("from_csv(%r): model %s, implementation %s" % (case["s"], a, obs))
            return out
        if st == "uuid":
            if a != obs["uuid"]:
                out.append("uuid.UUID(%r): model %s, implementation %s" % (case["s"], a, obs["uuid"]))
            return out
        if st == "outname":
            if "new" in obs and obs["new"] != [a]:
                out.append("write_to_file(%r): model writes %r, implementation created %s"
                           % (case["s"], a, obs["new"]))
            return out
        if st == "hist":
            return self.compare_hist(case, obs, answers)
        if len(answers) > 1:
            out += self.decl_diff(case, obs, answers[1])
        if not a["shape"]:
            return out          # outside the modelled shape (the generator does not go there)
        if obs.get("notes"):
            out.append("implementation output has content the abstract tree cannot hold: %s" % obs["notes"][:3])
        if a["raises"] != (obs["raised"] is not None):
            out.append("model raises=%s, implementation raised %s" % (a["raises"], obs["raised"]))
            return out
        if a["raises"]:
            return out
        if case["fmt"] != "XML":
            want_src = dsec_tree(case["doc"], "odML")
            if a["source"] != want_src:
                out.append("front end: model tree %s, dict means %s" % (a["source"], want_src))
        out += self.tree_diff(a["tree"], obs["tree"], "", set())
        out += self.log_diff(a["log"], obs["log"])
        if obs.get("written_tree") is not None and not isinstance(obs["written_tree"], dict):
            out += ["written file: " + d for d in self.tree_diff(a["tree"], obs["written_tree"], "", set())]
        if obs.get("loaded") is not None:
            out += ["reader: " + d for d in content_diff(a["read"], obs["loaded"])]
        if a["wf"] and a["read"] != a["spec"]:
            # the composition of the per-stage theorems, evaluated by the driver: on a well-formed
            # 1.0 document (WF10) the strict reader's view of the converted tree is the specified
            # 1.0 content (content10) - since the fixes 118e0c3 / 6a95aab without further hypotheses
            out.append("model: readDoc (convertTree x) differs from the specification content10 x "
                       "on a WF10 document: %s vs %s" % (json.dumps(a["read"])[:600], json.dumps(a["spec"])[:600]))
        return out

    def decl_diff(self, case, obs, rest):
        """StringIO input: the model of the text entry point (`dropDecl`) says which text the XML
        parser gets.  That text has to be the document - it parses (lxml, trusted) to the very tree
        the model's `convertTree` was asked about and the implementation's output is compared
        with - so that implementation = convertTree (parse (dropDecl text)) end to end."""
        text = self.source_of(case)[0]
        if not isinstance(rest, str) or not text.endswith(rest):
            return ["front end: the model hands the parser %r, no tail of the source text" % (rest[:80],)]
        if re.match(r"<\?xml\s[^>]*encoding", rest):
            return ["front end: the model leaves a declaration that names an encoding in front of the "
                    "decoded text: %r" % rest[:80]]
        try:
            tree = parse_text(rest, [])
        except Exception as exc:
            return ["front end: the text the model hands the parser does not parse (%s): %r"
                    % (fw.exc_name(exc), rest[:80])]
        if tree != obs["src_parsed"]:
            return ["front end: the text the model hands the parser is another document than the source: %r"
                    % rest[:120]]
        return []

    def compare_hist(self, case, obs, answers):
        """every delivered output of a history against the model's conversion of the source as it
        was at that call (weaker reading after an edit: or as it was at an earlier call)"""
        out = []
        if not all(a["shape"] for a in answers) or any(a["raises"] for a in answers):
            return []
        if case["fmt"] != "XML":
            for a, key in zip(answers, ("doc", "doc2")):
                want_src = dsec_tree(case[key], "odML")
                if a["source"] != want_src:
                    out.append("front end: model tree %s, dict means %s" % (a["source"], want_src))
        for i, st in enumerate(obs["steps"]):
            if not st.get("delivered") or st["raised"] is not None:
                continue
            where = "step %d %s: " % (i, st["op"][0])
            if st.get("notes"):
                out.append(where + "output has content the abstract tree cannot hold: %s" % st["notes"][:3])
            if st.get("tree") is None:
                out.append(where + "output is not parsable (%s)" % st.get("unparsable"))
                continue
            best = None
            for v in range(st["ver"], -1, -1):
                a = answers[v]
                d = self.tree_diff(a["tree"], st["tree"], "", set()) + self.log_diff(a["log"], st["log"])
                if st.get("loaded") is not None:
                    d += ["reader: " + x for x in content_diff(a["read"], st["loaded"])]
                if best is None:
                    best = d
                if not d:
                    best = d
                    break
            out += [where + x for x in best]
        return out

    # -- oracle --------------------------------------------------------------
    def oracle(self, case, obs):
        if "harness_exception" not in obs and case["stream"] == "hist":
            return self.oracle_hist(case, obs)
        if "harness_exception" in obs or case["stream"] != "conv":
            return []
        src_tree = case["tree"] if case["fmt"] == "XML" else dsec_tree(case["doc"], "odML")
        if case["fmt"] == "XML":
            src_tree = obs["src_parsed"]
        out = []
        if not obs.get("source_unchanged", True):
            out.append("source: convert() modified the source")
        if obs.get("source_unchanged_after_write") is False and \
                not (obs.get("new_files") == [] and self.same_target(case, obs)):
            out.append("source: write_to_file modified the source file")
        if case["input"] == "file" and obs.get("write_raised") is None and obs.get("raised") is None:
            want = case["out"] if case["out"].endswith((".xml", ".odml")) else case["out"] + ".xml"
            if want != obs["src_name"] and obs["new_files"] != [want]:
                out.append("source: write_to_file(%r) created %s" % (case["out"], obs["new_files"]))
            if obs.get("new_files") and obs.get("written_header") is False:
                out.append("load: written file lacks the XML header")
        if obs.get("raised") is not None:
            secs_named = all(find(d[3], "name") is not None for d in [src_tree] + descend(src_tree)
                             if d[0] == "section")
            if secs_named:
                out.append("load: conversion raised %s" % obs["raised"])
            return out
        return out + self.judge_output(src_tree, obs)

    def judge_output(self, src_tree, obs):
        """One delivered conversion result (obs: tree, loaded / load_error, log) against the 1.0
        content of src_tree."""
        out = []
        out += self.ids_in_output(obs["tree"], src_tree)
        if obs.get("load_error") is not None:
            out.append("load: strict reader raised %s on the converted document" % obs["load_error"])
        else:
            out += content_diff(spec_doc(src_tree), obs["loaded"])
        return out + self.judge_log(src_tree, obs["log"])

    @staticmethod
    def judge_log(src_tree, log):
        """everything dropped is in the log"""
        out = []
        try:
            from odml import format as ofmt
            sec_keys, doc_keys = list(ofmt.Section.arguments_keys), list(ofmt.Document.arguments_keys)
        except Exception:
            return out
        log = list(log)
        for kind, tag, text in dropped_items(src_tree, sec_keys, doc_keys):
            if kind == "unnamed":
                marks = [d[2] for d in descend(text) if d[2].startswith("UNNAMED")]
                hit = [m for m in log if (marks and marks[0] in m) or (not marks and "roperty" in m)]
                if not hit:
                    out.append("log: dropped unnamed Property %s is not in the conversion log" % marks)
            else:
                hit = [m for m in log if tag in m and (not text or text in m)]
                if not hit:
                    out.append("log: dropped element <%s>%s is not in the conversion log" % (tag, text))
        return out

    def oracle_hist(self, case, obs):
        """The property holds for every call that delivers an output, whatever the converter
        object has been used for before: the output is judged exactly like a single conversion
        (content, ids, loadable, log of that call mentions everything dropped), the source is
        never modified, only the named targets are created.

        Weaker readings: after the source was rewritten between two calls the output may be the
        conversion of the current source or of an earlier state (a converter may remember what it
        read) - but content and log have to belong to the same state; calls that are refused or
        fail, and str() (no observation point of the property; it raises TypeError on the unchanged
        tree), are not judged, only what they leave behind for the next call is; the log is read
        again after another converter object has worked and must still mention everything."""
        if case["fmt"] == "XML":
            trees = obs["src_parsed"]
        else:
            trees = [dsec_tree(case["doc"], "odML"), dsec_tree(case["doc2"], "odML")]
        out = []
        allowed = set()
        last = None           # source version the immediately preceding judged output belongs to
        for i, st in enumerate(obs["steps"]):
            kind = st["op"][0]
            where = "[step %d %s] " % (i, kind)
            if not st["src_ok"]:
                out.append("source: " + where + "the source was modified")
            if kind == "write" and st["raised"] is None:
                allowed.add(st["want"])
            extra = [f for f in st["files"] if f not in allowed]
            if extra:
                out.append("source: " + where + "files %s were created" % extra)
                allowed.update(extra)          # report once
            if kind == "other":
                if last is not None:
                    out += [self.at(where + "after another converter worked: ", f)
                            for f in self.judge_log(trees[last], st["log"])]
                continue
            delivered = st["raised"] is None and kind in ("convert", "write") or \
                (kind in ("str", "unicode") and st["raised"] is None and st.get("delivered"))
            if not delivered:
                last = None
                if kind in ("convert", "write") and st["raised"] is not None:
                    out.append(self.at(where, "load: conversion raised %s" % st["raised"]))
                continue
            if kind == "write":
                if st.get("missing"):
                    out.append("source: " + where + "write_to_file(%r) did not create %r" % (st["op"][1], st["want"]))
                    last = None
                    continue
                if st.get("header") is False:
                    out.append(self.at(where, "load: written file lacks the XML header"))
            if st.get("tree") is None:
                out.append(self.at(where, "load: the output is not parsable XML (%s)" % st.get("unparsable")))
                last = None
                continue
            best = None
            for v in range(st["ver"], -1, -1):
                fails = self.judge_output(trees[v], st)
                if best is None:
                    best = fails
                    last = v
                if not fails:
                    best, last = fails, v
                    break
            out += [self.at(where, f) for f in best]
        return out

    @staticmethod
    def at(where, failure):
        """keeps the kind prefix (`values: ...`) of a failure in front"""
        kind, rest = failure.split(":", 1)
        return "%s: %s%s" % (kind, where, rest.strip())

    @staticmethod
    def ids_in_output(tree, src_tree):
        """Document, Sections and Properties of the converted text carry exactly one id, a
        well-formed uuid; valid source ids are found again (checked on the loaded document)."""
        out = []

        def walk(t, path):
            if t[0] in ("odML", "section", "property"):
                ids = [k[2] for k in t[3] if k[0] == "id"]
                if len(ids) != 1:
                    out.append("ids: %s <%s> of the converted document has %d id elements" % (path, t[0], len(ids)))
                else:
                    try:
                        ok = str(uuidlib.UUID(ids[0])) == ids[0]
                    except ValueError:
                        ok = False
                    if not ok:
                        out.append("ids: %s <%s> of the converted document has the malformed id %r"
                                   % (path, t[0], ids[0]))
            for i, k in enumerate(t[3]):
                if k[0] in ("section", "property"):
                    walk(k, "%s/%d" % (path, i))
        walk(tree, "")
        return out[:3]

    @staticmethod
    def same_target(case, obs):
        want = case["out"] if case["out"].endswith((".xml", ".odml")) else case["out"] + ".xml"
        return want == obs.get("src_name")

    def tag(self, case, obs):
        st = case["stream"]
        if st == "hist":
            return ("hist:%s:%s" % (case["fmt"], case["input"]), True)
        if st != "conv":
            return (st, True)
        if case.get("locale"):
            return ("conv-locale:%s:%s:%s" % (case["fmt"], obs.get("encoding"),
                                              "raised" if obs.get("raised") else "ok"), True)
        if case.get("surface") is not None:
            return ("conv-surface:%s:%s:%s" % (case["fmt"], case["input"],
                                               "raised" if obs.get("raised") else "ok"), True)
        changed = bool(obs.get("log")) or obs.get("raised") is not None
        t = "conv:%s:%s:%s" % (case["fmt"], case["input"],
                               "raised" if obs.get("raised") else ("loadfail" if obs.get("load_error") else "ok"))
        return (t, changed or True)

    # no finding_key: the five defects found on the unchanged tree are fixed (known_findings.d/C15.json,
    # status "fixed"); every violation of the property is reported as such


if __name__ == "__main__":
    sys.exit(fw.main(C15(), sys.argv[1:]))
