# -*- coding: utf-8 -*-
"""
C06 - A refused operation changes nothing.

Structural operations: same histories, executor and Lean heap model as C03; the oracle compares the
snapshot of every object before and after each operation that raised. A second, oracle-only stream
provokes refusals of the value / dtype / cardinality / id / date / link operations on a populated
document and compares a deep attribute snapshot before and after.
"""
import random
import sys

import framework as fw
import heapcommon as hc
from c03 import HeapCheck, GenX, run_history_x, oracle_snap, X_OPS


def merged_id(sec):
    """The id of the Section this one is merged with (public query), None if there is none."""
    try:
        other = sec.get_merged_equivalent()
    except Exception:
        return None
    return None if other is None else other.id


def deep_snapshot(doc, extra):
    """Every attribute of every object reachable from doc and from the extra roots."""
    def prop(p):
        return {"name": p.name, "id": p.id, "values": safe_repr(p.values), "dtype": p.dtype, "unit": p.unit,
                "uncertainty": repr(p.uncertainty), "definition": p.definition,
                "reference": p.reference, "dependency": p.dependency,
                "dependency_value": p.dependency_value, "value_origin": p.value_origin,
                "val_cardinality": repr(p.val_cardinality),
                "parent": None if p.parent is None else p.parent.id}

    def sec(s):
        return {"name": s.name, "id": s.id, "type": s.type, "definition": s.definition,
                "reference": s.reference, "repository": s.repository, "link": s.link,
                "include": s.include, "merged": merged_id(s), "sec_cardinality": repr(s.sec_cardinality),
                "prop_cardinality": repr(s.prop_cardinality),
                "parent": None if s.parent is None else s.parent.id,
                "props": [prop(p) for p in s.properties], "secs": [sec(c) for c in s.sections]}
    out = {"doc": {"id": doc.id, "author": doc.author, "version": doc.version, "date": repr(doc.date),
                   "repository": doc.repository, "secs": [sec(s) for s in doc.sections]}}
    out["extra"] = [sec(e) if hasattr(e, "sections") else prop(e) for e in extra]
    return out


class Hostile(object):
    """A value whose conversion to text / int / float raises an exception of the given class (the
    refusal paths must not depend on which class a converter happens to raise)."""

    def __init__(self, exc):
        self.exc = exc

    def _raise(self, *_args):
        raise self.exc("hostile value")

    __str__ = __int__ = __float__ = __index__ = __trunc__ = __iter__ = __len__ = strip = _raise

    def __repr__(self):
        return "Hostile(%s)" % self.exc.__name__


EXC_CLASSES = [OverflowError, ZeroDivisionError, KeyError, IndexError, RuntimeError, ArithmeticError,
               LookupError, AssertionError, NotImplementedError, OSError, MemoryError, StopIteration,
               FloatingPointError, BufferError, EOFError, ImportError, NameError, ReferenceError,
               SystemError, UnicodeError, RecursionError, ValueError, TypeError, AttributeError]

DTYPES = ["string", "text", "int", "float", "url", "datetime", "date", "time", "boolean", "person",
          "2-tuple", "3-tuple", "1-tuple"]

# pre-states of a Property: (dtype, values); None = not given
PRE_STATES = [
    (None, None), (None, []), ("int", None), ("float", None), ("string", None), ("date", None),
    ("2-tuple", None), ("boolean", None),
    ("float", [1.5, float("inf")]), ("float", [float("nan")]), ("float", [float("-inf"), 2.0]),
    ("float", [1e308, 1.0]), (None, [1.5, float("inf")]), (None, [float("nan"), 1.0]),
    ("int", [1, 2]), ("int", [10 ** 400]), (None, [3]), (None, [10 ** 400, 1]),
    ("string", ["inf", "x"]), ("string", ["1e999"]), ("string", ["nan"]), ("string", ["1" * 5000]),
    ("string", ["1", "2"]), (None, ["x"]), (None, ["1e999", "2"]), ("text", ["a\nb"]),
    ("boolean", [True, False]), (None, [True]), ("date", ["2020-01-02"]),
    ("datetime", ["2020-01-02 03:04:05"]), ("time", ["03:04:05"]), ("2-tuple", ["(1;2)"]),
    ("3-tuple", ["(1;2;3)", "(4;5;6)"]), ("url", ["http://x"]), ("person", ["me"]),
]


def hostile_value(r):
    import datetime
    import decimal
    import fractions
    pool = [float("inf"), float("-inf"), float("nan"), 1e308, 10 ** 400, -10 ** 400, "inf", "-inf", "1e999",
            "nan", "infinity", "1" * 5000, "1_0", " 1 ", u"\u0661\u0662", decimal.Decimal("Infinity"),
            decimal.Decimal("NaN"), decimal.Decimal("sNaN"), decimal.Decimal("1e1000"),
            fractions.Fraction(1, 3), complex(1, 2), b"1", bytearray(b"1"), None, [], [1, [2]], {"a": 1},
            object(), datetime.date(2020, 1, 2), datetime.datetime(2020, 1, 2, 3, 4, 5),
            datetime.time(3, 4, 5), True, set([1, 2]), range(3), (1, 2), "(1;2)", "(1;2;3)", "(1;2",
            "2020-13-45", "25:61:61", "", "[1,2]", "[1,oops]", "oops", 1.5, 7, "7", "1.5", "true",
            Hostile(r.choice(EXC_CLASSES)), Hostile(r.choice(EXC_CLASSES)), Hostile(r.choice(EXC_CLASSES)),
            Hostile(OverflowError)]
    return r.choice(pool)


def safe_repr(x):
    try:
        return repr(x)
    except Exception as exc:      # noqa
        return "<repr raised %s>" % type(exc).__name__


# ---------------------------------------------------------------------------- mixed value lists
# (seeded round 5) A list of values that has to be refused need not be refused because of its FIRST
# item: every list-taking operation (values setter, extend, the constructors, the dtype setter,
# Property.merge / merge_check, and through them Section.merge, the link setter and finalize) meets
# lists with a prefix that converts, ONE item that does not, and a suffix that converts again.
VALUE_TEXTS = ["7", "8", "-3", "1.5", "2.5", "eight", "1.5x", "true", "False", "maybe", "2020-01-02",
               "2021-12-31", "2020-01-02x", "2020-13-45", "2020-01-02 03:04:05", "03:04:05", "25:61:61",
               "(1;2)", "(3;4)", "(1;x)", "(1;2;3)", "x", "inf", "1e999", "nan", "0x10", "1_0", " 9 ",
               "7\n", "http://x", u"\u0663"]
VALUE_FLOATS = [2.0, 3.0, -1.0, 0.5, float("inf"), float("-inf"), float("nan"), 1e308]

# destinations: (dtype, values)
DEST_STATES = [("int", [1, 2]), ("int", [5]), ("int", [1, 2]), ("float", [1.5]), ("boolean", [True]),
               ("date", ["2020-01-02"]), ("datetime", ["2020-01-02 03:04:05"]), ("time", ["03:04:05"]),
               ("2-tuple", ["(1;2)"]), ("int", None), ("float", None), ("date", None), ("boolean", []),
               ("3-tuple", None), ("int", [7])]


def mixed_values(r, dtype, floats=False):
    """(values, index of the item that does not convert) for a destination of the given dtype, or
    None. Which candidate converts is asked of the library's own converter (odml.dtypes.get), item by
    item, so the list is right whatever the converters accept."""
    from odml import dtypes
    good, bad = [], []
    for v in (VALUE_FLOATS if floats else VALUE_TEXTS):
        try:
            dtypes.get(v, dtype)
            good.append(v)
        except Exception:
            bad.append(v)
    if not good or not bad:
        return None
    npre = r.choice([0, 1, 1, 1, 1, 2, 3, 6])
    nsuf = r.choice([0, 0, 1, 2])
    return ([r.choice(good) for _ in range(npre)] + [r.choice(bad)] + [r.choice(good) for _ in range(nsuf)],
            npre)


def source_extras(r):
    """Attributes a merge takes over when the destination has none of its own (what a half-done merge
    leaves behind)."""
    return {"unit": r.choice([None, "Hz", "mV"]), "definition": r.choice([None, "source definition"]),
            "reference": r.choice([None, "source reference"]),
            "value_origin": r.choice([None, "source.csv"]), "uncertainty": r.choice([None, None, 0.5])}


def value_position(r, odml, doc, a, c, free, roots, stage, box):
    """One list-taking operation of a Property meets a list whose k-th item does not convert."""
    n = r.randrange(10 ** 6)
    dt, vals = r.choice(DEST_STATES)
    floats = r.random() < 0.15
    mixed = mixed_values(r, dt, floats) or mixed_values(r, dt)
    values, k = mixed
    via = r.choice(["values", "values", "values_text", "extend_strict", "extend_loose", "extend_prop",
                    "merge_loose", "merge_loose", "merge_loose", "merge_strict", "ctor", "create", "dtype",
                    "append_list", "insert_list", "value_kw"])
    q = odml.Property("q%d" % n, values=vals, dtype=dt, parent=r.choice([a, c, free]),
                      definition=r.choice([None, None, "own definition"]))
    src = None
    if via in ("extend_prop", "merge_loose", "merge_strict", "dtype"):
        extras = source_extras(r)
        if via == "extend_prop":
            extras["unit"] = q.unit
        spar = r.choice([None, None, free, a])
        src = odml.Property("s%d" % n if spar is q.parent else r.choice(["q%d" % n, "s%d" % n]),
                            values=values, parent=spar, **extras)
        if src.parent is None:
            roots.append(src)
    box["before"] = deep_snapshot(doc, roots)
    stage[0] = "value_position:%s:%s:%d" % (via, dt, k)
    if via == "values":
        q.values = r.choice([values, tuple(values), iter(values)])
    elif via == "values_text":
        q.values = "[" + ", ".join(str(v) for v in values) + "]"
    elif via in ("extend_strict", "extend_loose"):
        q.extend(r.choice([values, tuple(values)]), strict=via == "extend_strict")
    elif via == "extend_prop":
        q.extend(src)
    elif via in ("merge_loose", "merge_strict"):
        q.merge(src, strict=via == "merge_strict")
    elif via == "ctor":
        odml.Property("new%d" % n, values=values, dtype=dt, parent=r.choice([a, c, free]), unit="mV")
    elif via == "value_kw":
        odml.Property("new%d" % n, value=values, dtype=dt, parent=r.choice([a, c, free]))
    elif via == "create":
        r.choice([a, c, free]).create_property("new%d" % n, values=values, dtype=dt)
    elif via == "dtype":
        src.dtype = dt
    elif via == "append_list":
        q.append(values, strict=r.random() < 0.5)
    else:
        q.insert(r.randrange(0, 3), values, strict=r.random() < 0.5)


PROVOKE = ["values_unconvertible", "dtype_unconvertible", "append_unconvertible", "extend_unconvertible",
           "insert_unconvertible", "setitem_unconvertible", "val_cardinality", "sec_cardinality",
           "prop_cardinality", "new_id", "doc_date", "link_unresolvable", "ctor_values", "ctor_card_prop",
           "ctor_card_sec", "ctor_clash", "create_clash", "invalid_dtype", "uncertainty_text",
           "rename_clash", "reparent_clash", "append_self", "insert_clash", "extend_dup",
           "relink_unresolvable", "extend_later_refused", "include_unresolvable", "link_self_or_relative",
           "reorder_bad_index", "insert_bad_index", "setitem_bad_key", "merge_refused", "remove_foreign",
           "values_out_of_range", "dtype_matrix", "values_matrix", "ctor_matrix", "link_merge_conflict",
           "merge_clash_matrix", "value_position_matrix", "ctor_later_argument"]


def merge_clash(r, odml, doc, a, b, roots, stage, box):
    """A merge (strict or not), a link assignment (absolute / relative path) or finalize() that has to
    be refused because one pair of children cannot be merged. Dimensions: the kind of the clash (a
    sub-Section of the same name and another type; a Property whose values do not convert; with
    strict a Property with another unit / dtype / definition), where it sits (directly below, or
    inside a sub-Section that merges fine, in front of or behind children that merge fine), whether
    the clashing object at the destination is EMPTY (a placeholder: len() == 0, falsy) or filled,
    whether the source's is, whether destination / source carry a definition and reference of their
    own, and whether they live in the document or are detached. box["before"]: the snapshot taken
    just before the call that should be refused."""
    n = r.randrange(10 ** 6)
    via = r.choice(["merge_strict", "merge_loose", "merge_loose", "link_abs", "link_rel", "finalize",
                    "prop_merge_loose", "prop_merge_strict"])
    if via == "finalize":
        # finalize() is asked only on a document without other links / includes: there it is one link
        # assignment.  With other linking Sections around (left by earlier provocations of the same
        # case) it re-resolves them too - new copies with new ids - or stops at one of them: finalize over
        # several links is C12's operation and not among the operations C06 quantifies over (C03-C05, C09).
        try:
            others = any(s.link is not None or s.include is not None for s in doc.itersections())
        except Exception:
            others = True
        if others:
            via = "link_abs"
    in_doc = via in ("link_abs", "link_rel", "finalize")
    dst = odml.Section("dst%d" % n, "t", parent=r.choice([doc, b] if in_doc else [doc, b, None, None]),
                       definition=r.choice([None, None, "own definition"]),
                       reference=r.choice([None, None, "own reference"]))
    src = odml.Section("src%d" % n, "t", parent=r.choice([doc, a] if in_doc else [doc, a, None, None]),
                       definition=r.choice([None, "source definition"]),
                       reference=r.choice([None, "source reference"]))
    for root in (dst, src):
        if root.parent is None:
            roots.append(root)

    def fill(sec, how):
        if how in ("prop", "both"):
            odml.Property("note", values=r.choice([["x"], [1], None]), parent=sec)
        if how in ("sec", "both"):
            odml.Section("inner", "t", parent=sec)

    def fine(ps, pd, i):
        """children that merge without any trouble"""
        c = r.randrange(5)
        if c == 0:
            fill(odml.Section("new%d" % i, r.choice(["t", "u"]), parent=ps), r.choice(["none", "prop", "sec"]))
        elif c == 1:
            odml.Property("newp%d" % i, values=r.choice([[1], ["x"], None]), parent=ps)
        elif c == 2:
            fill(odml.Section("same%d" % i, "t", parent=ps), r.choice(["none", "prop"]))
            fill(odml.Section("same%d" % i, "t", parent=pd), r.choice(["none", "none", "sec"]))
        elif c == 3:
            odml.Property("samep%d" % i, values=[1, 2], parent=ps)
            odml.Property("samep%d" % i, values=r.choice([[3], None]), parent=pd)
        else:
            odml.Section("only_dst%d" % i, "u", parent=pd)

    # where the clash sits
    ps, pd = src, dst
    for i in range(r.randrange(0, 3)):
        fine(ps, pd, i)
    if r.random() < 0.35:
        ps = odml.Section("deep", "t", parent=src)
        pd = odml.Section("deep", "t", parent=dst)
        for i in range(r.randrange(0, 2)):
            fine(ps, pd, 10 + i)
    strict = via in ("merge_strict", "prop_merge_strict")
    clash = r.choice((["sec_type", "sec_type", "sec_type"] if not via.startswith("prop_") else []) +
                     ["prop_value", "prop_value", "prop_value"] +
                     (["prop_unit", "prop_dtype", "prop_definition"] if strict else []))
    if clash == "sec_type":
        t1, t2 = r.choice([("t", "u"), ("hardware/channel", "todo"), ("u", "t")])
        fill(odml.Section("clash", t1, parent=ps), r.choice(["none", "prop", "sec", "both"]))
        fill(odml.Section("clash", t2, parent=pd), r.choice(["none", "none", "none", "prop", "sec", "both"]))
    elif clash == "prop_value" and r.random() < 0.3:
        odml.Property("clash", values=r.choice([["not a number"], ["2020-01-02x"], ["1.5x", "2"]]), parent=ps)
        odml.Property("clash", values=r.choice([[1, 2], [1.5], [True]]), parent=pd,
                      definition=r.choice([None, "d"]))
    elif clash == "prop_value":
        # (round 5) the item that does not convert sits anywhere in the source's values: behind items
        # that do convert (a check that looks at the first item only lets the merge start), in front
        # of others; the source carries attributes the destination would take over
        dt, dvals = r.choice(DEST_STATES)
        floats = r.random() < 0.15
        values, _k = mixed_values(r, dt, floats) or mixed_values(r, dt)
        odml.Property("clash", values=values, parent=ps, **source_extras(r))
        odml.Property("clash", values=dvals, dtype=dt, parent=pd, definition=r.choice([None, "d"]))
    elif clash == "prop_unit":
        odml.Property("clash", values=[3], unit="kV", parent=ps)
        odml.Property("clash", values=r.choice([[1], None]), dtype="int", unit="mV", parent=pd)
    elif clash == "prop_dtype":
        odml.Property("clash", values=[3.5], dtype="float", parent=ps)
        odml.Property("clash", values=r.choice([[1], None]), dtype="int", parent=pd)
    else:
        odml.Property("clash", values=[3], definition="another", parent=ps)
        odml.Property("clash", values=r.choice([[1], None]), dtype="int", definition="one", parent=pd)
    for i in range(r.randrange(0, 3)):
        fine(ps, pd, 20 + i)
    if r.random() < 0.3:
        # the order of the children: the clashing one first
        for lst in (ps.sections, ps.properties):
            for ch in list(lst):
                if ch.name == "clash":
                    ch.reorder(0)
    if via == "finalize":
        # a link that has not been resolved yet (as after loading): assigned while the Section is
        # detached, where the setter only stores it
        par = dst.parent
        par.remove(dst)
        dst.link = src.get_path()
        par.append(dst)
    box["before"] = deep_snapshot(doc, roots)
    stage[0] = "clash:%s:%s" % (via, clash)
    if via in ("merge_strict", "merge_loose"):
        dst.merge(src, strict=strict)
    elif via.startswith("prop_"):
        pd.properties["clash"].merge(ps.properties["clash"], strict=strict)
    elif via == "link_abs":
        dst.link = src.get_path()
    elif via == "link_rel":
        dst.link = dst.get_relative_path(src)
    else:
        doc.finalize()


class C06(HeapCheck):
    prop = "C06"
    driver_name = "drv_c06"
    lean_targets = ["OdmlModel.Props.C06"]
    obligations = ["C06." + t for t in [
        "refused_changes_nothing", "refused_changes_nothing_anywhere", "constructor_refused_adds_nothing",
        "extend_all_or_nothing", "cardinality_refused_keeps",
        # compound operations of the HeapExt model (merge, link setter, clone): refused => unchanged, all-or-nothing
        "merge_refused_up_front_changes_nothing", "link_unresolvable_changes_nothing", "link_unresolvable_raises",
        "link_refused_up_front_changes_nothing", "merge_all_or_nothing", "merge_raises_iff",
        "clone_refused_changes_nothing", "link_all_or_nothing", "merge_all_or_nothing_anywhere",
        "refused_compound_changes_nothing"]]
    quick_n = 1200
    thorough_n = 30000
    trusted_base = [
        "Lean 4.33.0 kernel; axioms propext, Classical.choice, Quot.sound only (audited per theorem)",
        "hand-written model lean/OdmlModel/Model/Heap.lean (state at the raise point), tied to /repo by "
        "this correspondence run; C09 model for cardinality refusals",
        "Driver/HeapCommon.lean JSON glue; harness/framework.py, heapcommon.py, c03.py, c06.py",
    ]
    assumptions = [
        "value / dtype refusals are proved in C05 (refused_unchanged) and cardinality refusals in C09; "
        "here they are exercised on the implementation by the provoke stream",
        "merge refusals belong to C13 (merge_all_or_nothing)",
    ]
    rule = ("editing histories as in C03 with ~38% refused operations (clash at destination, wrong "
            "type, cycle, out-of-range index, duplicate inside an extend argument, invalid constructor "
            "arguments with parent=; since seeded round 3 also deep-equal copies / twins, odd names and "
            "positions, see C03), oracle-only histories with clone / merge / link / clean (refused primitive "
            "operations compared, incl. what .document answers before and after), plus a provoke stream: "
            "41 kinds (since round 5 `value_position_matrix`: every list-taking Property operation incl. "
            "Property.merge meets a list whose k-th item does not convert, and `ctor_later_argument`; the "
            "unconvertible value of a refused merge / link / finalize sits anywhere in the source's values; "
            "since round 4 a matrix of refused merges / link assignments / finalize: kind of clash x "
            "empty or filled clashing objects x position x strictness) of refused value / dtype / "
            "cardinality / id / date / link / constructor calls on a populated document, among them three "
            "matrix kinds (any Property pre-state x any dtype / any hostile value incl. values whose "
            "conversion raises any exception class), every third case followed by 1-3 further provoked "
            "refusals on the same documents, deep snapshot "
            "before and after. Non-trivial = a history with a refused op, or a provoked refusal that "
            "did raise; distinct = distinct canonical JSON.")

    def generate(self, tier, rng):
        cases = self.histories(tier, rng)
        nx = 400 if tier == "quick" else 3000
        for _ in range(nx):
            g = GenX(random.Random(rng.randrange(1 << 60)))
            cases.append({"xops": g.history(), "q": hc.q_plan(g.rng)})
        n = 12 if tier == "quick" else 200
        # the matrix kinds span (pre-state x operation x value): many more, cheap cases
        nm = 300 if tier == "quick" else 4000
        for kind in PROVOKE:
            for i in range(nm if kind.endswith("_matrix") else n):
                case = {"provoke": kind, "seed": rng.randrange(1 << 60)}
                if i % 3 == 2:
                    case["then"] = [rng.choice(PROVOKE) for _ in range(rng.randrange(1, 4))]
                cases.append(case)
        return cases

    def impl(self, case):
        if "xops" in case:
            # histories with clone (+ re-attach, children of the original moved into the deep-equal
            # copy and back), merge, link, clean: executed as in C03 (which holds the model tie for
            # them); here the oracle compares the snapshots around every refused primitive operation
            trace, done, skipped = run_history_x(case["xops"], case.get("q"))
            return {"x": True, "trace": trace, "done": done, "skipped": skipped}
        if "provoke" not in case:
            return HeapCheck.impl(self, case)
        import odml
        r = random.Random(case["seed"])
        doc = odml.Document(author="me", version="1")
        a = odml.Section("a", "t", parent=doc, definition="d")
        b = odml.Section("b", "t", parent=doc)
        c = odml.Section("c", "t", parent=a)
        odml.Section("c", "u", parent=b)
        p_int = odml.Property("n", values=[1, 2, 3], dtype="int", parent=a, unit="mV")
        p_str = odml.Property("s", values=["x", "y"], parent=a)
        p_date = odml.Property("d", values=["2020-01-02"], dtype="date", parent=b)
        odml.Property("n", values=[5], parent=b)
        free = odml.Section("free", "t")
        # a short random structural history first ("at any point of an editing history")
        for _ in range(r.randrange(0, 4)):
            try:
                r.choice([lambda: c.append(odml.Section(r.choice("xyz"), "t")),
                          lambda: p_int.append(r.randrange(9)),
                          lambda: b.append(odml.Property(r.choice("pq"), values=[1])),
                          lambda: setattr(c, "parent", r.choice([a, b, doc]))])()
            except Exception:
                pass
        def once(k):
            stage = ["call"]
            roots = [free]
            box = {}
            before = deep_snapshot(doc, roots)
            bad = r.choice(["abc", "1.5x", object, [1, "a"], {"a": 1}])
            try:
                if k == "values_unconvertible":
                    p_int.values = ["1", "oops"]
                elif k == "dtype_unconvertible":
                    p_str.dtype = r.choice(["int", "date", "boolean", "2-tuple"])
                elif k == "append_unconvertible":
                    p_int.append("oops")
                elif k == "extend_unconvertible":
                    p_int.extend([4, "oops"])
                elif k == "insert_unconvertible":
                    p_int.insert(1, "oops")
                elif k == "setitem_unconvertible":
                    p_int[0] = "oops"
                elif k == "val_cardinality":
                    p_int.val_cardinality = r.choice([(3, 1), "x", -2, (1, 2, 3), 1.5])
                elif k == "sec_cardinality":
                    a.sec_cardinality = r.choice([(3, 1), "x", -2, (1, 2, 3)])
                elif k == "prop_cardinality":
                    a.prop_cardinality = r.choice([(3, 1), "x", -2, (-1, 4)])
                elif k == "new_id":
                    r.choice([a, p_int, doc]).new_id(r.choice(["garbage", "1234", "g" * 32]))
                elif k == "doc_date":
                    doc.date = r.choice(["not a date", "2020-13-45", "12/31/2020x"])
                elif k == "link_unresolvable":
                    a.link = r.choice(["/no/such", "nope", "/b/zzz"])
                elif k == "ctor_values":
                    odml.Property("new", values=r.choice([["oops"], [1, "oops"], ["1", "2", "oops", "3"],
                                                          "[1, 2, oops]"]), dtype="int", parent=a)
                elif k == "ctor_card_prop":
                    odml.Property("new", values=[1], parent=a, val_cardinality=(3, 1))
                elif k == "ctor_card_sec":
                    odml.Section("new", "t", parent=a, sec_cardinality=r.choice([(3, 1), "x"]))
                elif k == "ctor_clash":
                    r.choice([lambda: odml.Section("c", "t", parent=a),
                              lambda: odml.Property("n", values=[1], parent=a)])()
                elif k == "create_clash":
                    r.choice([lambda: a.create_section("c"), lambda: a.create_property("n", 1)])()
                elif k == "invalid_dtype":
                    p_str.dtype = r.choice(["nonsense", "join", "Int eger"])
                elif k == "uncertainty_text":
                    p_int.uncertainty = "plus minus"
                elif k == "rename_clash":
                    r.choice([lambda: setattr(a, "name", "b"), lambda: setattr(p_str, "name", "n")])()
                elif k == "reparent_clash":
                    r.choice([lambda: setattr(c, "parent", b), lambda: setattr(p_int, "parent", b)])()
                elif k == "append_self":
                    r.choice([lambda: c.append(a), lambda: a.append(a), lambda: a.insert(0, doc)])()
                elif k == "insert_clash":
                    b.insert(0, c)
                elif k == "extend_dup":
                    x = odml.Section("fresh", "t")
                    free.extend([x, x])
                elif k == "extend_later_refused":
                    # a later entry of the argument is refused: clash with a child of another or the same
                    # type, a Property clash, a non-odml object, an ancestor (cycle), a duplicate
                    x = odml.Section("fresh", r.choice(["t", "u"]))
                    y = odml.Property("freshp", values=[1])
                    badobj = r.choice([lambda: odml.Section("c", "u"), lambda: odml.Section("c", "t"),
                                       lambda: odml.Property("n", values=[7]), lambda: "text", lambda: doc,
                                       lambda: a, lambda: x])()
                    first = r.sample([x, y], r.randrange(1, 3))
                    a.extend(first + [badobj] + ([odml.Section("tail", "t")] if r.random() < 0.5 else []))
                elif k == "relink_unresolvable":
                    # a link that is resolved already, then one that cannot be resolved
                    # (the linker is c, which shares no child name with the target /b)
                    stage[0] = "relink"
                    c.link = "/b"
                    stage[0] = "call"
                    before = deep_snapshot(doc, [free])
                    c.link = r.choice(["/no/such", "nope", "/b/zzz", "../zzz"])
                elif k == "include_unresolvable":
                    stage[0] = "relink"
                    c.link = "/b"
                    stage[0] = "call"
                    before = deep_snapshot(doc, [free])
                    c.include = r.choice(["/no/such/file.xml#x", "nothing", "file:///no/such.xml#/a"])
                elif k == "link_merge_conflict":
                    # the path resolves, but merging the target is refused: it has a Property of the
                    # same name whose values do not convert (a: n = [1, 2, 3] int)
                    tgt = odml.Section("tgt%d" % r.randrange(10 ** 6), "t", parent=r.choice([doc, b]))
                    odml.Property("n", values=r.choice([[], ["7"], ["7", "8"]]) +
                                  [r.choice(["x", "2020-01-02", "1.5x"])] + r.choice([[], ["9"]]),
                                  parent=tgt, unit=r.choice([None, "mV", "Hz"]),
                                  reference=r.choice([None, "r"]))
                    if r.random() < 0.5:
                        odml.Section("sub", "t", parent=tgt)
                    before = deep_snapshot(doc, [free])
                    stage[0] = "linkmerge"
                    a.link = tgt.get_path()
                elif k == "relink_after_merge":
                    # (corpus only: the witness of the known finding relink-after-merge) a linked
                    # Section is merged with another Section, then its link is assigned again
                    if c.parent is not a:
                        c.parent = a
                    c.link = "/b"
                    src = odml.Section("c", "t")
                    odml.Section("other", "t", parent=src)
                    c.merge(src)
                    before = deep_snapshot(doc, [free])
                    stage[0] = "relink"
                    c.link = "/b"
                elif k in ("reorder_bad_index", "insert_bad_index", "setitem_bad_key"):
                    # positions that are not plain small ints: floats (integral or not), ints beyond the
                    # machine word, bool, None, text, a tuple
                    pos = r.choice([1.5, 1.0, 0.0, 2 ** 63, 10 ** 30, -10 ** 30, None, "1", (0,), float("nan"),
                                    float("inf")])
                    if k == "reorder_bad_index":
                        r.choice([c, p_int, p_str, b]).reorder(pos)
                    elif k == "insert_bad_index":
                        r.choice([lambda: a.insert(pos, odml.Section("ins", "t")),
                                  lambda: a.insert(pos, odml.Property("insp", values=[1])),
                                  lambda: doc.insert(pos, odml.Section("ins", "t")),
                                  lambda: p_int.insert(pos, 7)])()
                    else:
                        key = r.choice([pos, "nosuch", 17, -17])
                        r.choice([lambda: a.sections.__setitem__(key, odml.Section("ins", "t")),
                                  lambda: a.properties.__setitem__(key, odml.Property("insp", values=[1])),
                                  lambda: doc.sections.__setitem__(key, odml.Section("ins", "t")),
                                  lambda: p_int.__setitem__(key, 7)])()
                elif k == "merge_refused":
                    # a conflict that sits deep in the source, behind children that merge fine
                    src = odml.Section("a", "t")
                    odml.Section("early", "t", parent=src)
                    odml.Property("fresh", values=[1], parent=src)
                    sc = odml.Section("c", "t", parent=src)
                    odml.Section("deep_early", "t", parent=sc)
                    strict = r.random() < 0.5
                    how = r.choice(["value", "unit", "dtype", "definition"]) if strict else "value"
                    if not any(pp.name == "q" for pp in c.properties):
                        odml.Property("q", values=[1, 2], dtype="int", unit="mV", definition="one", parent=c)
                    if how == "value":
                        odml.Property("q", values=r.choice([[], ["7"], ["7", "8"]]) + ["not a number"] +
                                      r.choice([[], ["9"]]), dtype="string", parent=sc,
                                      reference=r.choice([None, "r"]))
                    elif how == "unit":
                        odml.Property("q", values=[3], dtype="int", unit="kV", parent=sc)
                    elif how == "dtype":
                        odml.Property("q", values=[3.5], dtype="float", parent=sc)
                    else:
                        odml.Property("q", values=[3], dtype="int", definition="another", parent=sc)
                    before = deep_snapshot(doc, [free])
                    a.merge(src, strict=strict)
                elif k == "remove_foreign":
                    # remove asked of a container that does not hold the object
                    r.choice([lambda: b.remove(c), lambda: a.remove(p_date), lambda: doc.remove(c),
                              lambda: free.remove(p_int), lambda: c.remove(a)])()
                elif k == "values_out_of_range":
                    big = r.choice([10 ** 400, float("inf"), "inf", "-inf", "1e999", float("nan"), "nan"])
                    r.choice([lambda: setattr(p_int, "values", [1, big]), lambda: p_int.append(big),
                              lambda: p_int.extend([2, big]), lambda: p_int.insert(0, big),
                              lambda: odml.Property("fl", values=[1.5, 10 ** 400], dtype="float", parent=a),
                              lambda: p_int.__setitem__(0, big)])()
                elif k == "link_self_or_relative":
                    c.link = r.choice(["/a/c/zzz", "../../zzz", "zzz"])
                elif k in ("dtype_matrix", "values_matrix"):
                    # a Property in any pre-state (every dtype, no dtype, no values, values at the edge of
                    # the type: inf, nan, huge ints, numeric texts) meets any dtype / any value: whatever
                    # exception class the conversion raises inside, a refusal leaves the Property as it was
                    dt, vals = r.choice(PRE_STATES)
                    q = odml.Property("q", values=vals, dtype=dt, parent=r.choice([a, c, None]))
                    if q.parent is None:
                        free.append(q)
                    before = deep_snapshot(doc, [free])
                    if k == "dtype_matrix":
                        q.dtype = r.choice(["int", "float"]) if r.random() < 0.35 else \
                            r.choice(DTYPES + DTYPES + ["INT", "Float", "str", "bool", None, "4-tuple"])
                    else:
                        good = list(q.values[:1])
                        h = hostile_value(r)
                        # a first value that converts (and, without a dtype, decides the inferred one)
                        first = r.choice([1, 3, "5", 2.5, True, "x", "2020-01-02", "(1;2)"])
                        strict = r.random() < 0.7
                        r.choice([lambda: setattr(q, "values", [h]),
                                  lambda: setattr(q, "values", h),
                                  lambda: setattr(q, "values", good + [h]),
                                  lambda: setattr(q, "values", [first, h]),
                                  lambda: setattr(q, "values", [first, h]),
                                  lambda: q.extend([first, h], strict=strict),
                                  lambda: setattr(q, "values", [h, hostile_value(r)]),
                                  lambda: q.append(h, strict=strict),
                                  lambda: q.extend([h], strict=strict),
                                  lambda: q.extend(good + [h], strict=strict),
                                  lambda: q.extend(h, strict=strict),
                                  lambda: q.insert(r.randrange(-1, 3), h, strict=strict),
                                  lambda: q.__setitem__(r.randrange(-1, 2), h)])()
                elif k == "merge_clash_matrix":
                    merge_clash(r, odml, doc, a, b, roots, stage, box)
                elif k == "value_position_matrix":
                    value_position(r, odml, doc, a, c, free, roots, stage, box)
                elif k == "ctor_later_argument":
                    # several arguments are given and a LATER one is refused (the earlier ones are fine):
                    # the second cardinality of a Section, the cardinality of a Property whose values
                    # are fine, values behind a valid dtype, create_* with values that do not convert
                    par = r.choice([a, b, c, doc])
                    n = r.randrange(10 ** 6)
                    badc = r.choice([(3, 1), "x", -2, (1, 2, 3)])
                    calls = [lambda: odml.Section("new%d" % n, "t", parent=par, sec_cardinality=(0, 2),
                                                  prop_cardinality=badc),
                             lambda: odml.Section("new%d" % n, "t", parent=par, prop_cardinality=badc),
                             lambda: odml.Section("new%d" % n, "t", parent=par, definition="d",
                                                  sec_cardinality=badc, prop_cardinality=(0, 1))]
                    if par is not doc:
                        calls += [lambda: odml.Property("new%d" % n, values=[1, 2], dtype="int", unit="mV",
                                                        parent=par, val_cardinality=badc),
                                  lambda: odml.Property("new%d" % n, values=["7", "eight"], dtype="int",
                                                        parent=par, val_cardinality=(0, 5)),
                                  lambda: par.create_property("new%d" % n, values=["7", "eight"], dtype="int"),
                                  lambda: par.create_property("new%d" % n, values=[1.5, "x"])]
                    r.choice(calls)()
                elif k == "ctor_matrix":
                    dt = r.choice(DTYPES + [None, None])
                    h = hostile_value(r)
                    vals = r.choice([[h], h, [1, h], ["x", h], [h, hostile_value(r)]])
                    r.choice([lambda: odml.Property("new", values=vals, dtype=dt, parent=a),
                              lambda: a.create_property("new", values=vals, dtype=dt),
                              lambda: odml.Property("new", values=vals, dtype=dt, parent=a, unit="mV",
                                                    uncertainty=r.choice([None, "x", h]))])()
                raised = None
            except Exception as exc:
                raised = fw.exc_name(exc)
            before = box.get("before", before)
            after = deep_snapshot(doc, roots)
            return {"provoke": k, "raised": raised, "same": before == after, "stage": stage[0],
                    "diff": [] if before == after else _diff(before, after)}

        # "at any point of an editing history", also after other refused calls: the kinds listed in
        # `then` are provoked on the same documents afterwards (each with its own before / after)
        results = [once(k) for k in [case["provoke"]] + list(case.get("then", []))]
        for res in results:
            if res["raised"] and not res["same"]:
                return res
        out = dict(results[0])
        out["then"] = [[res["provoke"], res["raised"]] for res in results[1:]]
        return out

    def model_requests(self, case, obs):
        if "provoke" in case or "xops" in case:
            return []
        return HeapCheck.model_requests(self, case, obs)

    def compare(self, case, obs, answers):
        if "provoke" in case or "xops" in case:
            return []
        return HeapCheck.compare(self, case, obs, answers)

    def finding_key(self, case, obs, failure):
        # relink-after-merge was repaired by dccf4ba, link-refused-by-merge-keeps-link by 06cfd75:
        # a regression is a VIOLATION
        return None

    def tag(self, case, obs):
        if "provoke" in case:
            return ("provoke:%s:%s" % (case["provoke"], "raised" if obs.get("raised") else "accepted"),
                    bool(obs.get("raised")))
        tr = obs.get("trace", [])
        refused = sum(1 for s in tr if s["out"] != "ok")
        pre = "x-history" if "xops" in case else ("odd-history" if case.get("oracle_only") else "history")
        return ("%s refused=%d" % (pre, min(refused // 3 * 3, 12)), refused > 0)

    def oracle(self, case, obs):
        if "harness_exception" in obs:
            return []
        if "provoke" in case:
            if obs["raised"] and not obs["same"]:
                note = ""
                if obs.get("stage") == "relink" and obs["raised"] == "RuntimeError":
                    note = " [RuntimeError while the resolved link was assigned once more]"
                if obs.get("stage") in ("relink", "linkmerge") and obs["raised"] == "ValueError":
                    note = " [assignment of a resolvable link refused by the merge check]"
                return ["%s raised %s and changed the documents: %s%s"
                        % (obs["provoke"], obs["raised"], obs["diff"][:3], note)]
            return []
        prev = []
        prev_q = {}
        for k, step in enumerate(obs["trace"]):
            # (refused link assignments belong to C12 and the provoke stream: the setter takes the old
            # link apart first and resolves it again after a refusal, which gives equal copies under
            # new handles. Since round 5 a refused Section.merge is compared here as well - the tree
            # structure: child lists, parents, names, ids, merge records; the attributes are C13's.)
            if step["out"] != "ok" and obs["done"][k]["op"] not in ("set_link", "clean"):
                if step["snap"] != prev:
                    diff = [i for i, (x, y) in enumerate(zip(step["snap"], prev)) if x != y]
                    extra = len(step["snap"]) - len(prev)
                    return ["op %d %s raised %s but changed objects %s (and %d new objects): before %s after %s"
                            % (k, obs["done"][k], step["out"], diff, extra,
                               [prev[i] for i in diff[:3]], [step["snap"][i] for i in diff[:3]])]
                # what the objects answer when asked for their document is part of "as they were"
                # (compared where the query plan asked the same object before and after the call)
                before = dict((i, a) for i, a in prev_q.get("doc", []))
                moved = [(i, before[i], a) for i, a in (step.get("q") or {}).get("doc", [])
                         if i in before and before[i] != a]
                if moved:
                    return ["op %d %s raised %s but .document of object %d changed from %s to %s"
                            % ((k, obs["done"][k], step["out"]) + moved[0])]
            if hc.wf_failures(oracle_snap(step["snap"])):
                break            # beyond a broken tree (C03's business) nothing is expected
            prev = step["snap"]
            prev_q = step.get("q") or {}
        return []


def _diff(a, b, path=""):
    out = []
    if isinstance(a, dict) and isinstance(b, dict):
        for k in sorted(set(a) | set(b)):
            out += _diff(a.get(k), b.get(k), path + "/" + str(k))
    elif isinstance(a, list) and isinstance(b, list) and len(a) == len(b):
        for i, (x, y) in enumerate(zip(a, b)):
            out += _diff(x, y, path + "/%d" % i)
    elif a != b:
        out.append("%s: %r -> %r" % (path, a, b))
    return out[:6]


if __name__ == "__main__":
    sys.exit(fw.main(C06(), sys.argv[1:]))
