# -*- coding: utf-8 -*-
"""
C12 - Resolving links and includes only adds copies; cleaning restores the document.

Tie between lean/OdmlModel/Model/Link.lean (+ Model/Merge.lean) and /repo: generated documents
with 1-3 links / includes inside the property's quantifier (targets disjoint from every linking
Section, no chained or nested links) go through finalize / clean / save+load cycles on the real
library; the compiled model runs the same cycle on the canonical snapshot of the initial
document. Include targets are served from generated `file:` documents in a private temp dir
(no network). Link *texts* are compared by what they designate (resolved with the
implementation's own get_section_by_path); path text arithmetic is C14's business.
"""
import atexit
import copy
import os
import shutil
import sys
import tempfile

import framework as fw
import c13 as m

KEY_FILL = "C12/definition-reference-filled-not-restored"
OWN_NAMES = ["o1", "o2", "o3"]
_PRIVATE = {"dir": None, "n": 0, "root": None, "owner": None}


def _root():
    """One temp root per check run, created (and removed at exit) by the main process."""
    if _PRIVATE["root"] is None:
        base = os.environ.get("VERIF_TMP", "/tmp")
        _PRIVATE["root"] = tempfile.mkdtemp(prefix="verif_c12_", dir=base)
        _PRIVATE["owner"] = os.getpid()
        atexit.register(_cleanup)
    return _PRIVATE["root"]


def _cleanup():
    if _PRIVATE["owner"] == os.getpid() and _PRIVATE["root"]:
        shutil.rmtree(_PRIVATE["root"], True)


def private_dir():
    """A temp dir of this process; tempfile is redirected to it (odml.cache lives under it)."""
    if _PRIVATE["dir"] is None or _PRIVATE.get("pid") != os.getpid():
        d = os.path.join(_root(), "p%d" % os.getpid())
        if not os.path.isdir(d):
            os.makedirs(d)
        _PRIVATE.update(dir=d, pid=os.getpid())
    tempfile.tempdir = _PRIVATE["dir"]
    return _PRIVATE["dir"]


# ----------------------------------------------------------------------------- generation
SAFE = {"string": ["a", "b", "x y", "A"], "int": [1, 2, 3, 0, -1], "float": [1.0, 2.0, 1.5, -0.5],
        "boolean": [True, False]}


def simple_prop(rng, name):
    """Values the XML round trip keeps as they are (anything else is C01's business)."""
    dtype = rng.choice(["string", "string", "int", "float", "boolean"])
    n = rng.choice([1, 1, 2, 3, 0])       # 0: a Property without values (an empty Property is falsy)
    return {"name": name, "dtype": dtype, "values": [m.to_tag(v) for v in rng.sample(SAFE[dtype], min(n, len(SAFE[dtype])))],
            "unit": rng.choice([None, None, "mV"]), "unc": None,
            "def": rng.choice([None, None, "pdef"]), "ref": None, "origin": None}


def simplify(rng, sec):
    sec["props"] = [simple_prop(rng, p["name"]) for p in sec["props"]]
    for c in sec["secs"]:
        simplify(rng, c)
    return sec


def plain_sec(rng, name, depth, names=None):
    """A Section tree without links and without definition/reference noise unless asked."""
    s = simplify(rng, m.new_sec(rng, name, depth, attrs=False))
    if rng.random() < 0.4:
        s["def"] = rng.choice(["Def one", "other text"])
    if rng.random() < 0.3:
        s["ref"] = rng.choice(["ref A", "x"])
    return s


def all_paths(secs, pre=()):
    out = []
    for s in secs:
        out.append(pre + (s["name"],))
        out += all_paths(s["secs"], pre + (s["name"],))
    return out


def node(secs, path):
    cur = None
    for n in path:
        cur = next(s for s in secs if s["name"] == n)
        secs = cur["secs"]
    return cur


def diverge(p, q):
    k = min(len(p), len(q))
    return p[:k] != q[:k]


def rel_text(lp, tp):
    """A relative path from the Section at lp to the Section at tp (both tuples of names)."""
    k = 0
    while k < len(lp) and k < len(tp) and lp[k] == tp[k]:
        k += 1
    return "../" * (len(lp) - k) + "/".join(tp[k:])


def gen_case(rng, tier):
    doc = [plain_sec(rng, n, rng.choice([1, 2, 2, 3])) for n in rng.sample(m.NAMES, rng.choice([2, 3, 4]))]
    files = {}
    for key in rng.sample(["f1", "f2"], rng.choice([0, 1, 1, 2])):
        files[key] = [plain_sec(rng, n, rng.choice([1, 2])) for n in rng.sample(m.NAMES, rng.choice([1, 2]))]
    paths = all_paths(doc)
    rng.shuffle(paths)
    linkers = []
    targets = []
    want = rng.choice([1, 1, 2, 3])
    any_clash = False
    for lp in paths:
        if len(linkers) >= want:
            break
        if not all(diverge(lp, q) for q in linkers + targets):
            continue
        use_file = files and rng.random() < 0.4
        if use_file:
            key = rng.choice(sorted(files))
            tps = all_paths(files[key])
            tp = rng.choice(tps)
            tnode = node(files[key], tp)
        else:
            cands = [q for q in paths if diverge(q, lp) and all(diverge(q, x) for x in linkers)]
            if not cands:
                continue
            tp = rng.choice(cands)
            tnode = node(doc, tp)
        l = node(doc, lp)
        # own children of the linking Section: other names, or (clash variant) some shared names
        clash = rng.random() < 0.3
        any_clash = any_clash or clash
        l["secs"] = [plain_sec(rng, n, 1) for n in rng.sample(OWN_NAMES, rng.choice([0, 1, 2]))]
        l["props"] = [simple_prop(rng, n) for n in rng.sample(OWN_NAMES, rng.choice([0, 1, 2]))]
        if clash:
            for c in tnode["secs"][:rng.choice([1, 2])]:
                # same name and type (another type is C13's known finding); content: a pruned
                # copy, so that nested children never clash in type or dtype
                own = copy.deepcopy(c)
                own["secs"] = [x for x in own["secs"] if rng.random() < 0.5]
                own["props"] = [x for x in own["props"] if rng.random() < 0.6]
                for pp in own["props"]:
                    if rng.random() < 0.5:
                        pp["values"] = pp["values"][:1]
                if rng.random() < 0.3:
                    own["def"] = "own def"
                l["secs"].append(own)
            for q in tnode["props"][:rng.choice([0, 1])]:
                own = copy.deepcopy(q)
                own["values"] = own["values"][:1]
                own["def"] = None
                l["props"].append(own)
        if use_file:
            form = rng.randrange(3)
            if form == 0 and tp == (files[key][0]["name"],):
                l["incl"] = "FILE:%s" % key
            elif form == 1:
                l["incl"] = "FILE:%s#/%s" % (key, "/".join(tp))
            else:
                l["incl"] = "FILE:%s#%s" % (key, "/".join(tp))
        else:
            l["link"] = "/" + "/".join(tp) if rng.random() < 0.5 else rel_text(lp, tp)
            targets.append(tp)
        if rng.random() < 0.5:
            l["def"] = None
        linkers.append(lp)
        # sub-trees changed above: recompute the candidate paths
        paths = [q for q in all_paths(doc)]
        rng.shuffle(paths)
    if not linkers:
        return None
    ops = rng.choice([["finalize", "clean"], ["finalize", "clean", "reload"],
                      ["finalize", "clean", "finalize", "clean"],
                      ["finalize", "clean", "reload", "finalize", "clean", "reload"],
                      ["finalize", "finalize", "clean", "clean"]])
    return {"stream": "cycle", "doc": doc, "files": files, "ops": ops,
            "linkers": [list(p) for p in linkers], "clash": any_clash}


# ----------------------------------------------------------------------------- implementation
OP_SECONDS = 20


class OpTimeout(Exception):
    pass


class time_limit(object):
    """Bound one call into the library (SIGALRM; the checks run the library in the main thread)."""

    def __init__(self, seconds):
        self.seconds = seconds

    def _fire(self, signum, frame):
        raise OpTimeout()

    def __enter__(self):
        import signal
        try:
            self.old = signal.signal(signal.SIGALRM, self._fire)
            signal.setitimer(signal.ITIMER_REAL, self.seconds)
            self.armed = True
        except ValueError:          # not in the main thread: run unbounded
            self.armed = False

    def __exit__(self, *exc):
        import signal
        if self.armed:
            signal.setitimer(signal.ITIMER_REAL, 0)
            signal.signal(signal.SIGALRM, self.old)
        return False


def build_doc(secs):
    import odml
    doc = odml.Document()
    for s in secs:
        build_tree(s, doc)
    return doc


def build_tree(spec, parent, urls=None):
    import odml
    incl = spec.get("incl")
    if incl and urls is not None and incl.startswith("FILE:"):
        key, _, rest = incl[5:].partition("#")
        incl = urls[key] + (("#" + rest) if "#" in spec["incl"] else "")
    sec = odml.Section(name=spec["name"], type=spec["type"], definition=spec["def"],
                       reference=spec["ref"], parent=parent, link=spec.get("link"), include=incl)
    for p in spec["props"]:
        m.build_prop(p, sec)
    for c in spec["secs"]:
        build_tree(c, sec, urls)
    return sec


def canon_link(sec):
    if sec.link is None:
        return None
    try:
        return sec.get_section_by_path(sec.link).get_path()
    except Exception as exc:
        return {"w": "unresolvable link %r: %s" % (sec.link, fw.exc_name(exc))}


def canon_include(sec, keys):
    from odml import terminology
    inc = sec.include
    if inc is None:
        return None
    url, sep, path = inc.partition("#")
    key = keys.get(url)
    if key is None:
        return {"w": "include of unknown url %r" % inc}
    try:
        term = terminology.load(url)
        tgt = term.get_section_by_path(path) if sep else term.sections[0]
        return "%s#%s" % (key, tgt.get_path())
    except Exception as exc:
        return {"w": "unresolvable include %r: %s" % (inc, fw.exc_name(exc))}


def snap_sec(sec, keys):
    return {"name": sec.name, "type": sec.type, "def": m.text_out(sec.definition),
            "ref": m.text_out(sec.reference), "link": canon_link(sec),
            "incl": canon_include(sec, keys), "merged": bool(sec.is_merged),
            "props": [m.snap_prop(p) for p in sec.properties],
            "secs": [snap_sec(c, keys) for c in sec.sections]}


def snap_doc(doc, keys):
    return [snap_sec(s, keys) for s in doc.sections]


# ----------------------------------------------------------------------------- oracle helpers
def strip_marks(s, deep=True):
    """A snapshot without the is_merged flags (a copy differs from its original in that)."""
    out = dict(s, merged=False)
    out["secs"] = [strip_marks(c) for c in s["secs"]]
    return out


def lookup(secs, path):
    cur = None
    for n in path:
        cur = next((s for s in secs if s["name"] == n), None)
        if cur is None:
            return None
        secs = cur["secs"]
    return cur


def parse_canon(text):
    return [n for n in text.split("/") if n]


def target_of(linker, doc, files):
    if linker["link"] is not None:
        return lookup(doc, parse_canon(linker["link"]))
    key, _, path = linker["incl"].partition("#")
    return lookup(files[key], parse_canon(path))


def masked(doc, paths, what):
    """Copy of a document snapshot with the Sections at `paths` reduced by `what(section)`."""
    doc = copy.deepcopy(doc)
    for p in paths:
        n = lookup(doc, p)
        if n is not None:
            what(n)
    return doc


class C12(fw.Check):
    prop = "C12"
    lean_targets = ["OdmlModel.Props.C12"]
    obligations = ["C12." + t for t in [
        "link_adds_only",
        "copy_is_faithful",
        "link_adds_only_general",
        "unmerge_restores",
        "clean_after_link_partial",
        "clean_finalize_counterexample",
        "cycle_stable",
        "cleanSec_noLinks",
        "clean_sec_restores",
        "finalize_step_not_linker",
        "finalize_step_at_linker",
        "finalize_step_frame",
        "finalize_loop_frame"]]
    trusted_base = [
        "Lean 4.33.0 kernel; axioms propext, Classical.choice, Quot.sound only (audited per theorem)",
        "hand-written models lean/OdmlModel/Model/Link.lean and Model/Merge.lean, tied to /repo by "
        "this correspondence run (and by C13's)",
        "Driver/C12.lean, Driver/MergeCodec.lean JSON glue; harness/framework.py, harness/c12.py, c13.py",
        "lxml (save/load in between), urllib file: URLs, odml.terminology cache (exercised, not modelled)",
    ]
    assumptions = [
        "path text arithmetic (get_relative_path / get_section_by_path on '..' paths) is C14's "
        "property: link texts are compared by the Section they designate",
        "documents inside the property's quantifier (Link.inRegime, evaluated by the driver on every case)",
        "value universe and attribute assumptions of C13",
    ]
    rule = ("documents of 2-4 top-level Section trees (depth <= 3) with 1-3 linking Sections "
            "(links absolute or relative, includes url / url#/abs / url#rel served from generated "
            "file: documents), pairwise disjoint and disjoint from their targets; linking Sections "
            "with own children of other names (restoration law) or sharing names with the target "
            "(30%, first sentence only); cycles finalize/clean, with save+load and repeated cycles. "
            "Non-trivial = at least one target has children; distinct = distinct canonical JSON.")

    def generate(self, tier, rng):
        _root()
        n = 1200 if tier == "quick" else 15000
        out = []
        while len(out) < n:
            c = gen_case(rng, tier)
            if c is not None:
                out.append(c)
        return out

    # -- implementation ------------------------------------------------------
    def impl(self, case):
        import odml
        from odml.tools.odmlparser import ODMLWriter, ODMLReader
        tmp = private_dir()
        _PRIVATE["n"] += 1
        urls, keys, written = {}, {}, []
        for key, secs in sorted(case["files"].items()):
            path = os.path.join(tmp, "t%d_%s.xml" % (_PRIVATE["n"], key))
            odml.save(build_doc(secs), path)
            written.append(path)
            urls[key] = "file://" + path
            keys[urls[key]] = key
        doc = odml.Document()
        for s in case["doc"]:
            build_tree(s, doc, urls)
        from odml import terminology
        files = {}
        for key, url in urls.items():
            term = terminology.load(url)
            files[key] = snap_doc(term, keys) if term is not None else None
        states = [{"op": "initial", "outcome": "ok", "doc": snap_doc(doc, keys)}]
        for op in case["ops"]:
            outc = "ok"
            try:
                with time_limit(OP_SECONDS):
                    if op == "finalize":
                        doc.finalize()
                    elif op == "clean":
                        doc.clean()
                    elif op == "reload":
                        text = ODMLWriter("XML").to_string(doc)
                        doc = ODMLReader("XML", show_warnings=False).from_string(text)
            except Exception as exc:
                outc = fw.exc_name(exc)
            if outc == "OpTimeout":
                # a resolution that does not terminate (e.g. a link that came to designate an
                # ancestor): do not walk the (possibly huge) document, report and stop
                states.append({"op": op, "outcome": outc, "doc": []})
                break
            try:
                with time_limit(OP_SECONDS):
                    states.append({"op": op, "outcome": outc, "doc": snap_doc(doc, keys)})
            except OpTimeout:
                states.append({"op": op, "outcome": "OpTimeout", "doc": []})
                break
        for path in written:
            try:
                os.remove(path)
            except OSError:
                pass
        return {"states": states, "files": files}

    # -- model ---------------------------------------------------------------
    def model_requests(self, case, obs):
        init = obs["states"][0]["doc"]
        if not (m.modelable(init) and m.modelable(obs["files"])) or \
                any(v is None for v in obs["files"].values()):
            return []
        return [{"op": "cycle", "doc": init, "files": obs["files"], "ops": case["ops"]}]

    def compare(self, case, obs, answers):
        if not answers:
            return ["initial state outside the modelled universe: %s"
                    % fw.canon(obs["states"][0]["doc"])[:400]]
        a = answers[0]
        out = []
        if not a["regime"]:
            out.append("generated document outside Link.inRegime")
        for i, (st, ms) in enumerate(zip(obs["states"][1:], a["states"])):
            if st["outcome"] == "OpTimeout":
                out.append("step %d %s did not terminate within %d s" % (i, st["op"], OP_SECONDS))
                break
            if (ms["out"] == "ok") != (st["outcome"] == "ok"):
                out.append("step %d %s: model %s, implementation %s" % (i, st["op"], ms["out"], st["outcome"]))
                break
            if ms["doc"] != st["doc"]:
                out.append("step %d %s: documents differ: model %s implementation %s"
                           % (i, st["op"], fw.canon(ms["doc"])[:700], fw.canon(st["doc"])[:700]))
                break
        linkers = [l["path"] for l in a["linkers"]]
        if sorted(linkers) != sorted(case["linkers"]):
            out.append("linking Sections: model %s, generator %s" % (linkers, case["linkers"]))
        for info in a["linkers"]:
            l = lookup(obs["states"][0]["doc"], info["path"])
            t = target_of(l, obs["states"][0]["doc"], obs["files"]) if l else None
            if t is None or info.get("target") != t:
                out.append("target of %s: model %s, harness %s" % (info["path"], info.get("target"), t))
            elif info["noClash"] != self.no_clash(l, t) or info["noFill"] != self.no_fill(l, t):
                out.append("side conditions of %s: driver noClash=%s noFill=%s, harness %s %s"
                           % (info["path"], info["noClash"], info["noFill"],
                              self.no_clash(l, t), self.no_fill(l, t)))
        return out

    # -- oracle --------------------------------------------------------------
    @staticmethod
    def no_clash(l, t):
        return not (set(c["name"] for c in t["secs"]) & set(c["name"] for c in l["secs"])) and \
            not (set(p["name"] for p in t["props"]) & set(p["name"] for p in l["props"]))

    @staticmethod
    def no_fill(l, t):
        return all(l[a] is not None or t[a] in (None, "") for a in ("def", "ref"))

    def oracle(self, case, obs):
        if "harness_exception" in obs:
            return []
        out = []
        files = obs["files"]
        states = obs["states"]
        lpaths = case["linkers"]
        for i in range(1, len(states)):
            prev, cur = states[i - 1], states[i]
            op = cur["op"]
            if cur["outcome"] == "OpTimeout":
                out.append("%s did not terminate within %d s" % (op, OP_SECONDS))
                break
            if cur["outcome"] != "ok":
                out.append("%s raised %s" % (op, cur["outcome"]))
                break
            if op == "finalize":
                self.check_finalize(prev["doc"], cur["doc"], lpaths, files, out)
            elif op == "clean":
                # the state this clean has to restore: the one before the finalize(s) it undoes
                j = i - 1
                while j > 0 and states[j]["op"] in ("finalize", "clean"):
                    j -= 1
                self.check_clean(states[j]["doc"], cur["doc"], lpaths, files, out)
            elif op == "reload":
                if cur["doc"] != prev["doc"]:
                    out.append("reload: the saved and re-loaded document differs from the cleaned one")
                self.check_saved(cur["doc"], states[0]["doc"], lpaths, files, out)
        return out

    def check_finalize(self, before, after, lpaths, files, out):
        for p in lpaths:
            l0, l1 = lookup(before, p), lookup(after, p)
            if l0 is None or l1 is None:
                out.append("finalize: linking Section %s disappeared" % p)
                continue
            t = target_of(l0, before, files)
            if t is None:
                continue
            used_s = set(c["name"] for c in l0["secs"])
            used_p = set(q["name"] for q in l0["props"])
            for c in t["secs"]:
                if c["name"] in used_s:
                    continue
                got = [x for x in l1["secs"] if x["name"] == c["name"]]
                if len(got) != 1 or strip_marks(got[0]) != strip_marks(c):
                    out.append("finalize: %s has no copy of the target's Section %r" % (p, c["name"]))
            for q in t["props"]:
                if q["name"] in used_p:
                    continue
                got = [x for x in l1["props"] if x["name"] == q["name"]]
                if len(got) != 1 or got[0] != q:
                    out.append("finalize: %s has no copy of the target's Property %r" % (p, q["name"]))
            # own children of names the target does not use stay as they are, in place
            tn_s = set(c["name"] for c in t["secs"])
            tn_p = set(q["name"] for q in t["props"])
            for k, c in enumerate(l0["secs"]):
                if c["name"] not in tn_s and (k >= len(l1["secs"]) or l1["secs"][k] != c):
                    out.append("finalize: own Section %r of %s changed" % (c["name"], p))
            for k, q in enumerate(l0["props"]):
                if q["name"] not in tn_p and (k >= len(l1["props"]) or l1["props"][k] != q):
                    out.append("finalize: own Property %r of %s changed" % (q["name"], p))
        # nothing else changes: blank the linking Sections' content on both sides
        def blank(n):
            n.update(secs=[], props=[], merged=False, **{"def": None, "ref": None})
        if masked(before, lpaths, blank) != masked(after, lpaths, blank):
            out.append("finalize: a part of the document outside the linking Sections changed "
                       "(the target or an unrelated Section)")

    def check_clean(self, orig, after, lpaths, files, out):
        restor = []     # linking Sections under the restoration law (no shared child name)
        for p in lpaths:
            l0 = lookup(orig, p)
            t = target_of(l0, orig, files) if l0 else None
            if l0 is not None and t is not None and self.no_clash(l0, t):
                restor.append(p)
        others = [p for p in lpaths if p not in restor]

        def blank(n):
            n.update(secs=[], props=[], merged=False, **{"def": None, "ref": None})

        def blank_attrs(n):
            n.update(**{"def": None, "ref": None})
        a = masked(masked(orig, others, blank), restor, blank_attrs)
        b = masked(masked(after, others, blank), restor, blank_attrs)
        if a != b:
            out.append("restore: clean after finalize did not restore the document: %s vs %s"
                       % (fw.canon(a)[:500], fw.canon(b)[:500]))
        for p in restor:
            l0, l2 = lookup(orig, p), lookup(after, p)
            if l2 is None:
                continue
            t = target_of(l0, orig, files)
            for attr in ("def", "ref"):
                if l2[attr] != l0[attr]:
                    if l0[attr] is None and t[attr] is not None and l2[attr] == t[attr]:
                        out.append("restore-fill: %s of linking Section %s was filled from the target "
                                   "by finalize and is not removed by clean" % (attr, p))
                    else:
                        out.append("restore: %s of linking Section %s changed from %r to %r"
                                   % (attr, p, l0[attr], l2[attr]))
            if l2["link"] != l0["link"] or l2["incl"] != l0["incl"]:
                out.append("designates: link/include of %s designated %s/%s, now %s/%s"
                           % (p, l0["link"], l0["incl"], l2["link"], l2["incl"]))
            if l2["merged"]:
                out.append("restore: %s is still merged after clean" % p)

    def check_saved(self, loaded, initial, lpaths, files, out):
        for p in lpaths:
            l0, l = lookup(initial, p), lookup(loaded, p)
            if l is None:
                out.append("saved: linking Section %s missing from the saved file" % p)
                continue
            if l["link"] is None and l["incl"] is None:
                out.append("saved: the reference of %s is missing from the saved file" % p)
            t = target_of(l0, initial, files)
            if t is not None and self.no_clash(l0, t):
                names = set(c["name"] for c in l["secs"]) | set(q["name"] for q in l["props"])
                tnames = set(c["name"] for c in t["secs"]) | set(q["name"] for q in t["props"])
                if names & tnames:
                    out.append("saved: the file saved after clean contains referenced content %s of %s"
                               % (sorted(names & tnames), p))

    def finding_key(self, case, obs, failure):
        if failure.startswith("restore-fill:"):
            return KEY_FILL
        return None

    def tag(self, case, obs):
        kinds = []
        for p in case["linkers"]:
            l = node(case["doc"], p)
            kinds.append("incl" if l.get("incl") else "link")
        nontrivial = False
        try:
            init = obs["states"][0]["doc"]
            for p in case["linkers"]:
                t = target_of(lookup(init, p), init, obs["files"])
                if t and (t["secs"] or t["props"]):
                    nontrivial = True
        except Exception:
            pass
        return ("cycle:%s:%s:%s" % ("+".join(sorted(kinds)), "clash" if case["clash"] else "noclash",
                                    len(case["ops"])), nontrivial)


if __name__ == "__main__":
    sys.exit(fw.main(C12(), sys.argv[1:]))
