# -*- coding: utf-8 -*-
"""
C12 - Resolving links and includes only adds copies; cleaning restores the document.

Tie between lean/OdmlModel/Model/Link.lean (+ Model/Merge.lean) and /repo: generated documents
with 1-3 links / includes inside the property's quantifier (targets disjoint from every linking
Section, no chained or nested links) go through finalize / clean / save+load cycles on the real
library; the compiled model runs the same cycle on the canonical snapshot of the initial
document. Include targets are served from generated `file:` documents in a private temp dir
(no network). Link *texts* are compared by what they designate (resolved with the
implementation's own get_section_by_path); path text arithmetic is C14's business.

The snapshots carry every attribute of Sections and Properties but the ids; the oracle works on
these, the model on their projection `narrow` (the attributes Model/Merge.lean has). Variants of
the three model operations on the implementation side (`finalize:sec`, `clean:sec`,
`reload:<format>[-file]`, `copy:clone*`, `noop:refused`) are mapped to finalize / clean / reload
for the model; an `edit:*` op (the harness changes the cleaned document between two cycles) starts
a new segment: the model is asked again from the snapshot after the edit.

Round 4 (design.d/C12.md): the text of an include is cut into URL and path by the model
(Link.splitFirst, theorems include_text_designates / finalize_step_at_include); request `split`
ties that cut to the implementation (see include_candidates and compare). Objects may come from
Section.clone() / Document.clone() (`recycle`, `twin_by`), names may hold '#', '?', '%', ...

Reading of the quantifier (see design.d/C12.md, round 3): "(no chained or nested links)" is taken
to exclude a linking Section below another linking Section as well (the weaker reading; it is
what Link.inRegime has formalised since the design round), so linking Sections stay pairwise
disjoint in every generated document.
"""
import atexit
import copy
import os
import shutil
import sys
import tempfile

try:
    from urllib.request import pathname2url
except ImportError:
    from urllib import pathname2url

import framework as fw
import c13 as m

KEY_FILL = "C12/definition-reference-filled-not-restored"     # fixed (known_findings.d/C12.json); no longer classified
OWN_NAMES = ["o1", "o2", "o3"]
_PRIVATE = {"dir": None, "n": 0, "root": None, "owner": None}


def _root():
    """One temp root per check run, created (and removed at exit) by the main process."""
    if _PRIVATE["root"] is None:
        base = os.environ.get("VERIF_TMP", "/tmp")
        _PRIVATE["root"] = tempfile.mkdtemp(prefix="verif_c12_", dir=base)
        _PRIVATE["owner"] = os.getpid()
        atexit.register(_cleanup)
    return _PRIVATE["root"]


def _cleanup():
    if _PRIVATE["owner"] == os.getpid() and _PRIVATE["root"]:
        shutil.rmtree(_PRIVATE["root"], True)


def private_dir():
    """A temp dir of this process; tempfile is redirected to it (odml.cache lives under it)."""
    if _PRIVATE["dir"] is None or _PRIVATE.get("pid") != os.getpid():
        d = os.path.join(_root(), "p%d" % os.getpid())
        if not os.path.isdir(d):
            os.makedirs(d)
        _PRIVATE.update(dir=d, pid=os.getpid())
    tempfile.tempdir = _PRIVATE["dir"]
    return _PRIVATE["dir"]


# ----------------------------------------------------------------------------- generation
SAFE = {"string": ["a", "b", "x y", "A"], "int": [1, 2, 3, 0, -1], "float": [1.0, 2.0, 1.5, -0.5],
        "boolean": [True, False]}
# further dtypes whose values every save/load format keeps as they are (rich cases only)
SAFE_RICH = dict(SAFE, **{
    "text": ["a", "some text", "T"], "url": ["http://a.b/c", "file:///x/y"], "person": ["Ann B", "a"],
    "date": [m.dt.date(2020, 1, 2), m.dt.date(2021, 12, 28), m.dt.date(987, 6, 5)],
    "time": [m.dt.time(12, 30, 0), m.dt.time(1, 2, 3)],
    "datetime": [m.dt.datetime(2020, 1, 2, 12, 30, 0), m.dt.datetime(2021, 12, 28, 1, 2, 3)]})
NONASCII = ["sé", "名前", "ä b", "Ω"]        # names of generated objects
OWN_NONASCII = ["öwn", "自分"]                          # own children of linking Sections
# round 4: names holding the characters that are delimiters of the reference syntax (the '#' of
# `URL#path`, what a URL gives a meaning to: ? % & + = ; @ :, mark-up characters) - "shank #1", "50%"
DELIM = ["shank #1", "a#b", "#x", "y#", "n#1#2", "tip #2", "q?r", "50%", "x&y", "a:b", "p+q", "k=v", "s;t",
         "@h", "a.b", "t~1", "it's", "<b>", "%23", "a b"]
OWN_DELIM = ["own #1", "o?p", "o%1", "#o"]
# round 4: names of the included files (URL = "file://" + the path as it is, or percent-quoted)
FNAMES = [("t %d %s.xml", False), ("t %d %s.xml", True), ("t\u00e4%d_%s.xml", False), ("t\u00e4%d_%s.xml", True),
          ("t#%d_%s.xml", True), ("t?%d_%s.xml", True), ("t+%d_%s.xml", False), ("t%%41_%d_%s.xml", True),
          ("t%d.%s", False)]
CARDS = [[1, 4], [None, 3], [2, None], [0, 12], [1, 10]]             # never (n, n): C01/C02/C09's business
RELOADS = ["reload", "reload:xml-file", "reload:json", "reload:json-file", "reload:yaml",
           "reload:yaml-file"]
TIGHT = [[None, 1], [0, 2], [None, 2]]   # cardinalities of a linking Section that the copies exceed
# further entry points / call patterns with the effect of Document.finalize() / Document.clean()
# inside the quantifier (linking Sections are disjoint, so the order does not matter; resolving or
# cleaning one Section a second time is what `finalize finalize` / `clean clean` do to all of them)
FIN_VARIANTS = ["finalize:sec", "finalize:sec-rev", "finalize:sec1+doc"]
CLEAN_VARIANTS = ["clean:sec", "clean:sec-rev", "clean:sec1+doc", "clean:top"]
COPIES = ["copy:clone", "copy:clone-keepid"]
# what the model does for an op kind (`edit` is a segment boundary, see model_requests)
MODEL_KIND = {"finalize": "finalize", "clean": "clean", "reload": "reload", "copy": "reload",
              "noop": "reload"}


def kind_of(op):
    return op.split(":")[0]


def new_uuid(rng):
    """The id (= the name) of an object that is created without a name; chosen by the generator
    so that link texts can be written down and a case replays identically."""
    import uuid
    return str(uuid.UUID(int=rng.getrandbits(128), version=4))


def simple_prop(rng, name, rich=None):
    """Values the XML round trip keeps as they are (anything else is C01's business).

    rich = None: name, dtype, values, unit, definition only (the original generator);
    rich = {"unc": bool}: every attribute a copy has to carry (reference, value origin,
    dependency, dependency value, value cardinality, the other dtypes; an uncertainty only where
    no save/load follows: a numeric uncertainty is loaded as text, C01's known finding)."""
    pool = SAFE_RICH if rich is not None else SAFE
    if rich is not None and rng.random() < 0.4:
        dtype = rng.choice(["text", "url", "person", "date", "time", "datetime"])
    else:
        dtype = rng.choice(["string", "string", "int", "float", "boolean"])
    n = rng.choice([1, 1, 2, 3, 0])       # 0: a Property without values (an empty Property is falsy)
    out = {"name": name, "dtype": dtype, "values": [m.to_tag(v) for v in rng.sample(pool[dtype], min(n, len(pool[dtype])))],
           "unit": rng.choice([None, None, "mV"]), "unc": None,
           "def": rng.choice([None, None, "pdef"]), "ref": None, "origin": None}
    if rich is not None:
        pick = (lambda vals: rng.choice(vals) if rng.random() < 0.35 else None)
        out.update(ref=pick(["pref", "R 2"]), origin=pick(["rig A", "o"]),
                   dep=pick(["dep1", "dep2"]), depv=pick(["on", "1"]), vcard=pick(CARDS))
        if rich.get("unc"):
            out["unc"] = m.unc_tag(pick([0.5, 1.5, 2.0, 0.0]))
    return out


def simplify(rng, sec, rich=None):
    sec["props"] = [simple_prop(rng, p["name"], rich) for p in sec["props"]]
    for c in sec["secs"]:
        simplify(rng, c, rich)
    return sec


def enrich_sec(rng, s):
    """Section attributes besides definition/reference that a copy has to carry."""
    if rng.random() < 0.25:
        s["repo"] = True                  # the URL of a (pre-loaded, generated) terminology file
    if rng.random() < 0.25:
        s["scard"] = rng.choice(CARDS)
    if rng.random() < 0.25:
        s["pcard"] = rng.choice(CARDS)
    for c in s["secs"]:
        enrich_sec(rng, c)


def plain_sec(rng, name, depth, names=None, rich=None):
    """A Section tree without links and without definition/reference noise unless asked."""
    s = simplify(rng, m.new_sec(rng, name, depth, attrs=False), rich)
    if rng.random() < 0.4:
        s["def"] = rng.choice(["Def one", "other text"])
    if rng.random() < 0.3:
        s["ref"] = rng.choice(["ref A", "x"])
    # round 4: the Sections below carry a definition / reference as well (before, only the top of
    # a generated tree did: a target two levels down never had anything to hand on), several texts
    for c in s["secs"]:
        sprinkle_texts(rng, c)
    if rich is not None:
        enrich_sec(rng, s)
    return s


DEFS = ["Def one", "other text", "third def", "D 4", "a longer definition, with a comma"]
REFS = ["ref A", "x", "ref B", "r:4"]


def sprinkle_texts(rng, s):
    if rng.random() < 0.35:
        s["def"] = rng.choice(DEFS)
    if rng.random() < 0.3:
        s["ref"] = rng.choice(REFS)
    for c in s["secs"]:
        sprinkle_texts(rng, c)


def restyle(rng, secs, p_un, p_na, pool=NONASCII):
    """Rename generated objects: `unnamed` (created without a name: the library names them after
    their id) with probability p_un, a non-ASCII name with probability p_na. Sibling names stay
    unique per kind. Applied before any link text is written."""
    restyle_list(rng, secs, p_un, p_na, pool)
    for s in secs:
        restyle_list(rng, s["props"], p_un, p_na, pool)
        restyle(rng, s["secs"], p_un, p_na, pool)


def restyle_list(rng, objs, p_un, p_na, pool):
    used = set(o["name"] for o in objs)
    for o in objs:
        r = rng.random()
        if r < p_un:
            o["name"] = new_uuid(rng)
            o["unnamed"] = True
        elif r < p_un + p_na:
            cand = [n for n in pool if n not in used]
            if cand:
                o["name"] = rng.choice(cand)
                used.add(o["name"])


def all_paths(secs, pre=()):
    out = []
    for s in secs:
        out.append(pre + (s["name"],))
        out += all_paths(s["secs"], pre + (s["name"],))
    return out


def node(secs, path):
    cur = None
    for n in path:
        cur = next(s for s in secs if s["name"] == n)
        secs = cur["secs"]
    return cur


def diverge(p, q):
    k = min(len(p), len(q))
    return p[:k] != q[:k]


def rel_text(lp, tp):
    """A relative path from the Section at lp to the Section at tp (both tuples of names)."""
    k = 0
    while k < len(lp) and k < len(tp) and lp[k] == tp[k]:
        k += 1
    return "../" * (len(lp) - k) + "/".join(tp[k:])


OPS_BASE = [["finalize", "clean"], ["finalize", "clean", "reload"],
            ["finalize", "clean", "finalize", "clean"],
            ["finalize", "clean", "reload", "finalize", "clean", "reload"],
            ["finalize", "finalize", "clean", "clean"]]
# longer and irregular histories: a clean with nothing to undo, a repeated clean, three cycles,
# a save/load before the first finalize
OPS_MORE = [["clean", "finalize", "clean"], ["finalize", "clean", "clean", "reload"],
            ["finalize", "clean", "finalize", "clean", "finalize", "clean", "reload"],
            ["reload", "finalize", "clean", "reload"],
            ["finalize", "clean", "reload", "reload", "finalize", "finalize", "clean"]]


def gen_ops(rng):
    ops = list(rng.choice(OPS_BASE if rng.random() < 0.7 else OPS_MORE))
    # the save/load in between: every format, text and file entry points
    if rng.random() < 0.5:
        ops = [rng.choice(RELOADS) if o == "reload" else o for o in ops]
    # the same resolution / cleaning through the Section level interface (`Section.merge()` without
    # an argument resolves the stored link or include; `Section.clean()` is what Document.clean
    # runs on every Section), called on the linking Sections in document order
    if rng.random() < 0.12:
        ops = [{"finalize": "finalize:sec", "clean": "clean:sec"}.get(o, o) if rng.random() < 0.7 else o
               for o in ops]
    # round 3: the other call patterns (reverse order, one linking Section first and then the
    # Document, the top-level Sections one by one)
    if rng.random() < 0.10:
        ops = [rng.choice(FIN_VARIANTS) if o == "finalize" and rng.random() < 0.7 else
               rng.choice(CLEAN_VARIANTS) if o == "clean" and rng.random() < 0.7 else o for o in ops]
    # a clone of the cleaned Document (new ids / kept ids) instead of, or besides, a save/load
    if rng.random() < 0.08:
        if any(o.startswith("reload") for o in ops) and rng.random() < 0.6:
            ops = [rng.choice(COPIES) if o.startswith("reload") and rng.random() < 0.7 else o for o in ops]
        else:
            spots = [i + 1 for i, o in enumerate(ops) if kind_of(o) == "clean"] + [0]
            ops.insert(rng.choice(spots), rng.choice(COPIES))
    # calls the library refuses (link and include on one Section, a path that does not resolve),
    # in any state: they must leave nothing behind that the following steps stumble over
    if rng.random() < 0.08:
        ops.insert(rng.randrange(len(ops) + 1), "noop:refused")
    return ops


def gen_edits(rng, ops, doc, linkers, link_targets, clashing):
    """Edits of the *cleaned* document between two cycles (the same objects go through another
    cycle after a change): children added to / removed from / changed in the target of an
    in-document link, own children added to / removed from a linking Section. Only where the
    document is clean (at the start, after a clean, after a save/load or clone) and only edits that
    keep the document inside the quantifier (new children carry no links; no Section is removed
    that is, or contains, the target of a link). `link_targets`: linker index -> target path;
    `clashing`: indexes of the linking Sections that share child names with their target. Those get
    no new own child: it would stand behind the same-name children, a re-resolution replaces an own
    child equal to the target's by a copy at the end, and the oracle's "own children of other
    names stay in place" is stated by position (the property does not speak about positions; the
    clause is left as it is and the shape is not generated)."""
    spots = [0] + [i + 1 for i, o in enumerate(ops) if kind_of(o) in ("clean", "reload", "copy")]
    useful = [x for x in spots if x < len(ops)] or spots      # followed by another step if possible
    all_targets = [tuple(t) for t in link_targets.values()]
    picked = []
    removed_sec = False
    for _ in range(rng.choice([1, 1, 2])):
        k = rng.randrange(len(linkers))
        kinds = ["own-"] if k in clashing else ["own+", "own+", "own-"]
        # round 4: the linking Section's own definition / reference set or taken away between cycles
        kinds.append("own~def")
        tp = link_targets.get(k)
        if tp is not None:
            kinds += ["t+sec", "t+sec", "t+prop", "t~", "t~"]
            # round 4: the target's own definition / reference changed between cycles (the next
            # resolution has other values to hand on than the last one)
            kinds += ["t~def", "t~def"]
            tnode = node(doc, tp)
            # nothing is taken out of a target while some linking Section has own children named
            # like a target's: an own Section could end up named like a Property of the target
            # only (whether that is "sharing a child name" is ambiguous, see design.d/C12.md)
            if not clashing:
                kinds.append("t-prop")
            if tnode["secs"] and not removed_sec and not clashing:
                child = tuple(tp) + (tnode["secs"][0]["name"],)
                if not any(t[:len(child)] == child for t in all_targets):
                    kinds.append("t-sec")
        what = rng.choice(kinds)
        removed_sec = removed_sec or what == "t-sec"
        picked.append((rng.choice(useful), "edit:%s:%d" % (what, k)))
    out = []
    for i in range(len(ops) + 1):
        out += [e for pos, e in picked if pos == i]
        if i < len(ops):
            out.append(ops[i])
    return out


def gen_case(rng, tier):
    ops = gen_ops(rng)
    has_reload = any(o.startswith("reload") for o in ops)
    rich = {"unc": not has_reload} if rng.random() < 0.4 else None
    rich_f = {"unc": False} if rich is not None else None     # include files go through XML
    p_un = 0.3 if rng.random() < 0.4 else 0.0
    p_na = 0.25 if rng.random() < 0.15 else 0.0
    pool, own_pool = NONASCII, OWN_NONASCII
    if rng.random() < 0.15:
        # round 4: names with '#', '?', '%', ... anywhere (in the path of an include or a link, in
        # the children that are copied, in linking Sections and their own children)
        p_na = rng.choice([0.3, 0.5])
        pool, own_pool = (DELIM, OWN_DELIM) if rng.random() < 0.8 else (DELIM + NONASCII, OWN_DELIM + OWN_NONASCII)
    # top-level trees of depth 1-3, now and then 4 (linking Sections and targets four levels down)
    doc = [plain_sec(rng, n, 4 if rng.random() < 0.04 else rng.choice([1, 2, 2, 3]), rich=rich)
           for n in rng.sample(m.NAMES, rng.choice([2, 3, 4]))]
    files = {}
    for key in rng.sample(["f1", "f2"], rng.choice([0, 1, 1, 2])):
        files[key] = [plain_sec(rng, n, rng.choice([1, 2]), rich=rich_f) for n in rng.sample(m.NAMES, rng.choice([1, 2]))]
    if p_un or p_na:
        restyle(rng, doc, p_un, p_na, pool)
        for key in sorted(files):
            restyle(rng, files[key], p_un, p_na, pool)
    paths = all_paths(doc)
    rng.shuffle(paths)
    linkers = []
    targets = []
    ftargets = []
    want = rng.choice([1, 1, 2, 3])
    if rng.random() < 0.06:
        want = rng.choice([4, 5, 6])          # many linking Sections (as far as disjoint places go)
    any_clash = False
    link_targets = {}                         # linker index -> path of its in-document target
    clashing = set()                          # indexes of linking Sections sharing names with the target
    # Linking Sections stay pairwise disjoint (`diverge` below): a linking Section among the own
    # children of another one is read as a "nested link", outside the quantifier (module docstring).
    for lp in paths:
        if len(linkers) >= want:
            break
        if not all(diverge(lp, q) for q in linkers + targets):
            continue
        use_file = files and rng.random() < 0.4
        if use_file:
            if ftargets and rng.random() < 0.3:
                key, tp = rng.choice(ftargets)          # two includes of the same Section
            else:
                key = rng.choice(sorted(files))
                tps = all_paths(files[key])
                tp = rng.choice(tps)
            tnode = node(files[key], tp)
        else:
            cands = [q for q in paths if diverge(q, lp) and all(diverge(q, x) for x in linkers)]
            if not cands:
                continue
            shared = [q for q in targets if q in cands]
            tp = rng.choice(shared) if shared and rng.random() < 0.3 else rng.choice(cands)
            tnode = node(doc, tp)
        l = node(doc, lp)
        if rng.random() < 0.06:
            # a wide target: 10 and more children (two-digit positions, names that sort as text)
            have = set(c["name"] for c in tnode["secs"])
            for k in range(12 - len(have)):
                tnode["secs"].append(plain_sec(rng, "k%d" % k, 0, rich=rich_f if use_file else rich))
            havep = set(q["name"] for q in tnode["props"])
            for k in range(11 - len(havep)):
                tnode["props"].append(simple_prop(rng, "q%d" % k, rich_f if use_file else rich))
        # own children of the linking Section: other names, or (clash variant) some shared names
        clash = rng.random() < 0.3
        any_clash = any_clash or clash
        if clash:
            clashing.add(len(linkers))
        l["secs"] = [plain_sec(rng, n, rng.choice([1, 1, 1, 2, 3]), rich=rich)
                     for n in rng.sample(OWN_NAMES, rng.choice([0, 1, 2]))]
        l["props"] = [simple_prop(rng, n, rich) for n in rng.sample(OWN_NAMES, rng.choice([0, 1, 2]))]
        if p_un or p_na:
            restyle(rng, l["secs"], p_un, p_na, own_pool)
            restyle_list(rng, l["props"], p_un, p_na, own_pool)
        if clash:
            for c in tnode["secs"][:rng.choice([1, 2])]:
                # same name and type (another type is C13's known finding); content: a pruned
                # copy, so that nested children never clash in type or dtype
                own = copy.deepcopy(c)
                own["secs"] = [x for x in own["secs"] if rng.random() < 0.5]
                own["props"] = [x for x in own["props"] if rng.random() < 0.6]
                for pp in own["props"]:
                    if rng.random() < 0.5:
                        pp["values"] = pp["values"][:1]
                if rng.random() < 0.3:
                    own["def"] = "own def"
                elif rng.random() < 0.4:
                    # round 4: no definition / reference of its own (the merge with the target's
                    # child of that name fills them in, one level down)
                    own["def"] = None
                    own["ref"] = None
                forget_ids(own)
                l["secs"].append(own)
            for q in tnode["props"][:rng.choice([0, 1])]:
                own = copy.deepcopy(q)
                own["values"] = own["values"][:1]
                own["def"] = None
                own.pop("unnamed", None)
                l["props"].append(own)
        if use_file:
            form = rng.randrange(3)
            if form == 0 and tp == (files[key][0]["name"],):
                l["incl"] = "FILE:%s" % key
            elif form == 1:
                l["incl"] = "FILE:%s#/%s" % (key, "/".join(tp))
            else:
                l["incl"] = "FILE:%s#%s" % (key, "/".join(tp))
            ftargets.append((key, tp))
        else:
            l["link"] = "/" + "/".join(tp) if rng.random() < 0.5 else rel_text(lp, tp)
            targets.append(tp)
            link_targets[len(linkers)] = tp
        if rng.random() < 0.5:
            l["def"] = None
        if rich is not None and rng.random() < 0.3:
            # cardinalities of the linking Section that its own children plus the copies exceed
            # (a cardinality is validated, never enforced: the resolution must not be refused)
            l[rng.choice(["scard", "pcard"])] = rng.choice(TIGHT)
        linkers.append(lp)
        # sub-trees changed above: recompute the candidate paths
        paths = [q for q in all_paths(doc)]
        rng.shuffle(paths)
    if not linkers:
        return None
    if any_clash:
        # resolving one linking Section twice in a row is not the same as resolving it once when it
        # has own children equal to the target's (the second resolution takes them out and appends
        # copies): `sec1+doc` is Document.finalize() for linking Sections without shared names only
        ops = [o.replace("finalize:sec1+doc", "finalize:sec-rev") for o in ops]
    if rng.random() < 0.15:
        ops = gen_edits(rng, ops, doc, linkers, link_targets, clashing)
    case = {"stream": "cycle", "doc": doc, "files": files, "ops": ops,
            "linkers": [list(p) for p in linkers], "clash": any_clash}
    if rng.random() < 0.1:
        case["twin"] = True
        if rng.random() < 0.4:
            # both documents go through the history step by step (both are merged with the one
            # cached copy of an included Section at the same time)
            case["twin"] = "lockstep"
        if rng.random() < 0.3:
            # round 4: the second document is a clone of the first (Document.clone(), made before
            # any resolution), not a second construction
            case["twin_by"] = "clone"
    if len(linkers) >= 2 and rng.random() < 0.3:
        # round 4, where the objects come from: a linking Section that started as a clone of
        # another linking Section of the document (Section.clone() - "one more of the same kind"),
        # emptied, renamed, pointed at its own target and given its own children. Whatever a clone
        # shares with its original beyond the public attributes is shared by two linking Sections
        # that are resolved and cleaned side by side.
        has_reload = any(kind_of(o) == "reload" for o in ops)
        order = list(range(len(linkers)))
        rng.shuffle(order)
        pairs = []
        for j in order[:rng.choice([1, 1, 2])]:
            i = rng.choice([x for x in range(len(linkers)) if x != j])
            modes = ["fresh", "fresh", "cycled", "bare"]
            if not has_reload and not node(doc, linkers[j]).get("unnamed"):
                modes.append("keepid")     # two Sections with one id: fine until a writer validates
            pairs.append([j, i, rng.choice(modes)])
        case["recycle"] = pairs
    if pool is not NONASCII:
        case["style"] = "delim"
    if files and rng.random() < 0.2:
        case["fname"] = rng.randrange(len(FNAMES))      # round 4: the file name / URL spelling
    if rng.random() < 0.12:
        # construction order: every Section and Property is created without a parent (a linking
        # Section with its link / include already set) and appended when it is complete
        case["attach"] = "late"
    if rich is not None and rng.random() < 0.6:
        # attributes of the Document itself ("any other part of the document")
        case["docattrs"] = {"author": rng.choice([None, "A. Author"]), "version": rng.choice([None, "1.2"]),
                            "date": rng.choice([None, "2020-01-02"]), "repo": rng.random() < 0.4}
    return case


def forget_ids(spec):
    """An own child made from a copy of the target's spec: the name stays (for an `unnamed`
    original that is its id), the id does not (two objects with one id are refused by the
    writers: unique ids are a validation error)."""
    spec.pop("unnamed", None)
    for q in spec["props"]:
        q.pop("unnamed", None)
    for c in spec["secs"]:
        forget_ids(c)


# ----------------------------------------------------------------------------- implementation
OP_SECONDS = 20


class OpTimeout(Exception):
    pass


class time_limit(object):
    """Bound one call into the library (SIGALRM; the checks run the library in the main thread)."""

    def __init__(self, seconds):
        self.seconds = seconds

    def _fire(self, signum, frame):
        raise OpTimeout()

    def __enter__(self):
        import signal
        try:
            self.old = signal.signal(signal.SIGALRM, self._fire)
            signal.setitimer(signal.ITIMER_REAL, self.seconds)
            self.armed = True
        except ValueError:          # not in the main thread: run unbounded
            self.armed = False

    def __exit__(self, *exc):
        import signal
        if self.armed:
            signal.setitimer(signal.ITIMER_REAL, 0)
            signal.signal(signal.SIGALRM, self.old)
        return False


def repo_url():
    """The URL used as `repository` of generated Sections / Documents: a generated terminology
    file of this process that is loaded before any object refers to it (the repository setter
    then finds it in the cache and starts no loader thread; no network)."""
    if _PRIVATE.get("repo_pid") != os.getpid():
        import odml
        from odml import terminology
        path = os.path.join(private_dir(), "repo_terms.xml")
        rdoc = odml.Document()
        odml.Section(name="term", type="t", parent=rdoc)
        odml.save(rdoc, path)
        url = "file://" + path
        terminology.load(url)
        _PRIVATE.update(repo_pid=os.getpid(), repo=url)
    return _PRIVATE["repo"]


def card_in(c):
    return None if c is None else tuple(c)


def card_out(c):
    if c is None:
        return None
    try:
        return [x if (x is None or isinstance(x, int)) else {"w": repr(x)} for x in c]
    except TypeError:
        return {"w": repr(c)}


def build_doc(secs, attrs=None):
    import odml
    doc = odml.Document()
    if attrs:
        doc = odml.Document(author=attrs.get("author"), version=attrs.get("version"),
                            date=attrs.get("date"),
                            repository=repo_url() if attrs.get("repo") else None)
    for s in secs:
        build_tree(s, doc)
    return doc


def build_prop(spec, parent, late=False):
    import odml
    if late:
        prop = build_prop(spec, None)
        parent.append(prop)
        return prop
    vals = [m.from_tag(t) for t in spec["values"]]
    unnamed = spec.get("unnamed")
    return odml.Property(name=None if unnamed else spec["name"], oid=spec["name"] if unnamed else None,
                         values=vals if vals else None, dtype=spec["dtype"], unit=spec["unit"],
                         uncertainty=None if spec["unc"] is None else spec["unc"] / 2.0,
                         definition=spec["def"], reference=spec["ref"], value_origin=spec["origin"],
                         dependency=spec.get("dep"), dependency_value=spec.get("depv"),
                         val_cardinality=card_in(spec.get("vcard")), parent=parent)


def build_tree(spec, parent, urls=None, late=False):
    """late: created without a parent (link / include already set), filled, appended last."""
    import odml
    incl = spec.get("incl")
    if incl and urls is not None and incl.startswith("FILE:"):
        key, _, rest = incl[5:].partition("#")
        incl = urls[key] + (("#" + rest) if "#" in spec["incl"] else "")
    unnamed = spec.get("unnamed")     # created without a name: the library names it after its id
    sec = odml.Section(name=None if unnamed else spec["name"], oid=spec["name"] if unnamed else None,
                       type=spec["type"], definition=spec["def"],
                       reference=spec["ref"], parent=None if late else parent,
                       link=spec.get("link"), include=incl,
                       repository=repo_url() if spec.get("repo") else None,
                       sec_cardinality=card_in(spec.get("scard")),
                       prop_cardinality=card_in(spec.get("pcard")))
    for p in spec["props"]:
        build_prop(p, sec, late)
    for c in spec["secs"]:
        build_tree(c, sec, urls, late)
    if late:
        parent.append(sec)
    return sec


def canon_link(sec):
    if sec.link is None:
        return None
    try:
        return sec.get_section_by_path(sec.link).get_path()
    except Exception as exc:
        return {"w": "unresolvable link %r: %s" % (sec.link, fw.exc_name(exc))}


def canon_include(sec, keys):
    from odml import terminology
    inc = sec.include
    if inc is None:
        return None
    url, sep, path = inc.partition("#")
    key = keys.get(url)
    if key is None:
        return {"w": "include of unknown url %r" % inc}
    try:
        term = terminology.load(url)
        tgt = term.get_section_by_path(path) if sep else term.sections[0]
        return "%s#%s" % (key, tgt.get_path())
    except Exception as exc:
        return {"w": "unresolvable include %r: %s" % (inc, fw.exc_name(exc))}


def include_candidates(text, keys):
    """Every way of reading an include text as URL + path - the whole text as the URL, and a cut at
    each '#' - with what the implementation's own loader and path lookup make of it:
    [url, path or None, "key#/abs/path" or None]. Which of them is the reading of the include
    setter is the model's answer (Link.splitFirst, request `split`), see compare."""
    from odml import terminology
    cuts = [(text, None)] + [(text[:k], text[k + 1:]) for k, ch in enumerate(text) if ch == "#"]
    out = []
    for url, path in cuts:
        canon = None
        if url in keys:            # only documents of this case are ever asked for
            try:
                term = terminology.load(url)
                tgt = term.sections[0] if path is None else term.get_section_by_path(path)
                if hasattr(tgt, "sections") and hasattr(tgt, "properties"):
                    canon = "%s#%s" % (keys[url], tgt.get_path())
            except Exception:
                canon = None
        out.append([url, path, canon])
    return out


def canon_repo(url):
    if url is None:
        return None
    return "REPO" if url == _PRIVATE.get("repo") else {"w": "repository %r" % (url,)}


def snap_prop(p):
    """Every attribute of a Property but its id (a copy has to carry them all)."""
    out = m.snap_prop(p)
    out.update(dep=m.text_out(p.dependency), depv=m.text_out(p.dependency_value),
               vcard=card_out(p.val_cardinality))
    return out


def snap_sec(sec, keys):
    """Every attribute of a Section but its id; link / include by what they designate."""
    return {"name": sec.name, "type": sec.type, "def": m.text_out(sec.definition),
            "ref": m.text_out(sec.reference), "link": canon_link(sec),
            "incl": canon_include(sec, keys), "merged": bool(sec.is_merged),
            "repo": canon_repo(sec.repository), "scard": card_out(sec.sec_cardinality),
            "pcard": card_out(sec.prop_cardinality),
            "props": [snap_prop(p) for p in sec.properties],
            "secs": [snap_sec(c, keys) for c in sec.sections]}


def snap_doc(doc, keys):
    return [snap_sec(s, keys) for s in doc.sections]


def snap_attrs(doc):
    """The Document's own attributes (not its id)."""
    return {"author": m.text_out(doc.author), "version": m.text_out(doc.version),
            "date": None if doc.date is None else str(doc.date), "repo": canon_repo(doc.repository)}


NARROW_SEC = ("name", "type", "def", "ref", "link", "incl", "merged")
NARROW_PROP = ("name", "dtype", "values", "unit", "unc", "def", "ref", "origin")


def narrow(secs):
    """The part of a snapshot the Lean model talks about (Model/Merge.lean's Sec / Prop)."""
    return [dict([(k, s[k]) for k in NARROW_SEC],
                 props=[dict((k, q[k]) for k in NARROW_PROP) for q in s["props"]],
                 secs=narrow(s["secs"])) for s in secs]


def linking_sections(doc):
    """The Sections with a stored link or include, in document (itersections) order."""
    return [s for s in list(doc.itersections(recursive=True))
            if s.link is not None or s.include is not None]


def reload_doc(doc, op, tmp):
    """Save and load again: `reload` XML text, `reload:<format>[-file]` the other formats / the
    file entry points odml.save / odml.load."""
    import odml
    from odml.tools.odmlparser import ODMLWriter, ODMLReader
    kind = op.partition(":")[2] or "xml"
    fmt = kind.split("-")[0].upper()
    if kind.endswith("-file"):
        _PRIVATE["n"] += 1
        path = os.path.join(tmp, "r%d.%s" % (_PRIVATE["n"], fmt.lower()))
        try:
            odml.save(doc, path, fmt)
            return odml.load(path, fmt, show_warnings=False)
        finally:
            for cand in (path, path + "." + fmt.lower()):
                try:
                    os.remove(cand)
                except OSError:
                    pass
    text = ODMLWriter(fmt).to_string(doc)
    return ODMLReader(fmt, show_warnings=False).from_string(text)


def section_at(doc, path):
    """The Section at a position given by names (public child lists only)."""
    cur = doc
    for n in path:
        cur = cur.sections[n]
    return cur


def refused_calls(doc):
    """Calls the library has to refuse, on every linking Section: the other kind of reference
    (link and include exclude each other), a link path that does not resolve. Not judged."""
    for sec in linking_sections(doc):
        tries = [("include", "file:///nowhere/zz9.xml#/zz9")] if sec.link is not None else \
            [("link", "/zz9")]
        if sec.link is not None:
            tries += [("link", "/zz9/none"), ("link", "../zz9")]
        for attr, val in tries:
            try:
                setattr(sec, attr, val)
            except OpTimeout:
                raise
            except Exception:
                pass


def recycle(doc, case, j, i, mode, urls, late):
    """Linking Section j of the document is replaced, in place, by one that started as a clone of
    linking Section i: emptied, given the attributes, the reference and the children of j's
    description. mode: `fresh` (the source was never resolved), `bare` (clone(children=False)),
    `cycled` (the source was resolved and cleaned once before), `keepid` (clone(keep_id=True))."""
    src = section_at(doc, case["linkers"][i])
    old = section_at(doc, case["linkers"][j])
    spec = node(case["doc"], case["linkers"][j])
    if mode == "cycled":
        src.merge()
        src.clean()
    new = src.clone(children=(mode != "bare"), keep_id=(mode == "keepid"))
    for child in list(new.sections) + list(new.properties):
        new.remove(child)
    # the clone has no parent: the setters store the reference unresolved
    if new.link is not None:
        new.link = None
    if new.include is not None:
        new.include = None
    if spec.get("unnamed"):
        new.new_id(spec["name"])
        new.name = None
    else:
        new.name = spec["name"]
    new.type = spec["type"]
    new.definition = spec["def"]
    new.reference = spec["ref"]
    new.repository = repo_url() if spec.get("repo") else None
    new.sec_cardinality = card_in(spec.get("scard"))
    new.prop_cardinality = card_in(spec.get("pcard"))
    if spec.get("link") is not None:
        new.link = spec["link"]
    elif spec.get("incl") is not None:
        key, _, rest = spec["incl"][5:].partition("#")
        new.include = urls[key] + (("#" + rest) if "#" in spec["incl"] else "")
    for p in spec["props"]:
        build_prop(p, new, late)
    for c in spec["secs"]:
        build_tree(c, new, urls, late)
    parent = old.parent
    pos = [k for k, s in enumerate(parent.sections) if s is old][0]
    parent.remove(old)
    parent.insert(pos, new)


def apply_edit(doc, op, idx, case):
    """`edit:<what>:<k>`: change the (cleaned) document around linking Section k; see gen_edits."""
    import odml
    _, what, k = op.split(":")
    linker = section_at(doc, case["linkers"][int(k)])
    if what == "own+":
        sec = odml.Section(name="w%d" % idx, type="wt", parent=linker)
        odml.Property(name="wp", values=[idx], parent=sec)
        return
    if what == "own-":
        if len(linker.sections):
            linker.remove(linker.sections[0])
        elif len(linker.properties):
            linker.remove(linker.properties[0])
        return
    if what == "own~def":
        linker.definition = None if linker.definition is not None else "own text %d" % idx
        if idx % 2:
            linker.reference = None if linker.reference is not None else "own ref %d" % idx
        return
    target = linker.get_section_by_path(linker.link)
    if what == "t+sec":
        sec = odml.Section(name="e%d" % idx, type="et", definition="added later", parent=target)
        odml.Property(name="ep", values=["v%d" % idx], parent=sec)
    elif what == "t+prop":
        odml.Property(name="eq%d" % idx, values=[idx, idx + 1], parent=target)
    elif what == "t-sec":
        if len(target.sections):
            target.remove(target.sections[0])
    elif what == "t-prop":
        if len(target.properties):
            target.remove(target.properties[0])
    elif what == "t~def":
        target.definition = None if (target.definition is not None and idx % 2) else "redefined %d" % idx
        target.reference = None if (target.reference is not None and idx % 3 == 0) else "reref %d" % idx
    elif what == "t~":
        if len(target.properties):
            target.properties[0].unit = "kV"
        if len(target.sections):
            target.sections[0].definition = "edited"
    else:
        raise ValueError("unknown edit %r" % (op,))


def apply_op(doc, op, idx, case, tmp):
    """One step of a history on the real library; returns the document to go on with."""
    kind = kind_of(op)
    var = op.partition(":")[2]
    if kind == "finalize":
        if var == "":
            doc.finalize()
        elif var in ("sec", "sec-rev"):
            secs = linking_sections(doc)
            for sec in (reversed(secs) if var == "sec-rev" else secs):
                sec.merge()
        elif var == "sec1+doc":
            linking_sections(doc)[0].merge()
            doc.finalize()
        else:
            raise ValueError("unknown op %r" % (op,))
    elif kind == "clean":
        if var == "":
            doc.clean()
        elif var in ("sec", "sec-rev"):
            secs = linking_sections(doc)
            for sec in (reversed(secs) if var == "sec-rev" else secs):
                sec.clean()
        elif var == "sec1+doc":
            linking_sections(doc)[0].clean()
            doc.clean()
        elif var == "top":
            for sec in list(doc.sections):
                sec.clean()
        else:
            raise ValueError("unknown op %r" % (op,))
    elif kind == "reload":
        doc = reload_doc(doc, op, tmp)
    elif kind == "copy":
        doc = doc.clone(keep_id=(var == "clone-keepid"))
    elif kind == "noop":
        refused_calls(doc)
    elif kind == "edit":
        apply_edit(doc, op, idx, case)
    else:
        raise ValueError("unknown op %r" % (op,))
    return doc


# ----------------------------------------------------------------------------- oracle helpers
def strip_marks(s, deep=True):
    """A snapshot without the is_merged flags (a copy differs from its original in that)."""
    out = dict(s, merged=False)
    out["secs"] = [strip_marks(c) for c in s["secs"]]
    return out


def lookup(secs, path):
    cur = None
    for n in path:
        cur = next((s for s in secs if s["name"] == n), None)
        if cur is None:
            return None
        secs = cur["secs"]
    return cur


def parse_canon(text):
    return [n for n in text.split("/") if n]


def target_of(linker, doc, files):
    if linker["link"] is not None:
        if not isinstance(linker["link"], str):
            return None                 # a link that does not resolve (canon_link's marker)
        return lookup(doc, parse_canon(linker["link"]))
    if not isinstance(linker["incl"], str):
        return None                     # no reference at all / an include that does not resolve
    key, _, path = linker["incl"].partition("#")
    return lookup(files[key], parse_canon(path))


def masked(doc, paths, what):
    """Copy of a document snapshot with the Sections at `paths` reduced by `what(section)`."""
    doc = copy.deepcopy(doc)
    for p in paths:
        n = lookup(doc, p)
        if n is not None:
            what(n)
    return doc


class C12(fw.Check):
    prop = "C12"
    lean_targets = ["OdmlModel.Props.C12"]
    obligations = ["C12." + t for t in [
        "link_adds_only",
        "copy_is_faithful",
        "link_adds_only_general",
        "unmerge_restores",
        "clean_after_link",
        "clean_finalize_restores",
        "filled_definition_taken_back",
        "clean_keeps_user_edit",
        "unmerge_notMerged",
        "clean_restores_attrs_general",
        "cycle_stable",
        "cleanSec_noLinks",
        "clean_sec_restores",
        "finalize_step_not_linker",
        "finalize_step_at_linker",
        "finalize_step_frame",
        "finalize_loop_frame",
        "include_text_designates",
        "include_text_without_path",
        "finalize_step_at_include"]]
    trusted_base = [
        "Lean 4.33.0 kernel; axioms propext, Classical.choice, Quot.sound only (audited per theorem)",
        "hand-written models lean/OdmlModel/Model/Link.lean and Model/Merge.lean, tied to /repo by "
        "this correspondence run (and by C13's)",
        "Driver/C12.lean, Driver/MergeCodec.lean JSON glue; harness/framework.py, harness/c12.py, c13.py",
        "lxml (save/load in between), urllib file: URLs, odml.terminology cache (exercised, not modelled)",
    ]
    assumptions = [
        "path text arithmetic (get_relative_path / get_section_by_path on '..' paths) is C14's "
        "property: link texts are compared by the Section they designate",
        "documents inside the property's quantifier (Link.inRegime, evaluated by the driver on every case)",
        "value universe and attribute assumptions of C13",
    ]
    rule = ("documents of 2-4 top-level Section trees (depth <= 3, now and then 4) with 1-3 (now and "
            "then 4-6) linking Sections "
            "(links absolute or relative, includes url / url#/abs / url#rel served from generated "
            "file: documents), pairwise disjoint and disjoint from their targets, two linking "
            "Sections may share a target; linking Sections "
            "with own children of other names (restoration law) or sharing names with the target "
            "(30%, first sentence only); objects created without a name (named after their id) and "
            "non-ASCII names anywhere (targets, their children, linking Sections, own children, "
            "included files); every attribute of Sections (repository, cardinalities) and Properties "
            "(reference, value origin, dependency, uncertainty, value cardinality, all dtypes) "
            "observed on the copies; targets with 10+ children; attributes of the Document itself; "
            "histories finalize/clean with repeated and irregular cycles (clean with nothing to "
            "undo, clean twice, three cycles, load before the first finalize), save+load as XML / "
            "JSON / YAML text and files, Document level and Section level entry points, a second "
            "document of the same description in the same process; the included documents are "
            "looked at again after the history. Round 3: the cleaned document edited by the harness "
            "between two cycles (children added to / changed in / taken out of a link target, own "
            "children added to / taken out of a linking Section; the model is asked again from the "
            "edited snapshot), a clone of the Document (new / kept ids) in between, refused setter "
            "calls in any state, further call patterns (linking Sections in reverse order, one of "
            "them first and then the Document, top-level Sections one by one), Sections created "
            "without a parent and appended when complete, cardinalities of a linking Section that "
            "the copies exceed, own children with sub-trees of depth 2-3, two documents of one "
            "description in lockstep. A linking Section below another linking Section is read as a "
            "nested link (outside the quantifier) and not generated. Round 4: names holding the "
            "delimiters of the reference syntax ('#' of URL#path, ? % & ; = : < >) anywhere, in "
            "particular on the path of an include or a link; the model's cut of every stored include "
            "text into URL and path (Link.splitFirst) is tied to the implementation through its own "
            "loader and path lookup; included files under names with blanks, non-ASCII and quoted "
            "characters (URL as it is / percent-quoted); linking Sections that started as a clone of "
            "another linking Section (with / without children, id kept, of a Section resolved and "
            "cleaned before); the second document a Document.clone() of the first; definitions / "
            "references on Sections at every depth (several texts); a target's and a linking "
            "Section's own definition / reference changed between cycles. "
            "Non-trivial = at least one target has children; distinct = distinct canonical JSON.")

    def generate(self, tier, rng):
        _root()
        n = 1200 if tier == "quick" else 15000
        out = []
        while len(out) < n:
            c = gen_case(rng, tier)
            if c is not None:
                out.append(c)
        return out

    # -- implementation ------------------------------------------------------
    def impl(self, case):
        import odml
        tmp = private_dir()
        _PRIVATE["n"] += 1
        urls, keys, written = {}, {}, []
        from odml import terminology
        pattern, quoted = ("t%d_%s.xml", False) if case.get("fname") is None else FNAMES[case["fname"]]
        for key, secs in sorted(case["files"].items()):
            path = os.path.join(tmp, pattern % (_PRIVATE["n"], key))
            odml.save(build_doc(secs), path)
            written.append(path)
            urls[key] = "file://" + (pathname2url(path) if quoted else path)
            keys[urls[key]] = key
            # loaded before any object refers to it (an include set on a parentless Section then
            # finds the document and starts no loader thread)
            terminology.load(urls[key])
        late = case.get("attach") == "late"

        def fresh():
            d = build_doc([], case.get("docattrs"))
            for spec in case["doc"]:
                build_tree(spec, d, urls, late)
            for j, i, mode in case.get("recycle", []):
                recycle(d, case, j, i, mode, urls, late)
            return d
        doc = fresh()
        # a second document from the same description, built now and used after the first one in
        # the same process: same include URLs (one cached terminology document serves both)
        twin = None
        if case.get("twin"):
            twin = doc.clone() if case.get("twin_by") == "clone" else fresh()

        def snap_files():
            out = {}
            for key, url in urls.items():
                term = terminology.load(url)
                out[key] = snap_doc(term, keys) if term is not None else None
            return out
        files = snap_files()
        # the include texts as stored, with every reading of them (see include_candidates)
        includes = []
        for lp in case["linkers"]:
            try:
                sec = section_at(doc, lp)
            except Exception:
                continue
            if sec.include is not None:
                includes.append({"at": list(lp), "raw": sec.include,
                                 "cands": include_candidates(sec.include, keys)})

        class Run(object):
            """One document going through the history, one step at a time."""

            def __init__(self, doc):
                self.doc = doc
                self.dead = False
                self.states = [{"op": "initial", "outcome": "ok", "doc": snap_doc(doc, keys),
                                "attrs": snap_attrs(doc)}]

            def step(self, idx, op):
                if self.dead:
                    return
                outc = "ok"
                try:
                    with time_limit(OP_SECONDS):
                        self.doc = apply_op(self.doc, op, idx, case, tmp)
                except Exception as exc:
                    outc = fw.exc_name(exc)
                if outc == "OpTimeout":
                    # a resolution that does not terminate (e.g. a link that came to designate an
                    # ancestor): do not walk the (possibly huge) document, report and stop
                    self.states.append({"op": op, "outcome": outc, "doc": []})
                    self.dead = True
                    return
                try:
                    with time_limit(OP_SECONDS):
                        self.states.append({"op": op, "outcome": outc, "doc": snap_doc(self.doc, keys),
                                            "attrs": snap_attrs(self.doc)})
                except OpTimeout:
                    self.states.append({"op": op, "outcome": "OpTimeout", "doc": []})
                    self.dead = True

        first = Run(doc)
        second = Run(twin) if twin is not None else None
        if second is not None and case.get("twin") == "lockstep":
            for idx, op in enumerate(case["ops"]):
                first.step(idx, op)
                if first.dead:
                    break
                second.step(idx, op)
        else:
            for idx, op in enumerate(case["ops"]):
                first.step(idx, op)
            if second is not None and not first.dead:
                for idx, op in enumerate(case["ops"]):
                    second.step(idx, op)
        states = first.states
        twin_states = second.states if second is not None and not first.dead else None
        # the included Sections live in the cached terminology documents: look at them again
        files_after = None
        try:
            with time_limit(OP_SECONDS):
                files_after = snap_files()
        except OpTimeout:
            pass
        for path in written:
            try:
                os.remove(path)
            except OSError:
                pass
        out = {"states": states, "files": files, "files_after": files_after, "includes": includes}
        if twin_states is not None:
            out["twin_states"] = twin_states
        return out

    # -- model ---------------------------------------------------------------
    @staticmethod
    def model_ops(ops):
        """The model knows finalize / clean / reload (the identity): the Section level entry
        points, the save/load formats, a clone of the Document and refused calls are variants of
        these on the implementation side."""
        return [MODEL_KIND[kind_of(o)] for o in ops]

    @staticmethod
    def segments(states):
        """The history cut at the edits: [(index of the state a segment starts from, [indexes of
        its steps])]. The model runs every segment from the observed snapshot at its start."""
        segs = [(0, [])]
        for i in range(1, len(states)):
            if kind_of(states[i]["op"]) == "edit":
                if states[i]["outcome"] != "ok":
                    break               # the oracle reports it; nothing to model from here
                segs.append((i, []))
            else:
                segs[-1][1].append(i)
        return segs

    def model_requests(self, case, obs):
        mfiles = dict((k, None if v is None else narrow(v)) for k, v in obs["files"].items())
        if not m.modelable(mfiles) or any(v is None for v in mfiles.values()):
            return []
        reqs = []
        states = obs["states"]
        for start, steps in self.segments(states):
            init = narrow(states[start]["doc"])
            if not m.modelable(init):
                return []
            reqs.append({"op": "cycle", "doc": init, "files": mfiles,
                         "ops": self.model_ops([states[i]["op"] for i in steps])})
        # the text of every include, as stored: where does the model cut it into URL and path?
        for info in obs.get("includes", []):
            reqs.append({"op": "split", "text": info["raw"]})
        return reqs

    def compare(self, case, obs, answers):
        if not answers:
            return ["initial state outside the modelled universe: %s"
                    % fw.canon(obs["states"][0]["doc"])[:400]]
        out = []
        states = obs["states"]
        mfiles = dict((k, narrow(v)) for k, v in obs["files"].items())
        segs = self.segments(states)
        for (start, steps), a in zip(segs, answers):
            out += self.compare_segment(case, states, start, steps, a, mfiles)
            if out:
                break
        # include texts: the model's cut (Link.splitFirst = `split('#', 1)`), read by the
        # implementation's own loader and path lookup, has to designate the Section the canonical
        # snapshot names - the one whose children the implementation copies (compared above)
        for info, a in zip(obs.get("includes", []), answers[len(segs):]):
            l = lookup(states[0]["doc"], info["at"])
            hit = [c for c in info["cands"] if c[0] == a["url"] and c[1] == a["path"]]
            if len(hit) != 1 or l is None or hit[0][2] is None or hit[0][2] != l["incl"]:
                out.append("include text %r of %s: the model reads URL %r path %r -> %s, the "
                           "implementation's reference designates %s"
                           % (info["raw"], info["at"], a["url"], a["path"],
                              hit[0][2] if hit else None, l["incl"] if l else None))
        return out

    def compare_segment(self, case, states, start, steps, a, mfiles):
        out = []
        if not a["regime"]:
            out.append("document outside Link.inRegime (segment starting at step %d)" % start)
        for i, ms in zip(steps, a["states"]):
            st = states[i]
            if st["outcome"] == "OpTimeout":
                out.append("step %d %s did not terminate within %d s" % (i - 1, st["op"], OP_SECONDS))
                break
            if (ms["out"] == "ok") != (st["outcome"] == "ok"):
                out.append("step %d %s: model %s, implementation %s" % (i - 1, st["op"], ms["out"], st["outcome"]))
                break
            if ms["doc"] != narrow(st["doc"]):
                out.append("step %d %s: documents differ: model %s implementation %s"
                           % (i - 1, st["op"], fw.canon(ms["doc"])[:700], fw.canon(narrow(st["doc"]))[:700]))
                break
        linkers = [l["path"] for l in a["linkers"]]
        if sorted(linkers) != sorted(case["linkers"]):
            out.append("linking Sections: model %s, generator %s" % (linkers, case["linkers"]))
        init = narrow(states[start]["doc"])
        for info in a["linkers"]:
            l = lookup(init, info["path"])
            t = target_of(l, init, mfiles) if l else None
            if t is None or info.get("target") != t:
                out.append("target of %s: model %s, harness %s" % (info["path"], info.get("target"), t))
            elif info["noClash"] != self.no_clash(l, t) or info["noFill"] != self.no_fill(l, t):
                out.append("side conditions of %s: driver noClash=%s noFill=%s, harness %s %s"
                           % (info["path"], info["noClash"], info["noFill"],
                              self.no_clash(l, t), self.no_fill(l, t)))
        return out

    # -- oracle --------------------------------------------------------------
    @staticmethod
    def no_clash(l, t):
        return not (set(c["name"] for c in t["secs"]) & set(c["name"] for c in l["secs"])) and \
            not (set(p["name"] for p in t["props"]) & set(p["name"] for p in l["props"]))

    @staticmethod
    def no_fill(l, t):
        return all(l[a] is not None or t[a] in (None, "") for a in ("def", "ref"))

    def oracle(self, case, obs):
        if "harness_exception" in obs:
            return []
        out = []
        files = obs["files"]
        lpaths = case["linkers"]
        self.check_history(obs["states"], lpaths, files, out)
        if obs.get("twin_states"):
            # the same clauses for the second document of the same description
            second = []
            self.check_history(obs["twin_states"], lpaths, files, second)
            out += [f if f.startswith("restore-fill:") else "second document: " + f for f in second]
        # "changes neither the referenced Section ...": the included Sections (the cached
        # terminology documents) after the whole history
        after = obs.get("files_after")
        if after is not None and after != files:
            out.append("include: a referenced Section of an included file changed: %s"
                       % sorted(k for k in files if after.get(k) != files[k]))
        return out

    def check_history(self, states, lpaths, files, out):
        for i in range(1, len(states)):
            prev, cur = states[i - 1], states[i]
            op = cur["op"]
            if cur["outcome"] == "OpTimeout":
                out.append("%s did not terminate within %d s" % (op, OP_SECONDS))
                break
            if cur["outcome"] != "ok":
                out.append("%s raised %s" % (op, cur["outcome"]))
                break
            kind = kind_of(op)          # finalize:sec / clean:sec / reload:<format> are variants
            if kind in ("finalize", "clean") and cur.get("attrs") != prev.get("attrs"):
                out.append("%s: the attributes of the Document itself changed from %s to %s"
                           % (kind, prev.get("attrs"), cur.get("attrs")))
            if kind == "finalize":
                self.check_finalize(prev["doc"], cur["doc"], lpaths, files, out)
            elif kind == "clean":
                # the state this clean has to restore: the one before the finalize(s) it undoes
                # (a clean with nothing to undo: the state before it)
                j = i - 1
                # (refused calls in between left the document as it was, see `noop` below)
                while j > 0 and kind_of(states[j]["op"]) in ("finalize", "clean", "noop"):
                    j -= 1
                self.check_clean(states[j]["doc"], cur["doc"], lpaths, files, out)
            elif kind == "reload":
                if cur["doc"] != prev["doc"]:
                    out.append("reload: the saved and re-loaded document differs from the cleaned one")
                # what the linking Sections and their targets looked like before any resolution:
                # the initial document, or the document as the harness last edited it
                b = max([0] + [k for k in range(1, i) if kind_of(states[k]["op"]) == "edit"])
                self.check_saved(cur["doc"], states[b]["doc"], lpaths, files, out)
            elif kind == "noop":
                # refused calls are not C12's subject; if one left a trace, what follows is the
                # history of another document (possibly outside the quantifier): not judged
                if cur["doc"] != prev["doc"]:
                    break
            # kind == "copy" (Document.clone: its faithfulness is C11's subject) and kind == "edit"
            # (the harness's own change) only set the state the following steps start from

    def check_finalize(self, before, after, lpaths, files, out):
        for p in lpaths:
            l0, l1 = lookup(before, p), lookup(after, p)
            if l0 is None or l1 is None:
                out.append("finalize: linking Section %s disappeared" % p)
                continue
            t = target_of(l0, before, files)
            if t is None:
                if isinstance(l0["link"], dict) or isinstance(l0["incl"], dict):
                    out.append("finalize: the reference of linking Section %s designated no Section "
                               "before this resolution: %s" % (p, l0["link"] or l0["incl"]))
                continue
            used_s = set(c["name"] for c in l0["secs"])
            used_p = set(q["name"] for q in l0["props"])
            for c in t["secs"]:
                if c["name"] in used_s:
                    continue
                got = [x for x in l1["secs"] if x["name"] == c["name"]]
                if len(got) != 1 or strip_marks(got[0]) != strip_marks(c):
                    out.append("finalize: %s has no copy of the target's Section %r" % (p, c["name"]))
            for q in t["props"]:
                if q["name"] in used_p:
                    continue
                got = [x for x in l1["props"] if x["name"] == q["name"]]
                if len(got) != 1 or got[0] != q:
                    out.append("finalize: %s has no copy of the target's Property %r" % (p, q["name"]))
            # own children of names the target does not use stay as they are, in place
            tn_s = set(c["name"] for c in t["secs"])
            tn_p = set(q["name"] for q in t["props"])
            for k, c in enumerate(l0["secs"]):
                if c["name"] not in tn_s and (k >= len(l1["secs"]) or l1["secs"][k] != c):
                    out.append("finalize: own Section %r of %s changed" % (c["name"], p))
            for k, q in enumerate(l0["props"]):
                if q["name"] not in tn_p and (k >= len(l1["props"]) or l1["props"][k] != q):
                    out.append("finalize: own Property %r of %s changed" % (q["name"], p))
        # nothing else changes: blank the linking Sections' content on both sides
        def blank(n):
            n.update(secs=[], props=[], merged=False, **{"def": None, "ref": None})
        if masked(before, lpaths, blank) != masked(after, lpaths, blank):
            out.append("finalize: a part of the document outside the linking Sections changed "
                       "(the target or an unrelated Section)")

    def check_clean(self, orig, after, lpaths, files, out):
        restor = []     # linking Sections under the restoration law (no shared child name)
        for p in lpaths:
            l0 = lookup(orig, p)
            t = target_of(l0, orig, files) if l0 else None
            if l0 is not None and t is not None and self.no_clash(l0, t):
                restor.append(p)
        others = [p for p in lpaths if p not in restor]

        def blank(n):
            n.update(secs=[], props=[], merged=False, **{"def": None, "ref": None})

        def blank_attrs(n):
            n.update(**{"def": None, "ref": None})
        a = masked(masked(orig, others, blank), restor, blank_attrs)
        b = masked(masked(after, others, blank), restor, blank_attrs)
        if a != b:
            out.append("restore: clean after finalize did not restore the document: %s vs %s"
                       % (fw.canon(a)[:500], fw.canon(b)[:500]))
        for p in restor:
            l0, l2 = lookup(orig, p), lookup(after, p)
            if l2 is None:
                continue
            t = target_of(l0, orig, files)
            for attr in ("def", "ref"):
                if l2[attr] != l0[attr]:
                    if l0[attr] is None and t[attr] is not None and l2[attr] == t[attr]:
                        out.append("restore-fill: %s of linking Section %s was filled from the target "
                                   "by finalize and is not removed by clean" % (attr, p))
                    else:
                        out.append("restore: %s of linking Section %s changed from %r to %r"
                                   % (attr, p, l0[attr], l2[attr]))
            if l2["link"] != l0["link"] or l2["incl"] != l0["incl"]:
                out.append("designates: link/include of %s designated %s/%s, now %s/%s"
                           % (p, l0["link"], l0["incl"], l2["link"], l2["incl"]))
            if l2["merged"]:
                out.append("restore: %s is still merged after clean" % p)

    def check_saved(self, loaded, initial, lpaths, files, out):
        for p in lpaths:
            l0, l = lookup(initial, p), lookup(loaded, p)
            if l is None:
                out.append("saved: linking Section %s missing from the saved file" % p)
                continue
            if l["link"] is None and l["incl"] is None:
                out.append("saved: the reference of %s is missing from the saved file" % p)
            t = target_of(l0, initial, files)
            if t is not None and self.no_clash(l0, t):
                names = set(c["name"] for c in l["secs"]) | set(q["name"] for q in l["props"])
                tnames = set(c["name"] for c in t["secs"]) | set(q["name"] for q in t["props"])
                if names & tnames:
                    out.append("saved: the file saved after clean contains referenced content %s of %s"
                               % (sorted(names & tnames), p))
                # ... under whatever name: the linking Section shared no child name with its target,
                # so every child it did not have before the resolution came with the referenced content
                for kind in ("secs", "props"):
                    extra = [c["name"] for c in l[kind] if c["name"] not in set(x["name"] for x in l0[kind])]
                    if extra:
                        out.append("saved: the file saved after clean contains children %s of %s that are "
                                   "not its own (content that came with the resolution)" % (extra, p))

    def finding_key(self, case, obs, failure):
        # no open finding: "restore-fill:" (the former C12/definition-reference-filled-not-restored,
        # fixed) is a violation like every other oracle failure
        return None

    def tag(self, case, obs):
        kinds = []
        for p in case["linkers"]:
            l = node(case["doc"], p)
            kinds.append("incl" if l.get("incl") else "link")
        nontrivial = False
        try:
            init = obs["states"][0]["doc"]
            for p in case["linkers"]:
                t = target_of(lookup(init, p), init, obs["files"])
                if t and (t["secs"] or t["props"]):
                    nontrivial = True
        except Exception:
            pass
        extra = ""
        if '"unnamed"' in fw.canon([case["doc"], case["files"]]):
            extra += ":unnamed"
        if any(":" in o for o in case["ops"]):
            extra += ":variant-ops"
        if case.get("twin"):
            extra += ":twin"
        opkinds = set(kind_of(o) for o in case["ops"])
        for k in ("edit", "copy", "noop"):
            if k in opkinds:
                extra += ":" + k
        if case.get("recycle"):
            extra += ":recycle"
        if case.get("fname") is not None:
            extra += ":fname"
        if case.get("style"):
            extra += ":" + case["style"]
        if case.get("attach"):
            extra += ":late"
        return ("cycle:%s:%s:%s%s" % ("+".join(sorted(kinds)), "clash" if case["clash"] else "noclash",
                                      len(case["ops"]), extra), nontrivial)


if __name__ == "__main__":
    sys.exit(fw.main(C12(), sys.argv[1:]))
