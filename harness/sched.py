# -*- coding: utf-8 -*-
"""
Deterministic scheduler for the loader threads of odml.terminology / odml.templates (C18).

Works by monkeypatching from the harness only (no hook in the repository):
  * the module attribute `threading` of the two modules is replaced by a fake that exposes
    `Thread` (real threads gated by per-thread semaphores, exactly one runs at a time) and
    `Lock`/`RLock` (scheduler-aware locks);
  * the `terminologies` / `templates` instance is replaced by an instance of a subclass whose
    table accesses (`in`, `[]`, `[]=`, get, pop, clear, ...) report to the scheduler; the class
    attribute `loading` is replaced (on the subclass) by a traced dict; real lock objects found
    on the class are shadowed by scheduler-aware locks on the instance;
  * module-level `load / deferred_load / refresh` are rebound to the new instance.
Everything is restored by `Patched.__exit__`. All scheduler state lives in the `Scheduler`
instance (nothing at class level).

Scheduling points: every access to one of the shared tables made while the running thread
holds no scheduler lock; every lock acquire; every join; thread exit. A schedule is a list of
thread picks (0 = caller, n = n-th started thread). A pick naming a thread that is not enabled
is skipped; when the list is exhausted the lowest enabled thread runs (the Lean model's
`runSched` uses the same rule, so model traces replay verbatim).
"""
import sys
import threading as _real_threading
import traceback

_LOCK_TYPES = (type(_real_threading.Lock()), type(_real_threading.RLock()))


class SchedAbort(BaseException):
    """Raised inside scheduled threads to unwind them when a run is aborted."""


class Deadlock(Exception):
    """No thread is enabled although some have not finished (a real deadlock of the library)."""


class StepLimit(Exception):
    """The run did not finish within the step limit."""


class HarnessHang(Exception):
    """A scheduled thread did not reach a scheduling point within the wall-clock limit."""


class _Rec(object):
    __slots__ = ("tid", "go", "cond", "finished", "started", "exc", "holding", "what", "thread")

    def __init__(self, tid):
        self.tid = tid
        self.go = _real_threading.Semaphore(0)
        self.cond = None          # callable -> bool, None = runnable
        self.finished = False
        self.started = False
        self.exc = None
        self.holding = 0
        self.what = None
        self.thread = None


class Scheduler(object):
    def __init__(self, picks=None, rng=None, max_steps=4000):
        self.recs = []
        self.picks = list(picks or [])
        self.pos = 0
        self.rng = rng
        self.chosen = []              # the picks actually taken (replayable list)
        self.steps = []               # [{"t": tid, "ev": [...]}]
        self.reads = 0
        self.max_steps = max_steps
        self.aborted = None           # exception describing why the run was aborted
        self.local = _real_threading.local()
        self.done = _real_threading.Event()
        self.enabled_sets = []        # enabled set at every scheduling point (for exploration)

    # ---- bookkeeping -------------------------------------------------------------------
    def me(self):
        return getattr(self.local, "rec", None)

    def new_rec(self):
        rec = _Rec(len(self.recs))
        self.recs.append(rec)
        return rec

    def event(self, *ev):
        if self.steps:
            self.steps[-1]["ev"].append(list(ev))

    def _enabled(self):
        out = []
        for r in self.recs:
            if r.started and not r.finished and (r.cond is None or r.cond()):
                out.append(r.tid)
        return out

    def _choose(self, enabled):
        if self.rng is not None:
            return self.rng.choice(enabled)
        while self.pos < len(self.picks):
            p = self.picks[self.pos]
            self.pos += 1
            if p in enabled:
                return p
        return min(enabled)

    def _abort(self, exc):
        if self.aborted is None:
            self.aborted = exc
        for r in self.recs:
            r.go.release()
        self.done.set()

    def _dispatch(self, rec):
        """Pick the next thread to run. Called by the thread that gives up control."""
        if self.aborted is not None:
            return None
        enabled = self._enabled()
        if not enabled:
            if all(r.finished for r in self.recs if r.started):
                self.done.set()
                return None
            waiting = [(r.tid, r.what) for r in self.recs if r.started and not r.finished]
            self._abort(Deadlock("no thread enabled; waiting: %r" % (waiting,)))
            return None
        if len(self.steps) >= self.max_steps:
            self._abort(StepLimit("more than %d scheduling points" % self.max_steps))
            return None
        self.enabled_sets.append(enabled)
        nxt = self._choose(enabled)
        self.chosen.append(nxt)
        self.steps.append({"t": nxt, "ev": []})
        return self.recs[nxt]

    def yield_point(self, cond=None, what=None):
        """The running thread offers a scheduling point (and may have to wait for `cond`)."""
        rec = self.me()
        if rec is None:
            return                # an unmanaged thread (not part of the scenario)
        if self.aborted is not None:
            raise SchedAbort()
        rec.cond = cond
        rec.what = what
        nxt = self._dispatch(rec)
        if nxt is not rec:
            if nxt is not None:
                nxt.go.release()
            rec.go.acquire()
        rec.cond = None
        rec.what = None
        if self.aborted is not None:
            raise SchedAbort()

    def access(self, table, op, key, mutation):
        rec = self.me()
        if rec is not None and rec.holding == 0:
            self.yield_point(what="%s %s" % (op, table))
        if mutation:
            self.event(op, table, key)
        else:
            self.reads += 1

    # ---- running a scenario ------------------------------------------------------------
    def _body(self, rec, fn):
        self.local.rec = rec
        rec.go.acquire()
        try:
            if self.aborted is None:
                fn()
        except SchedAbort:
            pass
        except BaseException as exc:      # like threading's excepthook: the thread just dies
            rec.exc = exc
            self.event("raise", type(exc).__name__)
            rec.trace = traceback.format_exc()[-1200:] if hasattr(rec, "trace") else None
        finally:
            rec.finished = True
            self.event("exit")
            nxt = self._dispatch(rec)
            if nxt is not None:
                nxt.go.release()

    def spawn(self, fn):
        rec = self.new_rec()
        rec.started = True
        th = _real_threading.Thread(target=self._body, args=(rec, fn))
        th.daemon = True
        rec.thread = th
        th.start()
        return rec

    def run(self, fn, timeout=20.0):
        """
        Runs fn as thread 0 under the scheduler until every started thread has finished.
        Raises Deadlock / StepLimit / HarnessHang.
        """
        rec = self.spawn(fn)
        self.steps.append({"t": 0, "ev": []})      # prologue: the caller up to its first scheduling point
        rec.go.release()
        if not self.done.wait(timeout):
            self._abort(HarnessHang("no scheduling point reached within %.0f s" % timeout))
        for r in self.recs:
            if r.thread is not None:
                r.thread.join(2.0)
        if self.aborted is not None:
            raise self.aborted
        return self.recs[0].exc


class SThread(object):
    """Stand-in for threading.Thread (the subset the loader code uses)."""

    def __init__(self, sched, group=None, target=None, name=None, args=(), kwargs=None, daemon=None):
        self._sched = sched
        self._target = target
        self._args = tuple(args)
        self._kwargs = dict(kwargs or {})
        self.name = name or "sched-thread"
        self.daemon = bool(daemon)
        self._rec = None

    def run(self):
        if self._target is not None:
            self._target(*self._args, **self._kwargs)

    def start(self):
        me = self._sched.me()
        if me is not None and me.holding == 0:
            # started outside any critical section: others may run between the statement
            # before and the start (e.g. see a recorded but not yet started thread)
            self._sched.yield_point(what="start")
        if self._rec is not None:
            raise RuntimeError("threads can only be started once")
        self._rec = self._sched.spawn(self.run)
        self._sched.event("spawn", self._rec.tid)

    def join(self, timeout=None):
        if self._rec is None:
            raise RuntimeError("cannot join thread before it is started")
        if self._rec is self._sched.me():
            raise RuntimeError("cannot join current thread")
        rec = self._rec
        self._sched.yield_point(cond=lambda: rec.finished, what="join %d" % rec.tid)
        self._sched.event("join", rec.tid)

    def is_alive(self):
        return self._rec is not None and not self._rec.finished

    @property
    def ident(self):
        return None if self._rec is None else self._rec.tid


class SLock(object):
    """Scheduler-aware lock: acquiring is a scheduling point; holders do not yield at accesses."""

    def __init__(self, sched, reentrant=False):
        self._sched = sched
        self._reentrant = reentrant
        self._owner = None
        self._depth = 0

    def _free_for(self, rec):
        return self._owner is None or (self._reentrant and self._owner is rec)

    def acquire(self, blocking=True, timeout=-1):
        rec = self._sched.me()
        if rec is None:
            return True
        if not blocking:
            if not self._free_for(rec):
                return False
        else:
            self._sched.yield_point(cond=lambda: self._free_for(rec), what="lock")
        self._owner = rec
        self._depth += 1
        rec.holding += 1
        return True

    def release(self):
        rec = self._sched.me()
        if rec is None:
            return
        if self._owner is not rec:
            raise RuntimeError("release unlocked lock")
        self._depth -= 1
        rec.holding -= 1
        if self._depth == 0:
            self._owner = None

    def locked(self):
        return self._owner is not None

    __enter__ = acquire

    def __exit__(self, *exc):
        self.release()


class FakeThreading(object):
    def __init__(self, sched):
        self._sched = sched

    def Thread(self, *args, **kwargs):
        return SThread(self._sched, *args, **kwargs)

    def Lock(self):
        return SLock(self._sched)

    def RLock(self):
        return SLock(self._sched, reentrant=True)

    def __getattr__(self, name):
        return getattr(_real_threading, name)


def _traced_methods(table_name):
    """dict method overrides reporting to `self._c18_sched` (set per instance)."""
    def mk(op, mutation, keyed=True):
        base = getattr(dict, op)

        def method(self, *args, **kwargs):
            sched = getattr(self, "_c18_sched", None)
            if sched is not None:
                key = self._c18_key(args[0]) if (keyed and args) else None
                name = {"__setitem__": "set", "__delitem__": "pop", "pop": "pop", "clear": "clear",
                        "setdefault": "set", "update": "set", "popitem": "pop"}.get(op, op)
                if op in ("pop", "__delitem__"):
                    sched.access(table_name, name, key, dict.__contains__(self, args[0]))
                elif op == "setdefault":
                    sched.access(table_name, name, key, not dict.__contains__(self, args[0]))
                else:
                    sched.access(table_name, name, key, mutation)
            return base(self, *args, **kwargs)
        method.__name__ = op
        return method
    out = {}
    for op, mutation, keyed in [("__contains__", False, True), ("__getitem__", False, True),
                                ("get", False, True), ("__setitem__", True, True),
                                ("__delitem__", True, True), ("pop", True, True),
                                ("setdefault", True, True), ("clear", True, False),
                                ("update", True, False), ("popitem", True, False),
                                ("keys", False, False), ("items", False, False),
                                ("values", False, False), ("__iter__", False, False),
                                ("__len__", False, False)]:
        out[op] = mk(op, mutation, keyed)
    return out


def _make_traced_dict(table_name):
    ns = _traced_methods(table_name)
    ns["_c18_sched"] = None
    ns["_c18_key"] = staticmethod(lambda k: k)
    return type("Traced_" + table_name, (dict,), ns)


class Patched(object):
    """
    Context manager: installs the scheduler into one loader module (odml.terminology or
    odml.templates) and restores everything afterwards.
      module      the imported module
      inst_name   name of the module-level instance ('terminologies'); None = no instance in
                  the module, `base` (e.g. templates.TemplateHandler) is instantiated
      tag         prefix of the table names in events ('term' / 'tpl')
      keyfn       url -> short key used in events
    """

    def __init__(self, sched, module, inst_name, tag, keyfn, rebind=("load", "deferred_load", "refresh"),
                 base=None):
        self.base = base          # class to instantiate when the module has no instance
        self.sched = sched
        self.module = module
        self.inst_name = inst_name
        self.tag = tag
        self.keyfn = keyfn
        self.rebind = rebind
        self.saved = {}
        self.instance = None

    def __enter__(self):
        mod = self.module
        self.saved = {"threading": mod.threading}
        if self.inst_name is not None:
            old = getattr(mod, self.inst_name)
            base = type(old)
            self.saved[self.inst_name] = old
        else:
            base = self.base
        for name in self.rebind:
            if hasattr(mod, name):
                self.saved[name] = getattr(mod, name)
        ns = _traced_methods(self.tag + ".loaded")
        loading_cls = _make_traced_dict(self.tag + ".loading")
        loading = loading_cls()
        loading._c18_sched = self.sched
        loading._c18_key = self.keyfn
        ns["loading"] = loading
        sub = type("Sched" + base.__name__, (base,), ns)
        mod.threading = FakeThreading(self.sched)
        inst = sub()
        inst._c18_key = self.keyfn
        # shadow real locks of the class (and of the fresh instance) by scheduler-aware ones
        seen = {}
        for klass in reversed(type(inst).__mro__):
            seen.update(vars(klass))
        seen.update(getattr(inst, "__dict__", {}))
        for name, val in seen.items():
            if isinstance(val, _LOCK_TYPES):
                object.__setattr__(inst, name, SLock(self.sched, reentrant=isinstance(val, _LOCK_TYPES[1])))
        inst._c18_sched = self.sched
        if self.inst_name is not None:
            setattr(mod, self.inst_name, inst)
        for name in self.rebind:
            if name in self.saved and hasattr(inst, name):
                setattr(mod, name, getattr(inst, name))
        self.instance = inst
        return inst

    def __exit__(self, *exc):
        if self.instance is not None:
            self.instance._c18_sched = None
        for name, val in self.saved.items():
            setattr(self.module, name, val)
        return False
