# -*- coding: utf-8 -*-
"""
C04 - Sibling names stay unique; names and ids are never empty or malformed.

Same histories, executor and Lean heap model as C03 (heapcommon / c03.HeapCheck), with names from a
small alphabet (clashes are frequent), renames to None / '' / existing / own names, and ids given as
valid, upper-case, braced, urn:, truncated, signed, prefixed and garbage strings. A second stream
compares the Lean model of str(uuid.UUID(s)) with CPython on many strings.
"""
import random
import re
import sys
import uuid

import framework as fw
import heapcommon as hc
from c03 import HeapCheck

CANON = re.compile(r"^[0-9a-f]{8}-[0-9a-f]{4}-[0-9a-f]{4}-[0-9a-f]{4}-[0-9a-f]{12}$")


def uuid_strings(rng, n):
    out = []
    alpha = "0123456789abcdefABCDEFg-{}_+ x:urnid\t"
    for i in range(n):
        base = str(uuid.UUID(int=rng.getrandbits(128)))
        out.append(hc.mangle_id(rng, base) or "")
        if i % 3 == 0:
            k = rng.choice([30, 31, 32, 32, 33, 34, 36, 38])
            out.append("".join(rng.choice(alpha) for _ in range(k)))
        if i % 5 == 0:
            s = list(base)
            for _ in range(rng.randrange(1, 3)):
                s[rng.randrange(len(s))] = rng.choice(alpha)
            out.append("".join(s))
    out += ["", "0" * 32, "f" * 32, "F" * 32, "-" + "0" * 31, "+" + "0" * 31, "0x" + "1" * 30,
            "0X" + "a" * 30, "0x_" + "1" * 29, "_" + "1" * 31, "1" * 31 + "_", "1_" * 16,
            " " + "1" * 31, "1" * 31 + " ", "urn:uuid:" + "1" * 32, "{" + "1" * 32 + "}",
            "uurn:uid:" + "1" * 32, "1" * 16 + "-" * 5 + "1" * 16, "0x" + "0" * 30, "--" + "1" * 30]
    return out


class C04(HeapCheck):
    prop = "C04"
    driver_name = "drv_c04"
    lean_targets = ["OdmlModel.Props.C04"]
    obligations = ["C04." + t for t in [
        "sibling_names_unique", "append_clash_refused", "insert_clash_refused", "rename_clash_refused",
        "rename_empty_falls_back_to_id", "extend_duplicate_refused", "names_never_empty",
        "ctor_id_canonical", "ctor_malformed_id_replaced", "new_id_malformed_rejected",
        "new_id_canonical", "canonical_nonempty"]]
    quick_n = 1200
    thorough_n = 30000
    trusted_base = [
        "Lean 4.33.0 kernel; axioms propext, Classical.choice, Quot.sound only (audited per theorem)",
        "hand-written models lean/OdmlModel/Model/Heap.lean and Py/Uuid.lean, tied to /repo and to "
        "CPython's uuid module by this correspondence run",
        "Driver/HeapCommon.lean JSON glue; harness/framework.py, heapcommon.py, c03.py, c04.py",
    ]
    assumptions = [
        "uuid4 freshness: the text of a fresh id is taken from the implementation and only checked "
        "to be canonical",
        "int(hex, 16) is modelled for ASCII input (CPython also accepts other Unicode decimal digits)",
    ]
    rule = ("editing histories as in C03 (names from {a,b,c,ab,''}, ids in 20 spellings) plus a "
            "differential stream of UUID texts (valid spellings, near misses, random strings over a "
            "hostile alphabet). Non-trivial = a history with >= 5 ops of >= 3 kinds, or a UUID text "
            "of length >= 30; distinct = distinct canonical JSON.")

    def generate(self, tier, rng):
        cases = self.histories(tier, rng)
        n = 1500 if tier == "quick" else 40000
        strings = uuid_strings(random.Random(rng.randrange(1 << 60)), n)
        for i in range(0, len(strings), 50):
            cases.append({"uuid": strings[i:i + 50]})
        return cases

    def impl(self, case):
        if "uuid" not in case:
            return HeapCheck.impl(self, case)
        out = []
        for s in case["uuid"]:
            try:
                out.append(str(uuid.UUID(s)))
            except ValueError:
                out.append(None)
        return {"uuid": out}

    def model_requests(self, case, obs):
        if "uuid" in case:
            return [{"op": "uuid", "s": s} for s in case["uuid"] if s.isascii()]
        return HeapCheck.model_requests(self, case, obs)

    def compare(self, case, obs, answers):
        if "uuid" in case:
            out = []
            asc = [(s, o) for s, o in zip(case["uuid"], obs["uuid"]) if s.isascii()]
            for (s, o), a in zip(asc, answers):
                if o != a:
                    out.append("uuid.UUID(%r): CPython %r, model %r" % (s, o, a))
            return out[:5]
        return HeapCheck.compare(self, case, obs, answers)

    def tag(self, case, obs):
        if "uuid" in case:
            return ("uuid", True)
        return HeapCheck.tag(self, case, obs)

    def oracle(self, case, obs):
        if "harness_exception" in obs or "uuid" in case:
            return []
        out = []
        for k, step in enumerate(obs["trace"]):
            op = obs["done"][k]
            fails = [f for f in hc.wf_failures(step["snap"]) if "duplicate" in f or "empty name" in f]
            for o in step["snap"]:
                if not CANON.match(o["id"] or ""):
                    fails.append("id %r is not a canonical UUID string" % (o["id"],))
            if op["op"] == "construct" and step["out"] == "ok" and op.get("oid"):
                new = step["snap"][-1]["id"]
                try:
                    want = str(uuid.UUID(op["oid"]))
                except ValueError:
                    want = None
                if want is not None and new != want:
                    fails.append("valid id %r given at creation became %r" % (op["oid"], new))
                if want is None and new == op["oid"]:
                    fails.append("malformed id %r kept at creation" % (op["oid"],))
            if op["op"] == "new_id" and op.get("oid") is not None:
                try:
                    want = str(uuid.UUID(op["oid"]))
                except ValueError:
                    want = None
                before = obs["trace"][k - 1]["snap"][op["x"]]["id"] if k else None
                now = step["snap"][op["x"]]["id"]
                if want is None and (step["out"] == "ok" or now != before):
                    fails.append("new_id(%r): malformed id not rejected (%s, id %r -> %r)"
                                 % (op["oid"], step["out"], before, now))
                if want is not None and (step["out"] != "ok" or now != want):
                    fails.append("new_id(%r): %s, id is %r, expected %r" % (op["oid"], step["out"], now, want))
            if op["op"] == "rename" and step["out"] == "ok" and not op["new"]:
                o = step["snap"][op["x"]]
                if o["name"] != o["id"]:
                    fails.append("cleared name did not fall back to the id: %r" % (o["name"],))
            if fails:
                out = ["after op %d %s (%s): %s" % (k, op, step["out"], f) for f in fails[:4]]
                break
        return out


if __name__ == "__main__":
    sys.exit(fw.main(C04(), sys.argv[1:]))
