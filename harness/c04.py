# -*- coding: utf-8 -*-
"""
C04 - Sibling names stay unique; names and ids are never empty or malformed.

Same histories, executor and Lean heap model as C03 (heapcommon / c03.HeapCheck), with names from a
small alphabet (clashes are frequent), renames to None / '' / existing / own names, and ids given as
valid, upper-case, braced, urn:, truncated, signed, prefixed and garbage strings. A second stream
compares the Lean model of str(uuid.UUID(s)) with CPython on many strings.
"""
import random
import re
import sys
import uuid

import framework as fw
import heapcommon as hc
from c03 import HeapCheck, GenX, run_history_x, X_OPS

# \Z, not $: "$" also matches before a line feed at the end, and "<canonical text>\n" is not canonical
CANON = re.compile(r"\A[0-9a-f]{8}-[0-9a-f]{4}-[0-9a-f]{4}-[0-9a-f]{4}-[0-9a-f]{12}\Z")


def modelled(s):
    """Texts the Lean model of uuid.UUID is asked about. The model follows CPython's int(): an
    ASCII-only text keeps the separators 0x1c-0x1f (they are white space for str.strip() but not for
    the C parser), a text with a non-ASCII character has all str.isspace() characters skipped. The
    harness translates decimal digits of other scripts to ASCII before it asks (hc.model_text), which
    can turn a non-ASCII text into an ASCII one: the few texts that hold a separator AND a non-ASCII
    character are therefore judged by the oracle only."""
    return not (any(0x1c <= ord(c) <= 0x1f for c in s) and not s.isascii())


def valid_uuid(oid):
    """str(uuid.UUID(oid)) or None; anything that is not a text is not a valid id."""
    if not isinstance(oid, str):
        return None
    try:
        return str(uuid.UUID(oid))
    except ValueError:
        return None


def uuid_strings(rng, n):
    out = []
    alpha = u"0123456789abcdefABCDEFg-{}_+ x:urnid\t\n\r\x0b\x0c\x00\x85\xa0\u2028\u3000\ufeff\u0663\u096b\uff11\xb2\uff41"
    for i in range(n):
        base = str(uuid.UUID(int=rng.getrandbits(128)))
        out.append(hc.mangle_id(rng, base) or "")
        if i % 3 == 0:
            k = rng.choice([30, 31, 32, 32, 33, 34, 36, 38])
            out.append("".join(rng.choice(alpha) for _ in range(k)))
        if i % 5 == 0:
            s = list(base)
            for _ in range(rng.randrange(1, 3)):
                s[rng.randrange(len(s))] = rng.choice(alpha)
            out.append("".join(s))
    one = "1" * 31
    out += [one + "\n", "\n" + one, one + "\r", one + "\x0b", one + "\x0c", one + u"\x85", one + u"\xa0",
            u"\u2028" + one, one + u"\u3000", one + u"\ufeff", one + "\x00", "1" * 32 + "\n", "\n" + "1" * 32,
            "1" * 32 + "\r\n", u"\u0661" * 32, u"\uff11" * 32, one + u"\u0967", "0x" + u"\u0661" * 30,
            u"\u0661_" * 16, "-" + u"\u0660" * 31, one + u"\xb2", one + u"\uff41", one + u"\u2167",
            "{urn:uuid:" + "1" * 32 + "}", "urn:uuid:{" + "1" * 32 + "}", "}" + "1" * 32 + "{",
            "urn:urn:" + "1" * 32, "URN:UUID:" + "1" * 32, "1" * 32 + "urn:", "uuid:" * 3 + "1" * 32,
            "ur" + "urn:" + "n:" + "1" * 32, "-1" * 32, "1-" * 32, "{-}" + "1" * 32]
    out += ["", "0" * 32, "f" * 32, "F" * 32, "-" + "0" * 31, "+" + "0" * 31, "0x" + "1" * 30,
            "0X" + "a" * 30, "0x_" + "1" * 29, "_" + "1" * 31, "1" * 31 + "_", "1_" * 16,
            " " + "1" * 31, "1" * 31 + " ", "urn:uuid:" + "1" * 32, "{" + "1" * 32 + "}",
            "uurn:uid:" + "1" * 32, "1" * 16 + "-" * 5 + "1" * 16, "0x" + "0" * 30, "--" + "1" * 30]
    return out


class C04(HeapCheck):
    prop = "C04"
    driver_name = "drv_c04"
    lean_targets = ["OdmlModel.Props.C04"]
    obligations = ["C04." + t for t in [
        "sibling_names_unique", "append_clash_refused", "insert_clash_refused", "rename_clash_refused",
        "rename_empty_falls_back_to_id", "extend_duplicate_refused", "names_never_empty",
        "ctor_id_canonical", "ctor_malformed_id_replaced", "new_id_malformed_rejected",
        "new_id_canonical", "canonical_nonempty", "ids_canonical_after_any_history",
        "ctor_op_canonical", "new_id_op_canonical", "cleared_name_is_canonical_id",
        "names_never_empty_of_canonical"]]
    quick_n = 1200
    thorough_n = 30000
    trusted_base = [
        "Lean 4.33.0 kernel; axioms propext, Classical.choice, Quot.sound only (audited per theorem)",
        "hand-written models lean/OdmlModel/Model/Heap.lean and Py/Uuid.lean, tied to /repo and to "
        "CPython's uuid module by this correspondence run",
        "Driver/HeapCommon.lean JSON glue; harness/framework.py, heapcommon.py, c03.py, c04.py",
    ]
    assumptions = [
        "uuid4 freshness: the text of a fresh id is taken from the implementation and only checked "
        "to be canonical",
        "int(hex, 16) is modelled for ASCII digits; decimal digits of other scripts, which CPython also "
        "accepts, are translated to ASCII by the harness before the model is asked (heapcommon.model_text); "
        "texts holding both an ASCII separator 0x1c-0x1f and a non-ASCII character are judged by the oracle "
        "only (the digit translation could change which white-space rule of int() applies)",
    ]
    rule = ("editing histories as in C03 (names from {a,b,c,ab,''} and other texts incl. id texts of live "
            "objects, ids in ~75 spellings or copied from live objects, twins / deep-equal copies, oracle-only "
            "histories with names and ids that are not texts and documents loaded from text), oracle-only "
            "histories with clone(keep_id) + re-attach + cleared names, plus a "
            "differential stream of UUID texts (valid spellings, near misses, decorated canonical texts, "
            "random strings over a hostile alphabet incl. line feeds, control characters, non-ASCII white "
            "space and digits). Non-trivial = a history with >= 5 ops of >= 3 kinds, or a UUID text "
            "of length >= 30; distinct = distinct canonical JSON.")

    def generate(self, tier, rng):
        cases = self.histories(tier, rng)
        n = 1500 if tier == "quick" else 40000
        strings = uuid_strings(random.Random(rng.randrange(1 << 60)), n)
        for i in range(0, len(strings), 50):
            cases.append({"uuid": strings[i:i + 50]})
        nx = 400 if tier == "quick" else 3000
        for _ in range(nx):
            g = GenX(random.Random(rng.randrange(1 << 60)))
            cases.append({"xops": g.history(), "q": hc.q_plan(g.rng)})
        return cases

    def impl(self, case):
        if "xops" in case:
            # clone (+ re-attach beside the original, names cleared or changed, ids copied), merge,
            # link, clean: executed as in C03 (which holds the model tie for them); here only the
            # oracle looks at the names and ids of every object after every operation
            trace, done, skipped = run_history_x(case["xops"], case.get("q"))
            return {"x": True, "trace": trace, "done": done, "skipped": skipped}
        if "uuid" not in case:
            return HeapCheck.impl(self, case)
        out = []
        for s in case["uuid"]:
            try:
                out.append(str(uuid.UUID(s)))
            except ValueError:
                out.append(None)
        return {"uuid": out}

    def model_requests(self, case, obs):
        if "uuid" in case:
            return [{"op": "uuid", "s": hc.model_text(s)} for s in case["uuid"] if modelled(s)]
        if "xops" in case:
            return []
        return HeapCheck.model_requests(self, case, obs)

    def compare(self, case, obs, answers):
        if "uuid" in case:
            out = []
            asc = [(s, o) for s, o in zip(case["uuid"], obs["uuid"]) if modelled(s)]
            for (s, o), a in zip(asc, answers):
                if o != a:
                    out.append("uuid.UUID(%r): CPython %r, model %r" % (s, o, a))
            return out[:5]
        if "xops" in case:
            return []
        return HeapCheck.compare(self, case, obs, answers)

    def tag(self, case, obs):
        if "uuid" in case:
            return ("uuid", True)
        if "xops" in case:
            kinds = sorted(set(op["op"] for op in obs.get("done", []) if op["op"] in X_OPS))
            return ("x:" + "+".join(kinds), len(kinds) >= 1)
        return HeapCheck.tag(self, case, obs)

    def oracle(self, case, obs):
        if "harness_exception" in obs or "uuid" in case:
            return []
        out = []
        lost = {"kind": "sec", "name": "#lost", "id": None, "parent": None, "secs": [], "props": []}
        for k, step in enumerate(obs["trace"]):
            op = obs["done"][k]
            # (an object the extended executor lost while it was being built cannot be observed)
            snap = [lost if o is None else o for o in step["snap"]]
            fails = [f for f in hc.wf_failures(snap) if "duplicate" in f or "empty name" in f]
            for o in snap:
                if o is not lost and not (isinstance(o["id"], str) and CANON.match(o["id"])):
                    fails.append("id %r is not a canonical UUID string" % (o["id"],))
            if op["op"] == "construct" and step["out"] == "ok" and op.get("oid"):
                new = step["snap"][-1]["id"]
                oid = hc.decode(op["oid"])
                want = valid_uuid(oid)
                if want is not None and new != want:
                    fails.append("valid id %r given at creation became %r" % (op["oid"], new))
                if want is None and new == oid:
                    fails.append("malformed id %r kept at creation" % (op["oid"],))
            if op["op"] == "new_id" and op.get("oid") is not None:
                want = valid_uuid(hc.decode(op["oid"]))
                before = obs["trace"][k - 1]["snap"][op["x"]]["id"] if k else None
                now = step["snap"][op["x"]]["id"]
                if want is None and (step["out"] == "ok" or now != before):
                    fails.append("new_id(%r): malformed id not rejected (%s, id %r -> %r)"
                                 % (op["oid"], step["out"], before, now))
                if want is not None and (step["out"] != "ok" or now != want):
                    fails.append("new_id(%r): %s, id is %r, expected %r" % (op["oid"], step["out"], now, want))
            if op["op"] == "rename" and step["out"] == "ok" and hc.decode(op["new"]) in (None, ""):
                # (weaker reading: only None and '' count as "cleared"; 0, 0.0, False given as a
                # name are treated like them by the library, which is not demanded here)
                o = step["snap"][op["x"]]
                if o["name"] != o["id"]:
                    fails.append("cleared name did not fall back to the id: %r" % (o["name"],))
            if fails:
                out = ["after op %d %s (%s): %s" % (k, op, step["out"], f) for f in fails[:4]]
                break
        return out


if __name__ == "__main__":
    sys.exit(fw.main(C04(), sys.argv[1:]))
