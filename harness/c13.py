# -*- coding: utf-8 -*-
"""
C13 - Merging one Section into another is complete, conservative and all-or-nothing.

Tie between lean/OdmlModel/Model/Merge.lean and /repo: generated pairs of Section trees with
controlled overlap are built through the public API, snapshotted, merged by the real
`Section.merge` / `Property.merge` / `Section.merge_check`, snapshotted again, and the compiled
model is run on the snapshot taken *before* the call. The oracle restates the clauses of the
property over the snapshots only (it never looks at the model).
"""
import contextlib
import copy
import datetime as dt
import math
import random
import sys

import framework as fw

DTYPES = ["string", "text", "int", "float", "url", "datetime", "date", "time", "boolean", "person"]
TEXT_ATTRS = ["def", "ref", "origin"]

# ----------------------------------------------------------------------------- value universe
POOL = {
    "string": ["a", "b", "A", "1", "2", "1.5", "-2", "true", "F", "2020-01-02", "12:30:00",
               "2020-01-02 12:30:00", "x y", "l1\nl2", " pad ", "b\n"],
    "text": ["a", "long\ntext", "1", "b", "two\nlines\n", "true"],
    "url": ["http://a.b/c", "a", "u\nv", "2"],
    "person": ["Ann B", "a", "p\nq"],
    "int": [1, 2, 3, 0, -1, 10 ** 12],
    "float": [1.0, 2.0, 1.5, 0.5, -1.5, 0.0, 3.0],
    "boolean": [True, False],
    "date": [dt.date(2020, 1, 2), dt.date(2021, 12, 28)],
    "time": [dt.time(12, 30, 0), dt.time(1, 2, 3)],
    "datetime": [dt.datetime(2020, 1, 2, 12, 30, 0), dt.datetime(2021, 12, 28, 1, 2, 3)],
}
UNITS = [None, "mV", "mv", "s", "Hz"]
UNCS = [None, 0.5, 1.5, 2.0, 0.0]
TEXTS = [None, "Def one", "def  ONE", " DEF\tone\n", "defone", "other text",
         "OTHER text", "x", "X "]
NAMES = ["a", "b", "c", "ab", "A"]
TYPES = ["t", "u", "t/x"]


def to_tag(v):
    """Python value -> tagged JSON value (None if outside the modelled universe)."""
    if isinstance(v, bool):
        return {"b": v}
    if isinstance(v, int):
        return {"i": v}
    if isinstance(v, float):
        # half-integers are the floats of the modelled universe; every other float gets a tag that
        # can be decoded again (histories stream, oracle only: `modelable_x` refuses it)
        if not math.isfinite(v):
            return {"r": repr(v)}
        h = v * 2
        if h == int(h) and abs(h) < 2 ** 50:
            return {"f": int(h)}
        return {"r": repr(v)}
    if isinstance(v, str):
        return {"s": v}
    if isinstance(v, dt.datetime):
        return {"dt": v.strftime("%Y-%m-%d %H:%M:%S")} if v.microsecond == 0 else {"w": repr(v)}
    if isinstance(v, dt.date):
        return {"d": v.isoformat()}
    if isinstance(v, dt.time):
        return {"t": v.strftime("%H:%M:%S")} if v.microsecond == 0 else {"w": repr(v)}
    return {"w": repr(v)}


def from_tag(t):
    if "s" in t:
        return t["s"]
    if "i" in t:
        return t["i"]
    if "f" in t:
        return t["f"] / 2.0
    if "b" in t:
        return t["b"]
    if "r" in t:
        return float(t["r"])
    if "dt" in t:
        return dt.datetime.strptime(t["dt"], "%Y-%m-%d %H:%M:%S")
    if "d" in t:
        return dt.datetime.strptime(t["d"], "%Y-%m-%d").date()
    if "t" in t:
        return dt.datetime.strptime(t["t"], "%H:%M:%S").time()
    raise ValueError(t)


def unc_tag(u):
    if u is None:
        return None
    if isinstance(u, (int, float)) and not isinstance(u, bool) and u * 2 == int(u * 2):
        return int(u * 2)
    return {"w": repr(u)}


def unc_val(t):
    """inverse of unc_tag (a number that is not a half-integer is carried as its repr)"""
    if t is None:
        return None
    if isinstance(t, dict):
        return float(t["w"])
    return t / 2.0


def text_out(x):
    return x if (x is None or isinstance(x, str)) else {"w": repr(x)}


def snap_prop(p):
    return {"name": p.name, "dtype": text_out(p.dtype), "values": [to_tag(v) for v in p.values],
            "unit": text_out(p.unit), "unc": unc_tag(p.uncertainty), "def": text_out(p.definition),
            "ref": text_out(p.reference), "origin": text_out(p.value_origin)}


def snap_sec(s):
    return {"name": s.name, "type": s.type, "def": text_out(s.definition),
            "ref": text_out(s.reference), "link": text_out(s.link), "incl": text_out(s.include),
            "merged": bool(s.is_merged),
            "props": [snap_prop(p) for p in s.properties],
            "secs": [snap_sec(c) for c in s.sections]}


def modelable(x):
    """No value outside the modelled universe anywhere in a snapshot."""
    if isinstance(x, dict):
        if "w" in x:
            return False
        if "dtype" in x and x["dtype"] is not None and x["dtype"] not in DTYPES:
            return False
        return all(modelable(v) for v in x.values())
    if isinstance(x, list):
        return all(modelable(v) for v in x)
    return True


def build_prop(spec, parent=None):
    import odml
    vals = [from_tag(t) for t in spec["values"]]
    return odml.Property(name=spec["name"], values=vals if vals else None, dtype=spec["dtype"],
                         unit=spec["unit"],
                         uncertainty=unc_val(spec["unc"]),
                         definition=spec["def"], reference=spec["ref"],
                         value_origin=spec["origin"], parent=parent)


def build_sec(spec, parent=None):
    import odml
    # link / include are handed to the constructor, which stores them unresolved
    sec = odml.Section(name=spec["name"], type=spec["type"], definition=spec["def"],
                       reference=spec["ref"], parent=parent, link=spec.get("link"),
                       include=spec.get("incl"))
    for p in spec["props"]:
        build_prop(p, sec)
    for c in spec["secs"]:
        build_sec(c, sec)
    return sec


# ----------------------------------------------------------------------------- generators
def new_prop(rng, name, dtype=None, attrs=True):
    if dtype is None:
        dtype = rng.choice(["string", "string", "int", "float", "text", "boolean", "date", "url",
                            "person", "time", "datetime", "none"])
    if dtype == "none":
        values, dtype = [], None
    else:
        values = [to_tag(rng.choice(POOL[dtype])) for _ in range(rng.choice([0, 1, 1, 2, 3]))]
    pick = (lambda pool: rng.choice(pool) if attrs and rng.random() < 0.35 else None)
    return {"name": name, "dtype": dtype, "values": values, "unit": pick(UNITS),
            "unc": unc_tag(pick(UNCS)), "def": pick(TEXTS), "ref": pick(TEXTS),
            "origin": pick(TEXTS)}


def new_sec(rng, name, depth, attrs=True):
    pick = (lambda pool: rng.choice(pool) if attrs and rng.random() < 0.35 else None)
    npr = rng.choice([0, 1, 2, 3]) if depth > 0 else rng.choice([0, 1, 2])
    nse = rng.choice([0, 1, 2, 3]) if depth > 0 else 0
    return {"name": name, "type": rng.choice(TYPES), "def": pick(TEXTS), "ref": pick(TEXTS),
            "link": None, "incl": None, "merged": False,
            "props": [new_prop(rng, n, attrs=attrs) for n in rng.sample(NAMES, npr)],
            "secs": [new_sec(rng, n, depth - 1, attrs) for n in rng.sample(NAMES, nse)]}


def variant(rng, text):
    """The same text up to case and whitespace."""
    k = rng.randrange(5)
    if k == 0:
        return text.upper()
    if k == 1:
        return " " + text.replace(" ", " \t ") + "\n"
    if k == 2:
        return text.lower().replace(" ", "")
    if k == 3:
        return " ".join(text) if len(text) < 6 else text.swapcase()
    return text


def derive_text(rng, mine, mode):
    """mode: 'free' (anything), 'safe' (never a conflict)."""
    r = rng.random()
    if r < 0.3:
        return None
    if mine is None:
        return rng.choice(TEXTS[1:])
    if r < 0.75 or mode == "safe":
        return variant(rng, mine)
    return rng.choice([t for t in TEXTS[1:]])


def derive_exact(rng, mine, pool, mode):
    r = rng.random()
    if r < 0.3:
        return None
    if mine is None:
        return rng.choice(pool[1:])
    if r < 0.8 or mode == "safe":
        return mine
    return rng.choice(pool[1:])


CONVERTIBLE = {   # string texts every dtype can take over in a lenient merge
    "int": ["1", "2", "1.5", "-2"], "float": ["1", "1.5", "-2", "2"], "boolean": ["true", "F", "1"],
    "date": ["2020-01-02"], "time": ["12:30:00"], "datetime": ["2020-01-02 12:30:00"],
}


def derive_prop(rng, mine, mode, strict):
    """A source Property of the same name as `mine`."""
    dtype = mine["dtype"]
    same_dtype = rng.random() < 0.7 or (mode == "safe" and strict)
    if not same_dtype or dtype is None:
        dtype = rng.choice(DTYPES + ["none"])
        if mode == "safe" and strict and mine["dtype"] is not None and dtype != "none":
            dtype = mine["dtype"]
    values = []
    if dtype != "none":
        for _ in range(rng.choice([0, 1, 2, 3])):
            if mine["values"] and rng.random() < 0.4:
                v = rng.choice(mine["values"])
                if mine["dtype"] == dtype:
                    values.append(v)
                    continue
            values.append(to_tag(rng.choice(POOL[dtype])))
        if mode == "safe" and mine["dtype"] in CONVERTIBLE and dtype != mine["dtype"]:
            if dtype in ("string", "text"):
                values = [to_tag(rng.choice(CONVERTIBLE[mine["dtype"]])) for _ in values]
            elif not (dtype in ("int", "float", "boolean") and mine["dtype"] in ("int", "float")):
                values = []
    else:
        dtype = None
    if mode == "safe":
        mode_attr = "safe"
    else:
        mode_attr = "free" if rng.random() < 0.5 else "safe"
    return {"name": mine["name"], "dtype": dtype, "values": values,
            "unit": derive_exact(rng, mine["unit"], UNITS, mode_attr),
            "unc": unc_tag(derive_exact(rng, unc_val(mine["unc"]),
                                        UNCS, mode_attr)),
            "def": derive_text(rng, mine["def"], mode_attr),
            "ref": derive_text(rng, mine["ref"], mode_attr),
            "origin": derive_text(rng, mine["origin"], mode_attr)}


def derive_sec(rng, mine, mode, strict, depth, name=None):
    """A source Section overlapping the destination Section `mine` in a controlled way."""
    mode_attr = "safe" if mode == "safe" or rng.random() < 0.6 else "free"
    props = []
    for p in mine["props"]:
        if rng.random() < 0.65:
            props.append(derive_prop(rng, p, mode, strict))
    free = [n for n in NAMES if n not in [p["name"] for p in props] and
            (n not in [p["name"] for p in mine["props"]])]
    for n in rng.sample(free, min(len(free), rng.choice([0, 0, 1, 2]))):
        props.append(new_prop(rng, n))
    secs = []
    for c in mine["secs"]:
        if rng.random() < 0.65:
            sc = derive_sec(rng, c, mode, strict, depth - 1)
            if mode != "safe" and rng.random() < 0.12:
                sc["type"] = rng.choice([t for t in TYPES if t != c["type"]])
            secs.append(sc)
    free = [n for n in NAMES if n not in [c["name"] for c in secs] and
            (n not in [c["name"] for c in mine["secs"]])]
    for n in rng.sample(free, min(len(free), rng.choice([0, 0, 1, 2]))):
        secs.append(new_sec(rng, n, max(depth - 1, 0)))
    rng.shuffle(props)
    rng.shuffle(secs)
    return {"name": name or mine["name"], "type": mine["type"],
            "def": derive_text(rng, mine["def"], mode_attr),
            "ref": derive_text(rng, mine["ref"], mode_attr),
            "link": None, "incl": None, "merged": False, "props": props, "secs": secs}


def matched_positions(d, s, path=()):
    """All (kind, path) places where a conflict can be planted: matched Sections and Properties."""
    out = [("sec", path)]
    for i, sp in enumerate(s["props"]):
        if any(dp["name"] == sp["name"] for dp in d["props"]):
            out.append(("prop", path + (("p", i),)))
    for i, sc in enumerate(s["secs"]):
        for dc in d["secs"]:
            if dc["name"] == sc["name"] and dc["type"] == sc["type"]:
                out += matched_positions(dc, sc, path + (("s", i),))
                break
    return out


def node_at(d, s, path):
    """-> (dest node, src node) following a path of source indices."""
    for kind, i in path:
        if kind == "s":
            sc = s["secs"][i]
            d = next(dc for dc in d["secs"] if dc["name"] == sc["name"] and dc["type"] == sc["type"])
            s = sc
        else:
            sp = s["props"][i]
            d = next(dp for dp in d["props"] if dp["name"] == sp["name"])
            s = sp
    return d, s


def plant_conflict(rng, d, s, kind, path):
    """Copies of (d, s) with exactly one strict-mode conflict planted at the position."""
    d, s = copy.deepcopy(d), copy.deepcopy(s)
    dn, sn = node_at(d, s, path)
    if kind == "sec":
        attr = rng.choice(["def", "ref"])
        dn[attr], sn[attr] = "Def one", "another def"
        return d, s, "sec." + attr
    attr = rng.choice(["dtype", "unit", "unc", "def", "ref", "origin"])
    if attr == "dtype":
        if dn["dtype"] is None:
            dn["dtype"] = "string"
        other = "int" if dn["dtype"] != "int" else "float"
        sn["dtype"] = other
        sn["values"] = [v for v in sn["values"] if False]
        if rng.random() < 0.5:
            sn["values"] = [to_tag(POOL[other][0])]
            if dn["dtype"] not in ("string", "text", "url", "person", "int", "float"):
                sn["values"] = []
    elif attr == "unit":
        dn["unit"], sn["unit"] = "mV", "mv"
    elif attr == "unc":
        dn["unc"], sn["unc"] = 1, 3
    else:
        dn[attr], sn[attr] = "Def one", "def two"
    return d, s, "prop." + attr


# ----------------------------------------------------------------------------- oracle helpers
def norm(text):
    return "".join(text.split()).lower()


def text_conflict(a, b):
    return a is not None and b is not None and norm(a) != norm(b)


def exact_conflict(a, b):
    return a is not None and b is not None and a != b


def find_sec(secs, name, typ):
    for c in secs:
        if c["name"] == name and c["type"] == typ:
            return c
    return None


def find_prop(props, name):
    for p in props:
        if p["name"] == name:
            return p
    return None


def prop_conflict(dp, sp):
    return (exact_conflict(dp["dtype"], sp["dtype"]) or exact_conflict(dp["unit"], sp["unit"]) or
            exact_conflict(dp["unc"], sp["unc"]) or text_conflict(dp["def"], sp["def"]) or
            text_conflict(dp["ref"], sp["ref"]) or text_conflict(dp["origin"], sp["origin"]))


def tree_conflict(d, s):
    """A strict-mode conflict between corresponding objects anywhere in the two trees."""
    if text_conflict(d["def"], s["def"]) or text_conflict(d["ref"], s["ref"]):
        return True
    for sp in s["props"]:
        dp = find_prop(d["props"], sp["name"])
        if dp is not None and prop_conflict(dp, sp):
            return True
    for sc in s["secs"]:
        dc = find_sec(d["secs"], sc["name"], sc["type"])
        if dc is not None and tree_conflict(dc, sc):
            return True
    return False


def type_clash(d, s):
    """Python mirror of Merge.typeClash (cross-checked against the driver on every case)."""
    for sc in s["secs"]:
        dc = find_sec(d["secs"], sc["name"], sc["type"])
        if dc is not None:
            if type_clash(dc, sc):
                return True
        elif any(c["name"] == sc["name"] for c in d["secs"]):
            return True
    return False


def py_in(v, values):
    return any(v == w for w in values)


def empty_own_ok(own, source, result):
    """The destination's own attribute is "" (no setter stores that; the XML reader does, for a
    whitespace-only element).  The statement does not say whether "" is set or unset, so every
    reading is accepted: kept as it is, counted as unset (None), or filled from the source."""
    return own == "" and result in ("", None, source)


def without_empty(x):
    """a snapshot with every "" text attribute / unit read as unset (see empty_own_ok)"""
    if isinstance(x, dict):
        return dict((k, None if (v == "" and k in ("def", "ref", "origin", "unit")) else
                     without_empty(v)) for k, v in x.items())
    if isinstance(x, list):
        return [without_empty(v) for v in x]
    return x


def check_prop_merged(dp, sp, rp, strict, where, out):
    """Clauses of the property for one merged Property (dp + sp -> rp)."""
    from odml import dtypes
    own = [from_tag(t) for t in dp["values"]]
    src = [from_tag(t) for t in sp["values"]]
    res = [from_tag(t) for t in rp["values"]]
    if [to_tag(v) for v in res[:len(own)]] != dp["values"]:
        out.append("%s: own values %s not kept (now %s)" % (where, dp["values"], rp["values"]))
    for v in src:
        if py_in(v, own):
            continue
        want = v
        if not strict:
            try:
                want = dtypes.get(v, rp["dtype"])
            except Exception:
                out.append("%s: value %r of the source is not convertible to %s but merge "
                           "succeeded" % (where, v, rp["dtype"]))
                continue
        if not any(to_tag(want) == to_tag(w) for w in res[len(own):]):
            out.append("%s: value %r of the source missing from %s" % (where, want, rp["values"]))
    for attr in ("unit", "unc", "def", "ref", "origin"):
        want = dp[attr] if dp[attr] is not None else sp[attr]
        if want == "":
            want = None
        if rp[attr] != want and not empty_own_ok(dp[attr], sp[attr], rp[attr]):
            out.append("%s: %s is %r, expected %r (own %r, source %r)"
                       % (where, attr, rp[attr], want, dp[attr], sp[attr]))


def check_merged(d, s, r, strict, where, out):
    """Clauses of the property for one merged Section pair (d + s -> r), recursively."""
    for attr in ("def", "ref"):
        want = d[attr] if d[attr] is not None else s[attr]
        if want == "":
            want = None
        if r[attr] != want and not empty_own_ok(d[attr], s[attr], r[attr]):
            out.append("%s: section %s is %r, expected %r" % (where, attr, r[attr], want))
    if r["name"] != d["name"] or r["type"] != d["type"]:
        out.append("%s: name/type of the destination changed" % where)
    # complete + values + filled attributes
    for sp in s["props"]:
        rp = find_prop(r["props"], sp["name"])
        if rp is None:
            out.append("%s: no Property named %r after merge" % (where, sp["name"]))
            continue
        dp = find_prop(d["props"], sp["name"])
        if dp is not None:
            check_prop_merged(dp, sp, rp, strict, "%s:%s" % (where, sp["name"]), out)
        else:
            for t in sp["values"]:
                if t not in rp["values"]:
                    out.append("%s:%s copied Property lacks value %s" % (where, sp["name"], t))
    for sc in s["secs"]:
        rc = find_sec(r["secs"], sc["name"], sc["type"])
        if rc is None:
            out.append("%s: no Section %r/%r after merge" % (where, sc["name"], sc["type"]))
            continue
        dc = find_sec(d["secs"], sc["name"], sc["type"])
        if dc is not None:
            check_merged(dc, sc, rc, strict, "%s/%s" % (where, sc["name"]), out)
        else:
            check_complete(rc, sc, "%s/%s" % (where, sc["name"]), out)
    # conservative: children the source lacks are unchanged, in place
    for i, dp in enumerate(d["props"]):
        if find_prop(s["props"], dp["name"]) is None:
            if i >= len(r["props"]) or r["props"][i] != dp:
                out.append("%s: Property %r the source lacks was changed" % (where, dp["name"]))
    for i, dc in enumerate(d["secs"]):
        if find_sec(s["secs"], dc["name"], dc["type"]) is None:
            if i >= len(r["secs"]) or r["secs"][i] != dc:
                out.append("%s: Section %r the source lacks was changed" % (where, dc["name"]))


def check_complete(r, s, where, out):
    """r (a copy made for an unmatched child) has everything s has, recursively."""
    for sp in s["props"]:
        rp = find_prop(r["props"], sp["name"])
        if rp is None:
            out.append("%s: copied Section lacks Property %r" % (where, sp["name"]))
        elif any(t not in rp["values"] for t in sp["values"]):
            out.append("%s: copied Property %r lacks values" % (where, sp["name"]))
    for sc in s["secs"]:
        rc = find_sec(r["secs"], sc["name"], sc["type"])
        if rc is None:
            out.append("%s: copied Section lacks Section %r" % (where, sc["name"]))
        else:
            check_complete(rc, sc, "%s/%s" % (where, sc["name"]), out)


# ----------------------------------------------------------------------------- histories
# Strengthening after seeded round 2 (design.d/C13.md).  The property quantifies over *pairs of
# Section trees*; it does not say how the two trees came to be.  The streams above only ever hand
# freshly constructed objects to a single call.  The stream "hist" builds the trees, applies a
# history of public-API operations to them (earlier merges and merge_checks - accepted and refused
# ones -, lookups, renames, item assignment, remove / append / insert / reorder, direct edits of the
# child lists that `properties` / `sections` hand out, attribute and value edits, cardinalities,
# clones with and without ids, moving children between trees, unmerge / clean, attaching to a
# Document, a trip through the dict writer and reader) and judges EVERY merge / merge_check /
# Property.merge of the history: the model is run on the snapshot taken immediately before the call
# (it is a function of the two trees only, so it is the referee of "the history does not matter"),
# and the oracle restates the clauses over the snapshots.  The trees of this stream also use wider
# pools: unnamed objects (name = id), names / types differing in case or blanks only, multi-digit
# names, non-ASCII names, units and texts, exotic blanks, whitespace-only texts, unresolved
# link / include attributes, 10+ siblings, deep chains, huge ints, non-half-integer and infinite
# floats.  Steps whose snapshots leave the modelled universe are judged by the oracle alone.
#
# "" as a text attribute or unit is never generated (only the constructor can store it, every
# setter turns it into None) but it is reachable: the XML round trip of a history turns a
# whitespace-only attribute into "".  Whether "" is "set" is ambiguous, the oracle accepts every
# reading there (empty_own_ok, without_empty).
# Deliberately outside: NaN values ("a value it lacked" is
# not defined for a value unequal to itself), a source that is the destination itself or its
# ancestor / descendant ("the whole of src is unchanged" cannot hold), strict arguments that are
# not bools, duplicate sibling names (only reachable by renaming an object whose parent pointer
# was cut by a direct list edit).

X_POOL = dict(POOL)
X_POOL["string"] = POOL["string"] + [u"\xe9", u"\xc4B", u"日本", u"١٢", "a" * 40, "10", "9"]
X_POOL["text"] = POOL["text"] + [u"\xfc\n\xf6"]
X_POOL["int"] = POOL["int"] + [2 ** 70, -7, 10, 9, 100]
X_POOL["float"] = POOL["float"] + [0.1, 1e300, float("inf"), -0.0, 2.5, 10.0, 9.0]
X_UNITS = UNITS + [u"\xb5V", " ", "m V", "MV", "10", "9"]
X_UNCS = UNCS + [0.1, 10, 1e-9, -1.0, 9]
X_TEXTS = TEXTS + [" ", u"\xdcnit", u"\xdcNIT", u"\xfc nit", u"Def\xa0one", u"def ONE ",
                   u"δx", u"δ X", "\t\n"]
X_NAMES = NAMES + ["p1", "p2", "p10", u"\xe4", " a", "a b", None]
X_TYPES = TYPES + ["T", "t ", u"\xfc/x"]
X_LINKS = ["/nowhere", "../sibling", "a/b"]
X_INCLS = ["no-such-file.xml#/x"]


@contextlib.contextmanager
def ext_pools():
    """The tree generators above with the wider pools (the classic streams keep theirs)."""
    glob = globals()
    names = ["POOL", "UNITS", "UNCS", "TEXTS", "NAMES", "TYPES"]
    old = dict((n, glob[n]) for n in names)
    try:
        for n in names:
            glob[n] = glob["X_" + n]
        yield
    finally:
        glob.update(old)


def lower_is_ascii_only(text):
    return text.lower() == "".join(c.lower() if c.isascii() else c for c in text)


def modelable_x(x):
    """modelable, and nothing the model treats differently from CPython: str.lower is modelled for
    ASCII letters (blanks are the full str.isspace set), value strings are parsed as ASCII."""
    if isinstance(x, dict):
        if len(x) == 1 and "r" in x:
            return False
        if len(x) == 1 and "s" in x:
            return x["s"].isascii()
        if "dtype" in x and x["dtype"] is not None and x["dtype"] not in DTYPES:
            return False
        if "w" in x:
            return False
        for k in ("def", "ref", "origin"):
            if isinstance(x.get(k), str) and not lower_is_ascii_only(x[k]):
                return False
        return all(modelable_x(v) for v in x.values())
    if isinstance(x, list):
        return all(modelable_x(v) for v in x)
    return True


def scrub(spec):
    """"" never is an attribute of a generated tree (a variant of a whitespace-only text can be "";
    see the note on "" above): it becomes a blank."""
    for node in [spec] + spec["props"]:
        for k in ("def", "ref", "origin", "unit"):
            if node.get(k) == "":
                node[k] = " "
    for c in spec["secs"]:
        scrub(c)
    return spec


def sprinkle(rng, spec, depth=0):
    """unresolved link / include attributes somewhere below the root of a tree spec"""
    for c in spec["secs"]:
        r = rng.random()
        if r < 0.08:
            c["link"] = rng.choice(X_LINKS)
        elif r < 0.12:
            c["incl"] = rng.choice(X_INCLS)
        sprinkle(rng, c, depth + 1)
    return spec


def new_wide(rng, name):
    """10+ siblings with multi-digit names"""
    with_vals = lambda n: new_prop(rng, n, dtype=rng.choice(["int", "string", "float"]))
    return {"name": name, "type": "t", "def": None, "ref": None, "link": None, "incl": None,
            "merged": False,
            "props": [with_vals("p%d" % i) for i in range(1, rng.choice([10, 11, 13]))],
            "secs": [new_sec(rng, "s%d" % i, 0) for i in range(1, rng.choice([2, 3, 11]))]}


def new_deep(rng, name, depth):
    """a chain of Sections, every level with a few Properties"""
    node = new_sec(rng, name, 0)
    if depth > 0:
        node["secs"] = [new_deep(rng, rng.choice(["a", "b"]), depth - 1)]
        if rng.random() < 0.4:
            node["secs"].append(new_sec(rng, "c", 1))
    return node


# ---- a light simulation of the operations on specs (only guides the generator: which names and
# ---- positions exist; the interpreter below takes every index modulo the live length)
def sim_at(sim, ref):
    sec = sim[ref[0] % len(sim)]
    for i in ref[1]:
        if not sec["secs"]:
            break
        sec = sec["secs"][i % len(sec["secs"])]
    return sec


def sim_merge(d, s):
    for sc in s["secs"]:
        dc = find_sec(d["secs"], sc["name"], sc["type"])
        if dc is not None:
            sim_merge(dc, sc)
        elif not any(c["name"] == sc["name"] for c in d["secs"]):
            d["secs"].append(copy.deepcopy(sc))
    for sp in s["props"]:
        if find_prop(d["props"], sp["name"]) is None:
            d["props"].append(copy.deepcopy(sp))


def sim_apply(sim, op):
    kind = op["op"]
    if kind == "new":
        sim.append(copy.deepcopy(op["spec"]))
        return
    if kind == "clone_as":
        sim.append(copy.deepcopy(sim_at(sim, op["at"])))
        return
    if kind == "merge":
        sim_merge(sim_at(sim, op["at"]), sim_at(sim, op["src"]))
        return
    if "at" not in op:
        return
    sec = sim_at(sim, op["at"])
    which = "props" if kind.endswith("_p") else "secs"
    lst = sec[which]
    i = op.get("i", 0)
    if kind in ("rename_p", "rename_s") and lst:
        if not any(c["name"] == op["name"] for c in lst):
            lst[i % len(lst)]["name"] = op["name"]
    elif kind == "retype_s" and lst:
        lst[i % len(lst)]["type"] = op["type"]
    elif kind in ("set_p", "set_s", "rmapp_p", "rmapp_s", "listdelapp_p") and lst:
        j = i % len(lst)
        if not any(c["name"] == op["spec"]["name"] for k, c in enumerate(lst) if k != j):
            if kind.startswith("set"):
                lst[j] = copy.deepcopy(op["spec"])
            else:
                del lst[j]
                lst.append(copy.deepcopy(op["spec"]))
    elif kind in ("remove_p", "remove_s") and lst:
        del lst[i % len(lst)]
    elif kind in ("append_p", "append_s", "insert_p", "insert_s"):
        if not any(c["name"] == op["spec"]["name"] for c in lst):
            lst.append(copy.deepcopy(op["spec"]))


def rand_path(rng, spec, maxlen=3):
    path = []
    node = spec
    while node["secs"] and len(path) < maxlen and rng.random() < 0.6:
        i = rng.randrange(len(node["secs"]))
        path.append(i)
        node = node["secs"][i]
    return path


L_KINDS = ["merge", "mergefail", "check", "pmerge", "contains_p", "contains_s", "lookup", "equiv",
           "walk", "link", "none"]
E_KINDS = ["rename_p", "rename_s", "retype_s", "set_p", "set_s", "setmoved_p", "rmapp_p", "rmapp_s",
           "remove_p", "remove_s", "append_p", "append_s", "insert_p", "insert_s", "reorder_p",
           "reorder_s", "listsort_p", "listrev_p", "listrev_s", "listdelapp_p", "attr_p", "attr_s",
           "values_p", "dtype_p", "card_p", "card_s", "clone_root", "clone_sub", "move_p", "move_s",
           "unmerge", "clean", "doc", "reload", "none"]
ATTRS_P = ["unit", "unc", "def", "ref", "origin"]


def gen_edit(rng, kind, at, sim, others):
    """one history operation of the given kind on the Section at `at` (a [tree, path] reference)"""
    sec = sim_at(sim, at)
    op = {"op": kind, "at": at, "i": rng.randrange(12)}
    if kind in ("rename_p", "rename_s"):
        pool = [n for n in NAMES if n is not None] + ["zz", ""]
        op["name"] = rng.choice(pool)
    elif kind == "retype_s":
        op["type"] = rng.choice(TYPES)
    elif kind in ("set_p", "rmapp_p", "append_p", "insert_p", "listdelapp_p"):
        lst = sec["props"]
        if lst and rng.random() < 0.5:      # the name of the replaced / a present child, or a new one
            name = lst[op["i"] % len(lst)]["name"]
        else:
            name = rng.choice(NAMES)
        op["spec"] = new_prop(rng, name)
        op["pos"] = rng.choice([0, 1, -1, 5])
    elif kind in ("set_s", "rmapp_s", "append_s", "insert_s"):
        lst = sec["secs"]
        if lst and rng.random() < 0.5:
            name = lst[op["i"] % len(lst)]["name"]
        else:
            name = rng.choice(NAMES)
        op["spec"] = new_sec(rng, name, rng.choice([0, 1]))
        if lst and rng.random() < 0.5:
            op["spec"]["type"] = lst[op["i"] % len(lst)]["type"]
        op["pos"] = rng.choice([0, 1, -1, 5])
    elif kind in ("setmoved_p", "move_p", "move_s"):
        op["src"] = [rng.choice(others), []] if others else at
        op["j"] = rng.randrange(12)
    elif kind in ("reorder_p", "reorder_s"):
        op["to"] = rng.choice([0, 1, 2, -1, 7])
    elif kind == "attr_p":
        op["attr"] = rng.choice(ATTRS_P)
        pool = {"unit": UNITS, "unc": UNCS}.get(op["attr"], TEXTS)
        op["value"] = rng.choice(pool)
        if op["attr"] == "unc":
            op["value"] = unc_tag(op["value"])
    elif kind == "attr_s":
        op["attr"] = rng.choice(["def", "ref"])
        op["value"] = rng.choice(TEXTS)
    elif kind == "values_p":
        t = rng.choice(DTYPES)
        op["values"] = [to_tag(rng.choice(POOL[t])) for _ in range(rng.choice([0, 1, 2, 3]))]
    elif kind == "dtype_p":
        op["dtype"] = rng.choice(DTYPES + [None, "Int", "STRING"])
    elif kind in ("card_p", "card_s"):
        op["card"] = rng.choice([None, 1, [0, 1], [None, 2], [2, None], [1, 1]])
        op["which"] = rng.choice(["sec", "prop"])
    elif kind in ("clone_root", "clone_sub"):
        op["keep_id"] = rng.random() < 0.5
    elif kind == "unmerge":
        op["src"] = [rng.choice(others), []] if others else at
    elif kind == "reload":
        op["fmt"] = rng.choice(["dict", "dict", "XML", "JSON", "YAML"])
    return op


def gen_look(rng, kind, at, src, strict):
    """one operation that makes the Section at `at` look at its children (src: a tree index)"""
    op = {"op": kind, "at": at, "i": rng.randrange(12)}
    if kind in ("merge", "check"):
        op.update({"src": [src, []], "strict": strict, "call": rng.choice(["kw", "pos", "kw"])})
        if strict and rng.random() < 0.2:
            op["call"] = "default"
    elif kind == "pmerge":
        op.update({"src": [src, []], "j": rng.randrange(12), "strict": strict})
    elif kind in ("contains_p", "contains_s"):
        op["name"] = rng.choice([n for n in NAMES if n is not None])
        op["type"] = rng.choice(TYPES)
    elif kind == "link":
        op["src"] = [at[0], [rng.randrange(4) for _ in range(rng.choice([1, 1, 2]))]]
    return op


def conflict_source(rng, base):
    """a source that a strict merge must refuse (when `base` has a Property at all)"""
    s = derive_sec(rng, base, "safe", True, 3, name="src")
    if base["props"]:
        p = copy.deepcopy(rng.choice(base["props"]))
        p["unit"], p["values"] = "xx-other-unit", []
        s["props"] = [q for q in s["props"] if q["name"] != p["name"]] + [p]
    return scrub(s)


def gen_history(rng, lk=None, ek=None):
    """
    -> case of stream "hist".  Directed shape (lk, ek given): a first source, an operation that makes
    the destination look at its children (lk), an edit (ek) at some depth below the merged Section,
    a second source derived from the destination before or after the edit, the judged merge.
    Without lk / ek: a random history over all trees, ending in a merge.
    """
    # half of the histories stay inside the modelled universe (classic pools: every judged step is
    # refereed by the model as well), half use the wider pools
    with (ext_pools() if rng.random() < 0.5 else contextlib.nullcontext()):
        shape = rng.random()
        if shape < 0.08:
            d = new_wide(rng, "dest")
        elif shape < 0.2:
            d = new_deep(rng, "dest", rng.choice([4, 5, 6]))
        else:
            d = new_sec(rng, "dest", rng.choice([1, 1, 2, 2, 2, 3]), attrs=rng.random() < 0.7)
        sprinkle(rng, d)
        sim = [copy.deepcopy(d)]
        ops = []

        def push(op):
            ops.append(op)
            sim_apply(sim, op)

        def new_source(base, strict):
            mode = "safe" if rng.random() < 0.7 else "free"
            s = derive_sec(rng, base, mode, strict, 3, name=rng.choice(["src", "src", None]))
            if rng.random() < 0.3:
                sprinkle(rng, s)
            push({"op": "new", "spec": scrub(s)})
            return len(sim) - 1

        def edit_path(q, kind):
            """a path below q to a Section that has something for an edit of this kind"""
            best = q
            for _ in range(6):
                cand = q + rand_path(rng, sim_at(sim, [0, q]), 2)
                node = sim_at(sim, [0, cand])
                need = "props" if kind.endswith("_p") else ("secs" if kind.endswith("_s") else None)
                if need is None or node[need]:
                    return cand
                best = cand
            return best

        if lk is not None:
            strict = rng.random() < 0.5
            q = rand_path(rng, sim[0], 2) if rng.random() < 0.4 else []      # the merged Section
            p = edit_path(q, ek)                                             # where the edit happens
            if lk == "link":
                push({"op": "doc", "at": [0, []]})
                if not p and sim[0]["secs"]:
                    p = [rng.randrange(len(sim[0]["secs"]))]
                q = p
            if lk == "mergefail":
                push({"op": "new", "spec": conflict_source(rng, sim_at(sim, [0, p]))})
                push(gen_look(rng, "merge", [0, p], len(sim) - 1, True))
            elif lk != "none":
                # the look happens at the merged Section or right where the edit will happen
                at = [0, q] if lk in ("merge", "check") and rng.random() < 0.5 else [0, p]
                k1 = new_source(sim_at(sim, at), strict)
                look = gen_look(rng, lk, at, k1, strict)
                if lk == "link" and p and len(sim[0]["secs"]) > 1:      # a sibling of the top-level ancestor
                    look["src"] = [0, [(p[0] + 1 + rng.randrange(len(sim[0]["secs"]) - 1))
                                       % len(sim[0]["secs"])]]
                push(look)
            # rounds of (edit, merges); the first edit is `ek`, later rounds draw their own look and
            # edit, always on the same destination objects
            for rnd in range(rng.choice([1, 2, 2, 3])):
                kind = ek if rnd == 0 else rng.choice(E_KINDS[:-1])
                if rnd > 0:
                    p = edit_path(q, kind)
                    if rng.random() < 0.6:
                        lk2 = rng.choice(["merge", "check", "contains_p", "contains_s", "lookup",
                                          "equiv", "walk"])
                        push(gen_look(rng, lk2, [0, p], len(sim) - 1, rng.random() < 0.5))
                before = copy.deepcopy(sim_at(sim, [0, q]))
                if kind != "none":
                    others = list(range(1, len(sim)))
                    push(gen_edit(rng, kind, [0, p], sim, others))
                # one source that still talks about the destination as it was before the edit, one
                # that talks about it as it is now; both are merged, in either order
                bases = [before, None] if kind != "none" else [None]
                if rng.random() < 0.5:
                    bases.reverse()
                for base in bases:
                    strict2 = rng.random() < 0.5
                    k2 = new_source(base if base is not None else sim_at(sim, [0, q]), strict2)
                    if rng.random() < 0.25:
                        push(gen_look(rng, "check", [0, q], k2, strict2))
                    push(gen_look(rng, "merge", [0, q], k2, strict2))
                    if rng.random() < 0.3:       # and once more: the same source again
                        push(gen_look(rng, "merge", [0, q], k2, rng.random() < 0.5))
        else:
            # a random history around one focus: a Section of the first tree that most operations
            # look at / edit and most sources are derived from; the other trees get their share
            q = rand_path(rng, sim[0], 2) if rng.random() < 0.4 else []
            last = None
            for _ in range(rng.choice([3, 4, 6, 8, 10])):
                r = rng.random()
                if rng.random() < 0.75 or len(sim) < 2:
                    t, at = 0, [0, edit_path(q, rng.choice(["x_p", "x_s", "x"]))]
                else:
                    t = rng.randrange(len(sim))
                    at = [t, rand_path(rng, sim[t], 3)]
                others = [k for k in range(len(sim)) if k != t]
                if r < 0.25 or not others:
                    if rng.random() < 0.85 or len(sim) < 2:
                        last = new_source(sim_at(sim, at if rng.random() < 0.5 else [0, q]),
                                          rng.random() < 0.5)
                    else:
                        push({"op": "clone_as", "at": at, "keep_id": rng.random() < 0.5})
                        last = len(sim) - 1
                elif r < 0.55:
                    kind = rng.choice([k for k in L_KINDS if k not in ("none", "mergefail")])
                    src_k = last if last is not None and last != t and rng.random() < 0.7 \
                        else rng.choice(others)
                    look = gen_look(rng, kind, at, src_k, rng.random() < 0.5)
                    if kind in ("merge", "check", "pmerge") and rng.random() < 0.3:
                        # a sub-Section as the source, also one of the destination's own tree
                        # (the interpreter drops pairs where one contains the other)
                        k = t if rng.random() < 0.5 else src_k
                        look["src"] = [k, rand_path(rng, sim[k], 3)]
                    push(look)
                else:
                    push(gen_edit(rng, rng.choice(E_KINDS[:-1]), at, sim, others))
            last = new_source(sim_at(sim, [0, q]), rng.random() < 0.5)
            push(gen_look(rng, "merge", [0, q], last, rng.random() < 0.5))
            if rng.random() < 0.3:       # some other pair as well
                t = rng.randrange(len(sim))
                others = [k for k in range(len(sim)) if k != t]
                push(gen_look(rng, "merge", [t, rand_path(rng, sim[t], 2)], rng.choice(others),
                              rng.random() < 0.5))
    case = {"stream": "hist", "d": d, "ops": ops}
    if lk is not None:
        case["shape"] = "%s>%s" % (lk, ek)
    return case


# ---- the interpreter: the history on live objects
def sec_at(trees, ref):
    sec = trees[ref[0] % len(trees)]
    for i in ref[1]:
        subs = sec.sections
        if len(subs) == 0:
            break
        sec = subs[i % len(subs)]
    return sec


def lineage(obj):
    out, cur = [], obj
    while cur is not None and len(out) < 500:
        out.append(cur)
        cur = getattr(cur, "parent", None)
    return out


def related(a, b):
    """the same object, or one contains the other"""
    return any(x is b for x in lineage(a)) or any(x is a for x in lineage(b))


def name_free(lst, name, but=None):
    if not name:
        return True        # an unnamed object is called by its fresh id
    return not any(c is not but and c.name == name for c in lst)


def has_include(sec):
    return sec.include is not None or any(has_include(c) for c in sec.sections)


def slim(step):
    """histories make many observations: an "after" snapshot equal to its "before" snapshot is
    stored as the same object (pickled and kept in memory once; the readers only compare)"""
    if step["after_s"] == step["before_s"]:
        step["after_s"] = step["before_s"]
    if step["after_d"] == step["before_d"]:
        step["after_d"] = step["before_d"]
    return step


def judged_call(kind, dst, src, strict, call, snap):
    before_d, before_s = snap(dst), snap(src)
    meth = dst.merge_check if kind == "check" else dst.merge
    try:
        if call == "default":
            meth(src)
        elif call == "pos":
            meth(src, strict)
        else:
            meth(src, strict=strict)
        outc = "ok"
    except Exception as exc:
        outc = fw.exc_name(exc)
    return slim({"kind": kind, "strict": strict, "outcome": outc, "before_d": before_d,
                 "before_s": before_s, "after_d": snap(dst), "after_s": snap(src)})


def apply_judged(trees, op):
    """merge / check / pmerge / link: -> step observation, or None when the two objects are not
    an admissible pair (the same object, ancestor and descendant, no such Property)."""
    kind = op["op"]
    dst = sec_at(trees, op["at"])
    src = sec_at(trees, op["src"])
    if related(dst, src):
        return None
    if kind in ("merge", "check"):
        return judged_call(kind, dst, src, op["strict"], op.get("call", "kw"), snap_sec)
    if kind == "pmerge":
        if not len(dst.properties) or not len(src.properties):
            return None
        dprop = dst.properties[op["i"] % len(dst.properties)]
        sprop = src.properties[op["j"] % len(src.properties)]
        return judged_call("pmerge", dprop, sprop, op["strict"], "kw", snap_prop)
    # link: the other entry point of a (non-strict) merge.  Judged only where the setter is
    # "store the path, merge the target": no link / include yet, a parent, a resolvable path.
    if dst.link is not None or dst.include is not None or dst.parent is None:
        return None
    try:
        path = dst.get_relative_path(src)
        if dst.get_section_by_path(path) is not src:
            return None
    except Exception:
        return None
    before_d, before_s = snap_sec(dst), snap_sec(src)
    try:
        dst.link = path
        outc = "ok"
    except Exception as exc:
        outc = fw.exc_name(exc)
    after_d = snap_sec(dst)
    after_d["link"] = before_d["link"]          # the setter's own doing, not the merge's
    return slim({"kind": "link", "strict": False, "outcome": outc, "before_d": before_d,
                 "before_s": before_s, "after_d": after_d, "after_s": snap_sec(src)})


def apply_plain(odml, trees, op):
    """every other operation of a history; may be refused by the library (the caller ignores it)"""
    kind = op["op"]
    if kind == "new":
        trees.append(build_sec(op["spec"]))
        return
    sec = sec_at(trees, op["at"])
    i = op.get("i", 0)
    props, secs = sec.properties, sec.sections
    lst = props if kind.endswith("_p") else secs
    pick = (lambda: lst[i % len(lst)]) if len(lst) else None
    if kind == "clone_as":
        trees.append(sec.clone(keep_id=op["keep_id"]))
    elif kind in ("contains_p", "contains_s"):
        probe = odml.Property(name=op["name"]) if kind == "contains_p" else \
            odml.Section(name=op["name"], type=op["type"])
        sec.contains(probe)
        for c in list(sec.sections):
            c.contains(probe)
    elif kind == "lookup":
        def quietly(fn, *args, **kw):
            try:
                return fn(*args, **kw)
            except Exception:
                return None
        for name in [p.name for p in props] + [c.name for c in secs] + ["zz"]:
            (name in props, name in secs)
            quietly(props.__getitem__, name)
            quietly(secs.__getitem__, name)
            quietly(sec.get_property_by_path, name)
            quietly(sec.get_section_by_path, name)
            quietly(sec.find, key=name)
            quietly(sec.find_related, key=name)
    elif kind == "equiv":
        for c in sec.itersections(yield_self=True):
            c.get_merged_equivalent()
            for p in c.properties:
                p.get_merged_equivalent()
    elif kind == "walk":
        list(sec.iterproperties())
        list(sec.itervalues())
        len(sec)
        [(sec == t, t == sec) for t in trees]
        [c.get_path() for c in sec.itersections()]
    elif kind in ("rename_p", "rename_s"):
        if pick and name_free(lst, op["name"], pick()):
            pick().name = op["name"]
    elif kind == "retype_s":
        if pick:
            pick().type = op["type"]
    elif kind in ("set_p", "set_s"):
        if pick and name_free(lst, op["spec"]["name"], pick()):
            lst[i % len(lst)] = build_prop(op["spec"]) if kind == "set_p" else build_sec(op["spec"])
    elif kind == "setmoved_p":
        other = sec_at(trees, op["src"]).properties
        if pick and len(other):
            moved = other[op["j"] % len(other)]
            if name_free(lst, moved.name, pick()):
                lst[i % len(lst)] = moved
    elif kind in ("rmapp_p", "rmapp_s"):
        if pick and name_free(lst, op["spec"]["name"], pick()):
            sec.remove(pick())
            sec.append(build_prop(op["spec"]) if kind == "rmapp_p" else build_sec(op["spec"]))
    elif kind in ("remove_p", "remove_s"):
        if pick:
            sec.remove(pick())
    elif kind in ("append_p", "append_s", "insert_p", "insert_s"):
        if name_free(lst, op["spec"]["name"]):
            obj = build_prop(op["spec"]) if kind.endswith("_p") else build_sec(op["spec"])
            if kind.startswith("append"):
                sec.append(obj)
            else:
                sec.insert(op["pos"], obj)
    elif kind in ("reorder_p", "reorder_s"):
        if pick:
            pick().reorder(op["to"])
    elif kind == "listsort_p":
        props.sort()
    elif kind in ("listrev_p", "listrev_s"):
        lst.reverse()
    elif kind == "listdelapp_p":
        # the child list the accessor hands out, edited directly (fresh objects only: nothing is
        # ever in two lists)
        if pick and name_free(lst, op["spec"]["name"], pick()):
            del props[i % len(props)]
            props.append(build_prop(op["spec"]))
    elif kind == "attr_p":
        if pick:
            value = unc_val(op["value"]) if op["attr"] == "unc" else op["value"]
            attr = {"unit": "unit", "unc": "uncertainty", "def": "definition", "ref": "reference",
                    "origin": "value_origin"}[op["attr"]]
            setattr(pick(), attr, value)
    elif kind == "attr_s":
        setattr(sec, {"def": "definition", "ref": "reference"}[op["attr"]], op["value"])
    elif kind == "values_p":
        if pick:
            pick().values = [from_tag(t) for t in op["values"]]
    elif kind == "dtype_p":
        if pick:
            pick().dtype = op["dtype"]
    elif kind == "card_p":
        if pick:
            card = op["card"]
            pick().val_cardinality = tuple(card) if isinstance(card, list) else card
    elif kind == "card_s":
        card = op["card"]
        card = tuple(card) if isinstance(card, list) else card
        if op["which"] == "sec":
            sec.sec_cardinality = card
        else:
            sec.prop_cardinality = card
    elif kind == "clone_root":
        k = op["at"][0] % len(trees)
        trees[k] = trees[k].clone(keep_id=op["keep_id"])
    elif kind == "clone_sub":
        if len(secs):
            secs[i % len(secs)] = secs[i % len(secs)].clone(keep_id=op["keep_id"])
    elif kind in ("move_p", "move_s"):
        other = sec_at(trees, op["src"])
        olst = other.properties if kind == "move_p" else other.sections
        if len(olst) and other is not sec:
            moved = olst[op["j"] % len(olst)]
            if name_free(lst, moved.name) and (kind == "move_p" or not related(moved, sec)):
                sec.append(moved)
    elif kind == "unmerge":
        other = sec_at(trees, op["src"])
        if not related(sec, other):
            sec.unmerge(other)
    elif kind == "clean":
        sec.clean()
    elif kind == "doc":
        k = op["at"][0] % len(trees)
        if trees[k].parent is None:
            doc = odml.Document()
            doc.append(trees[k])
            if len(trees) > 1 and trees[(k + 1) % len(trees)].parent is None and \
                    name_free(doc.sections, trees[(k + 1) % len(trees)].name):
                doc.append(trees[(k + 1) % len(trees)])
    elif kind == "reload":
        k = op["at"][0] % len(trees)
        if trees[k].parent is None and not has_include(trees[k]):
            doc = odml.Document()
            doc.append(trees[k].clone(keep_id=True))
            fmt = op.get("fmt", "dict")
            if fmt == "dict":
                from odml.tools.dict_parser import DictWriter, DictReader
                data = DictWriter().to_dict(doc)
                back = DictReader().to_odml({"Document": data, "odml-version": "1.1"})
            else:       # the string entry points of the three file formats
                from odml.tools.odmlparser import ODMLWriter, ODMLReader
                text = ODMLWriter(parser=fmt).to_string(doc)
                back = ODMLReader(parser=fmt, show_warnings=False).from_string(text)
            if len(back.sections) == 1:
                # the XML reader leaves the uncertainty as the text it read; the universe of this
                # check is "None or a number" (assumptions): hand it to the setter, which converts
                for prop in back.sections[0].iterproperties():
                    if isinstance(prop.uncertainty, str):
                        try:
                            prop.uncertainty = prop.uncertainty
                        except ValueError:
                            prop.uncertainty = None
                trees[k] = back.sections[0]
    elif kind == "none":
        pass
    else:
        raise ValueError(kind)


JUDGED = ("merge", "check", "pmerge", "link")


def run_history(case):
    import odml
    trees = [build_sec(case["d"])]
    steps = []
    for k, op in enumerate(case["ops"]):
        if op["op"] in JUDGED:
            st = apply_judged(trees, op)
            if st is not None:
                st["k"] = k
                steps.append(st)
            continue
        try:
            apply_plain(odml, trees, op)
        except Exception:
            pass        # refused by the library: part of the history all the same
    return {"steps": steps}


# ----------------------------------------------------------------------------- the check
class C13(fw.Check):
    prop = "C13"
    lean_targets = ["OdmlModel.Props.C13"]
    obligations = ["C13." + t for t in [
        "merge_check_predicts",
        "merge_all_or_nothing",
        "merge_raise_is_value_error",
        "name_clash_raises",
        "merge_raises_iff",
        "name_clash_witness",
        "strict_conflict_raises",
        "lenient_never_attr_conflict",
        "merge_complete",
        "merge_values_tree",
        "merge_values",
        "merge_dtype",
        "merge_attrs_fill_only",
        "merge_sec_attrs_fill_only",
        "merge_keeps_name_type",
        "merge_conservative_secs",
        "merge_conservative_props",
        "prop_merge_all_or_nothing",
        "extend_strict_refuses_newline"]]
    trusted_base = [
        "Lean 4.33.0 kernel; axioms propext, Classical.choice, Quot.sound only (audited per theorem)",
        "hand-written model lean/OdmlModel/Model/Merge.lean, tied to /repo by this correspondence run",
        "concrete value instance Merge.convC (dtypes.get / infer_dtype / ==), validated on the whole "
        "value pool by the conv/infer/eq streams",
        "Driver/C13.lean JSON glue; harness/framework.py, harness/c13.py",
    ]
    assumptions = [
        "values: str, int, half-integer floats, bool, date/time/datetime without microseconds; "
        "no n-tuples, no empty string values",
        "uncertainty is None or a number; dtype names are the canonical DType names",
        "text attributes are ASCII apart from whitespace (str.lower is modelled for ASCII)",
        "clone() is the identity on the observed attributes (checked by the snapshots of copies)",
        "judged steps of a history whose snapshots leave this universe (non-ASCII value strings or "
        "cased non-ASCII letters in texts, other floats, other uncertainties) are decided by the "
        "oracle alone",
        "'' as a text attribute / unit (reachable through the XML reader only; ambiguous whether "
        "set): the oracle accepts every reading; never generated: NaN values, a source that is the destination / its ancestor / its descendant, non-bool "
        "strict, duplicate sibling names",
    ]
    rule = ("pairs (dest, src) of Section trees of depth <= 3: src derived from dest with controlled "
            "overlap (same/other names, types, dtypes, units, text attributes equal up to "
            "case/whitespace or different, shared/new/convertible/unconvertible values) x strict "
            "on/off; a directed stream plants exactly one conflict at every matched position of a "
            "conflict-free pair; Property.merge and Section.merge_check are driven directly too; "
            "dtypes.get/infer_dtype/== on the full value pool x dtypes. Histories: trees that were "
            "used before - every 'look' operation (accepted / refused merge, merge_check, "
            "Property.merge, contains, list lookups, merged-equivalent, iteration, link resolution) x "
            "every edit (rename, retype, item assignment, remove / append / insert / reorder, direct "
            "edits of the child lists, attribute / value / dtype / cardinality edits, clones with and "
            "without ids, moves between trees, unmerge / clean, Document, dict round trip) at any depth "
            "below the merged Section, then sources derived from the destination before and after the "
            "edit; plus random histories; every merge / merge_check / Property.merge / link resolution "
            "of a history is judged on its own snapshots; wider pools there (unnamed objects, "
            "non-ASCII, exotic blanks, unresolved link / include, 10+ siblings, depth 6, huge ints, "
            "infinite and non-half-integer floats). Non-trivial = the two trees "
            "share at least one child; distinct = distinct canonical JSON.")

    # -- generation ----------------------------------------------------------
    def generate(self, tier, rng):
        cases = []
        n = 2000 if tier == "quick" else 30000
        for i in range(n):
            strict = bool(i % 2)
            mode = "safe" if rng.random() < 0.45 else "free"
            d = new_sec(rng, "dest", rng.choice([1, 2, 2, 3]))
            s = derive_sec(rng, d, mode, strict, 3, name="src")
            cases.append({"stream": "merge", "d": d, "s": s, "strict": strict})
        # one conflict at every position of a conflict-free pair
        m = 80 if tier == "quick" else 800
        for i in range(m):
            d = new_sec(rng, "dest", rng.choice([2, 3]), attrs=False)
            s = derive_sec(rng, d, "safe", True, 3, name="src")
            for kind, path in matched_positions(d, s):
                d2, s2, what = plant_conflict(rng, d, s, kind, path)
                for strict in (True, False):
                    cases.append({"stream": "merge", "d": d2, "s": s2, "strict": strict,
                                  "planted": what, "depth": len(path)})
        # Property.merge directly
        k = 1200 if tier == "quick" else 15000
        for i in range(k):
            strict = bool(i % 2)
            dp = new_prop(rng, "p")
            sp = derive_prop(rng, dp, "safe" if rng.random() < 0.4 else "free", strict)
            sp["name"] = rng.choice(["p", "q"])
            cases.append({"stream": "pmerge", "d": dp, "s": sp, "strict": strict})
        # merge_check alone
        for c in cases[: (500 if tier == "quick" else 6000)]:
            if c["stream"] == "merge":
                cases.append(dict(c, stream="check"))
        # the value functions on the whole pool
        allv = []
        for t in DTYPES:
            for v in POOL[t]:
                tag = to_tag(v)
                if tag not in allv:
                    allv.append(tag)
        for tag in allv:
            cases.append({"stream": "infer", "v": tag})
            for t in DTYPES + [None]:
                cases.append({"stream": "get", "dtype": t, "v": tag})
        for a in allv:
            for b in allv:
                cases.append({"stream": "eq", "a": a, "b": b})
        texts = [t for t in TEXTS if t] + ["A\x1cb", " x Y　", "", " ", "a\r\nB\x0b\x0cc",
                                            "Tab\tNew\nLine", "\x85q w ", "I"]
        for t in texts:
            cases.append({"stream": "norm", "s": t})
            for _ in range(3):
                cases.append({"stream": "norm", "s": variant(rng, t) if t else t})
        # histories (own generator state, drawn last: the streams above stay what they were).
        # Directed: every "look" operation x every edit operation; then random histories.
        rng2 = random.Random(rng.getrandbits(64))
        # (a history carries a snapshot pair per judged call: ~0.3 MB per case in the parent process,
        # hence the moderate numbers in the thorough tier)
        for _ in range(2 if tier == "quick" else 8):
            for lk in L_KINDS:
                for ek in E_KINDS:
                    cases.append(gen_history(rng2, lk, ek))
        for _ in range(700 if tier == "quick" else 3000):
            cases.append(gen_history(rng2))
        return cases

    # -- implementation ------------------------------------------------------
    def impl(self, case):
        st = case["stream"]
        if st == "hist":
            return run_history(case)
        if st in ("merge", "check"):
            d = build_sec(case["d"])
            s = build_sec(case["s"])
            before_d, before_s = snap_sec(d), snap_sec(s)
            try:
                if st == "merge":
                    d.merge(s, strict=case["strict"])
                else:
                    d.merge_check(s, case["strict"])
                outc = "ok"
            except Exception as exc:
                outc = fw.exc_name(exc)
            return {"outcome": outc, "before_d": before_d, "before_s": before_s,
                    "after_d": snap_sec(d), "after_s": snap_sec(s)}
        if st == "pmerge":
            d = build_prop(case["d"])
            s = build_prop(case["s"])
            before_d, before_s = snap_prop(d), snap_prop(s)
            try:
                d.merge(s, strict=case["strict"])
                outc = "ok"
            except Exception as exc:
                outc = fw.exc_name(exc)
            return {"outcome": outc, "before_d": before_d, "before_s": before_s,
                    "after_d": snap_prop(d), "after_s": snap_prop(s)}
        from odml import dtypes
        if st == "get":
            try:
                return {"r": to_tag(dtypes.get(from_tag(case["v"]), case["dtype"]))}
            except Exception as exc:
                return {"r": None, "raised": fw.exc_name(exc)}
        if st == "infer":
            return {"r": dtypes.infer_dtype(from_tag(case["v"]))}
        if st == "eq":
            a, b = from_tag(case["a"]), from_tag(case["b"])
            return {"r": bool(a in [b]), "r2": bool(b in [a])}
        if st == "norm":
            t = case["s"]
            return {"r": "".join(map(str.strip, t.split())).lower(),
                    "r2": "".join(map(str.strip, t.lower().split()))}
        raise ValueError(st)

    # -- model ---------------------------------------------------------------
    def model_requests(self, case, obs):
        st = case["stream"]
        if st in ("merge", "check", "pmerge"):
            if not (modelable(obs["before_d"]) and modelable(obs["before_s"])):
                return []
            op = {"merge": "merge", "check": "merge", "pmerge": "pmerge"}[st]
            return [{"op": op, "d": obs["before_d"], "s": obs["before_s"], "strict": case["strict"]}]
        if st == "hist":
            return [r for r in (self.step_request(s) for s in obs["steps"]) if r is not None]
        if st == "get":
            return [{"op": "get", "dtype": case["dtype"], "v": case["v"]}]
        if st == "infer":
            return [{"op": "infer", "v": case["v"]}]
        if st == "eq":
            return [{"op": "eq", "a": case["a"], "b": case["b"]}]
        if st == "norm":
            return [{"op": "norm", "s": case["s"]}] if case["s"].isascii() or True else []
        return []

    @staticmethod
    def step_request(step):
        """driver request of one judged step of a history (None: outside the modelled universe).
        A link step is a non-strict merge whose snapshot has the link attribute masked."""
        if not (modelable_x(step["before_d"]) and modelable_x(step["before_s"])):
            return None
        op = "pmerge" if step["kind"] == "pmerge" else "merge"
        return {"op": op, "d": step["before_d"], "s": step["before_s"], "strict": step["strict"]}

    @staticmethod
    def compare_step(st, strict, obs, a):
        """model answer `a` against the observation of one merge / check / pmerge call"""
        out = []
        m_out = a["check"] if st == "check" else a["out"]
        if (m_out == "ok") != (obs["outcome"] == "ok"):
            out.append("model outcome %s, implementation outcome %s" % (m_out, obs["outcome"]))
        elif m_out != "ok" and m_out != obs["outcome"]:
            out.append("model raises %s, implementation raises %s" % (m_out, obs["outcome"]))
        want = obs["before_d"] if st == "check" else a["d"]
        if want != obs["after_d"]:
            out.append("destination after the call differs: model %s implementation %s"
                       % (fw.canon(want)[:600], fw.canon(obs["after_d"])[:600]))
        if st == "merge":
            if a["clash"] != type_clash(obs["before_d"], obs["before_s"]):
                out.append("type-clash predicate: driver %s, harness mirror %s"
                           % (a["clash"], not a["clash"]))
            if a["conflict"] != tree_conflict(obs["before_d"], obs["before_s"]):
                out.append("conflict predicate: driver (Merge.treeConflict) %s, oracle %s"
                           % (a["conflict"], not a["conflict"]))
            if not (a["wf"] and a["typed"]):
                out.append("API-built trees outside the theorems' side conditions: "
                           "wfSec(src)=%s typedSec(dest)=%s" % (a["wf"], a["typed"]))
        return out

    def compare(self, case, obs, answers):
        st = case["stream"]
        out = []
        if st == "hist":
            todo = [s for s in obs["steps"] if self.step_request(s) is not None]
            if len(todo) != len(answers):
                return ["%d modelable steps, %d answers" % (len(todo), len(answers))]
            for step, a in zip(todo, answers):
                kind = "merge" if step["kind"] == "link" else step["kind"]
                out += ["step %d (%s): %s" % (step["k"], step["kind"], d)
                        for d in self.compare_step(kind, step["strict"], step, a)]
            return out
        if st in ("merge", "check", "pmerge"):
            if not answers:
                return ["the implementation produced a state outside the modelled universe: %s"
                        % fw.canon(obs["before_d"])[:300]]
            out += self.compare_step(st, case["strict"], obs, answers[0])
        elif st in ("get", "infer", "norm"):
            if answers[0] != obs["r"]:
                out.append("model %r, implementation %r" % (answers[0], obs["r"]))
            if st == "norm" and obs["r"] != obs["r2"]:
                out.append("the two normalisation spellings differ on %r" % case["s"])
        elif st == "eq":
            if answers[0] != obs["r"] or obs["r"] != obs["r2"]:
                out.append("model %r, implementation %r/%r" % (answers[0], obs["r"], obs["r2"]))
        return out

    # -- oracle --------------------------------------------------------------
    @staticmethod
    def oracle_step(st, strict, obs, planted=None):
        """the clauses of the property for one merge / check / pmerge call, over its snapshots"""
        out = []
        D, S, R = obs["before_d"], obs["before_s"], obs["after_d"]
        # "" as an attribute (reachable through the XML reader only): a conflict is demanded to be
        # refused only if it is one under both readings of "" (set / unset) - the weaker reading
        D0, S0 = without_empty(D), without_empty(S)
        raised = obs["outcome"] != "ok"
        if obs["after_s"] != S:
            out.append("the source was changed by the call")
        if st == "check":
            if R != D:
                out.append("merge_check changed the destination")
            if strict and tree_conflict(D, S) and tree_conflict(D0, S0) and \
                    obs["outcome"] != "ValueError":
                out.append("conflict: strict merge_check of conflicting trees gave %s" % obs["outcome"])
            return out
        if raised and R != D:
            out.append("partial: merge raised %s but changed the destination" % obs["outcome"])
        if st == "merge":
            if strict and tree_conflict(D, S) and tree_conflict(D0, S0) and \
                    obs["outcome"] != "ValueError":
                out.append("conflict: strict merge of conflicting trees gave %s (planted %s)"
                           % (obs["outcome"], planted))
            if not raised:
                check_merged(D, S, R, strict, "", out)
        else:
            if strict and prop_conflict(D, S) and prop_conflict(D0, S0) and \
                    obs["outcome"] != "ValueError":
                out.append("conflict: strict merge of conflicting Properties gave %s" % obs["outcome"])
            if not raised:
                check_prop_merged(D, S, R, strict, "prop", out)
                if R["name"] != D["name"]:
                    out.append("name of the destination Property changed")
        return out

    def oracle(self, case, obs):
        if "harness_exception" in obs:
            return []
        st = case["stream"]
        if st == "hist":
            # every judged call of the history, each on its own before / after snapshots
            out = []
            for step in obs["steps"]:
                kind = "merge" if step["kind"] == "link" else step["kind"]
                out += ["%s [%s, step %d]" % (f, step["kind"], step["k"])
                        for f in self.oracle_step(kind, step["strict"], step)]
            return out
        if st not in ("merge", "check", "pmerge"):
            return []
        return self.oracle_step(st, case["strict"], obs, case.get("planted"))

    def finding_key(self, case, obs, failure):
        # no open finding: C13/section-name-clash-other-type (a source sub-Section whose name the
        # destination uses for a Section of another type: KeyError from SmartList.append after
        # earlier children were merged) is fixed, a regression is a violation again
        return None

    def tag(self, case, obs):
        st = case["stream"]
        if st == "hist":
            if "steps" not in obs:
                return ("hist:broken", False)
            shared = False
            for step in obs["steps"]:
                D, S = step["before_d"], step["before_s"]
                shared = shared or step["kind"] == "pmerge" or \
                    any(find_prop(D["props"], p["name"]) for p in S["props"]) or \
                    any(find_sec(D["secs"], c["name"], c["type"]) for c in S["secs"])
            raised = sorted(set(s["outcome"] for s in obs["steps"] if s["outcome"] != "ok"))
            name = "hist:%s:%s" % ("directed" if "shape" in case else "random",
                                   "+".join(raised) if raised else
                                   ("ok" if obs["steps"] else "nothing-judged"))
            return (name, bool(shared))
        if st in ("merge", "check", "pmerge"):
            if "outcome" not in obs:
                return (st + ":broken", False)
            D, S = obs["before_d"], obs["before_s"]
            if st == "pmerge":
                shared = True
            else:
                shared = any(find_prop(D["props"], p["name"]) for p in S["props"]) or \
                    any(find_sec(D["secs"], c["name"], c["type"]) for c in S["secs"])
            name = "%s:%s:%s" % (st, "strict" if case["strict"] else "lenient", obs["outcome"])
            if "planted" in case:
                name += ":planted"
            return (name, bool(shared))
        return (st, True)


if __name__ == "__main__":
    sys.exit(fw.main(C13(), sys.argv[1:]))
