# -*- coding: utf-8 -*-
"""
C13 - Merging one Section into another is complete, conservative and all-or-nothing.

Tie between lean/OdmlModel/Model/Merge.lean and /repo: generated pairs of Section trees with
controlled overlap are built through the public API, snapshotted, merged by the real
`Section.merge` / `Property.merge` / `Section.merge_check`, snapshotted again, and the compiled
model is run on the snapshot taken *before* the call. The oracle restates the clauses of the
property over the snapshots only (it never looks at the model).
"""
import copy
import datetime as dt
import sys

import framework as fw

DTYPES = ["string", "text", "int", "float", "url", "datetime", "date", "time", "boolean", "person"]
TEXT_ATTRS = ["def", "ref", "origin"]

# ----------------------------------------------------------------------------- value universe
POOL = {
    "string": ["a", "b", "A", "1", "2", "1.5", "-2", "true", "F", "2020-01-02", "12:30:00",
               "2020-01-02 12:30:00", "x y", "l1\nl2", " pad ", "b\n"],
    "text": ["a", "long\ntext", "1", "b", "two\nlines\n", "true"],
    "url": ["http://a.b/c", "a", "u\nv", "2"],
    "person": ["Ann B", "a", "p\nq"],
    "int": [1, 2, 3, 0, -1, 10 ** 12],
    "float": [1.0, 2.0, 1.5, 0.5, -1.5, 0.0, 3.0],
    "boolean": [True, False],
    "date": [dt.date(2020, 1, 2), dt.date(2021, 12, 28)],
    "time": [dt.time(12, 30, 0), dt.time(1, 2, 3)],
    "datetime": [dt.datetime(2020, 1, 2, 12, 30, 0), dt.datetime(2021, 12, 28, 1, 2, 3)],
}
UNITS = [None, "mV", "mv", "s", "Hz"]
UNCS = [None, 0.5, 1.5, 2.0, 0.0]
TEXTS = [None, "Def one", "def  ONE", " DEF\tone\n", "defone", "other text",
         "OTHER text", "x", "X "]
NAMES = ["a", "b", "c", "ab", "A"]
TYPES = ["t", "u", "t/x"]


def to_tag(v):
    """Python value -> tagged JSON value (None if outside the modelled universe)."""
    if isinstance(v, bool):
        return {"b": v}
    if isinstance(v, int):
        return {"i": v}
    if isinstance(v, float):
        h = v * 2
        if h == int(h) and abs(h) < 2 ** 50:
            return {"f": int(h)}
        return {"w": repr(v)}
    if isinstance(v, str):
        return {"s": v}
    if isinstance(v, dt.datetime):
        return {"dt": v.strftime("%Y-%m-%d %H:%M:%S")} if v.microsecond == 0 else {"w": repr(v)}
    if isinstance(v, dt.date):
        return {"d": v.isoformat()}
    if isinstance(v, dt.time):
        return {"t": v.strftime("%H:%M:%S")} if v.microsecond == 0 else {"w": repr(v)}
    return {"w": repr(v)}


def from_tag(t):
    if "s" in t:
        return t["s"]
    if "i" in t:
        return t["i"]
    if "f" in t:
        return t["f"] / 2.0
    if "b" in t:
        return t["b"]
    if "dt" in t:
        return dt.datetime.strptime(t["dt"], "%Y-%m-%d %H:%M:%S")
    if "d" in t:
        return dt.datetime.strptime(t["d"], "%Y-%m-%d").date()
    if "t" in t:
        return dt.datetime.strptime(t["t"], "%H:%M:%S").time()
    raise ValueError(t)


def unc_tag(u):
    if u is None:
        return None
    if isinstance(u, (int, float)) and not isinstance(u, bool) and u * 2 == int(u * 2):
        return int(u * 2)
    return {"w": repr(u)}


def text_out(x):
    return x if (x is None or isinstance(x, str)) else {"w": repr(x)}


def snap_prop(p):
    return {"name": p.name, "dtype": text_out(p.dtype), "values": [to_tag(v) for v in p.values],
            "unit": text_out(p.unit), "unc": unc_tag(p.uncertainty), "def": text_out(p.definition),
            "ref": text_out(p.reference), "origin": text_out(p.value_origin)}


def snap_sec(s):
    return {"name": s.name, "type": s.type, "def": text_out(s.definition),
            "ref": text_out(s.reference), "link": text_out(s.link), "incl": text_out(s.include),
            "merged": bool(s.is_merged),
            "props": [snap_prop(p) for p in s.properties],
            "secs": [snap_sec(c) for c in s.sections]}


def modelable(x):
    """No value outside the modelled universe anywhere in a snapshot."""
    if isinstance(x, dict):
        if "w" in x:
            return False
        if "dtype" in x and x["dtype"] is not None and x["dtype"] not in DTYPES:
            return False
        return all(modelable(v) for v in x.values())
    if isinstance(x, list):
        return all(modelable(v) for v in x)
    return True


def build_prop(spec, parent=None):
    import odml
    vals = [from_tag(t) for t in spec["values"]]
    return odml.Property(name=spec["name"], values=vals if vals else None, dtype=spec["dtype"],
                         unit=spec["unit"],
                         uncertainty=None if spec["unc"] is None else spec["unc"] / 2.0,
                         definition=spec["def"], reference=spec["ref"],
                         value_origin=spec["origin"], parent=parent)


def build_sec(spec, parent=None):
    import odml
    sec = odml.Section(name=spec["name"], type=spec["type"], definition=spec["def"],
                       reference=spec["ref"], parent=parent)
    for p in spec["props"]:
        build_prop(p, sec)
    for c in spec["secs"]:
        build_sec(c, sec)
    return sec


# ----------------------------------------------------------------------------- generators
def new_prop(rng, name, dtype=None, attrs=True):
    if dtype is None:
        dtype = rng.choice(["string", "string", "int", "float", "text", "boolean", "date", "url",
                            "person", "time", "datetime", "none"])
    if dtype == "none":
        values, dtype = [], None
    else:
        values = [to_tag(rng.choice(POOL[dtype])) for _ in range(rng.choice([0, 1, 1, 2, 3]))]
    pick = (lambda pool: rng.choice(pool) if attrs and rng.random() < 0.35 else None)
    return {"name": name, "dtype": dtype, "values": values, "unit": pick(UNITS),
            "unc": unc_tag(pick(UNCS)), "def": pick(TEXTS), "ref": pick(TEXTS),
            "origin": pick(TEXTS)}


def new_sec(rng, name, depth, attrs=True):
    pick = (lambda pool: rng.choice(pool) if attrs and rng.random() < 0.35 else None)
    npr = rng.choice([0, 1, 2, 3]) if depth > 0 else rng.choice([0, 1, 2])
    nse = rng.choice([0, 1, 2, 3]) if depth > 0 else 0
    return {"name": name, "type": rng.choice(TYPES), "def": pick(TEXTS), "ref": pick(TEXTS),
            "link": None, "incl": None, "merged": False,
            "props": [new_prop(rng, n, attrs=attrs) for n in rng.sample(NAMES, npr)],
            "secs": [new_sec(rng, n, depth - 1, attrs) for n in rng.sample(NAMES, nse)]}


def variant(rng, text):
    """The same text up to case and whitespace."""
    k = rng.randrange(5)
    if k == 0:
        return text.upper()
    if k == 1:
        return " " + text.replace(" ", " \t ") + "\n"
    if k == 2:
        return text.lower().replace(" ", "")
    if k == 3:
        return " ".join(text) if len(text) < 6 else text.swapcase()
    return text


def derive_text(rng, mine, mode):
    """mode: 'free' (anything), 'safe' (never a conflict)."""
    r = rng.random()
    if r < 0.3:
        return None
    if mine is None:
        return rng.choice(TEXTS[1:])
    if r < 0.75 or mode == "safe":
        return variant(rng, mine)
    return rng.choice([t for t in TEXTS[1:]])


def derive_exact(rng, mine, pool, mode):
    r = rng.random()
    if r < 0.3:
        return None
    if mine is None:
        return rng.choice(pool[1:])
    if r < 0.8 or mode == "safe":
        return mine
    return rng.choice(pool[1:])


CONVERTIBLE = {   # string texts every dtype can take over in a lenient merge
    "int": ["1", "2", "1.5", "-2"], "float": ["1", "1.5", "-2", "2"], "boolean": ["true", "F", "1"],
    "date": ["2020-01-02"], "time": ["12:30:00"], "datetime": ["2020-01-02 12:30:00"],
}


def derive_prop(rng, mine, mode, strict):
    """A source Property of the same name as `mine`."""
    dtype = mine["dtype"]
    same_dtype = rng.random() < 0.7 or (mode == "safe" and strict)
    if not same_dtype or dtype is None:
        dtype = rng.choice(DTYPES + ["none"])
        if mode == "safe" and strict and mine["dtype"] is not None and dtype != "none":
            dtype = mine["dtype"]
    values = []
    if dtype != "none":
        for _ in range(rng.choice([0, 1, 2, 3])):
            if mine["values"] and rng.random() < 0.4:
                v = rng.choice(mine["values"])
                if mine["dtype"] == dtype:
                    values.append(v)
                    continue
            values.append(to_tag(rng.choice(POOL[dtype])))
        if mode == "safe" and mine["dtype"] in CONVERTIBLE and dtype != mine["dtype"]:
            if dtype in ("string", "text"):
                values = [to_tag(rng.choice(CONVERTIBLE[mine["dtype"]])) for _ in values]
            elif not (dtype in ("int", "float", "boolean") and mine["dtype"] in ("int", "float")):
                values = []
    else:
        dtype = None
    if mode == "safe":
        mode_attr = "safe"
    else:
        mode_attr = "free" if rng.random() < 0.5 else "safe"
    return {"name": mine["name"], "dtype": dtype, "values": values,
            "unit": derive_exact(rng, mine["unit"], UNITS, mode_attr),
            "unc": unc_tag(derive_exact(rng, None if mine["unc"] is None else mine["unc"] / 2.0,
                                        UNCS, mode_attr)),
            "def": derive_text(rng, mine["def"], mode_attr),
            "ref": derive_text(rng, mine["ref"], mode_attr),
            "origin": derive_text(rng, mine["origin"], mode_attr)}


def derive_sec(rng, mine, mode, strict, depth, name=None):
    """A source Section overlapping the destination Section `mine` in a controlled way."""
    mode_attr = "safe" if mode == "safe" or rng.random() < 0.6 else "free"
    props = []
    for p in mine["props"]:
        if rng.random() < 0.65:
            props.append(derive_prop(rng, p, mode, strict))
    free = [n for n in NAMES if n not in [p["name"] for p in props] and
            (n not in [p["name"] for p in mine["props"]])]
    for n in rng.sample(free, min(len(free), rng.choice([0, 0, 1, 2]))):
        props.append(new_prop(rng, n))
    secs = []
    for c in mine["secs"]:
        if rng.random() < 0.65:
            sc = derive_sec(rng, c, mode, strict, depth - 1)
            if mode != "safe" and rng.random() < 0.12:
                sc["type"] = rng.choice([t for t in TYPES if t != c["type"]])
            secs.append(sc)
    free = [n for n in NAMES if n not in [c["name"] for c in secs] and
            (n not in [c["name"] for c in mine["secs"]])]
    for n in rng.sample(free, min(len(free), rng.choice([0, 0, 1, 2]))):
        secs.append(new_sec(rng, n, max(depth - 1, 0)))
    rng.shuffle(props)
    rng.shuffle(secs)
    return {"name": name or mine["name"], "type": mine["type"],
            "def": derive_text(rng, mine["def"], mode_attr),
            "ref": derive_text(rng, mine["ref"], mode_attr),
            "link": None, "incl": None, "merged": False, "props": props, "secs": secs}


def matched_positions(d, s, path=()):
    """All (kind, path) places where a conflict can be planted: matched Sections and Properties."""
    out = [("sec", path)]
    for i, sp in enumerate(s["props"]):
        if any(dp["name"] == sp["name"] for dp in d["props"]):
            out.append(("prop", path + (("p", i),)))
    for i, sc in enumerate(s["secs"]):
        for dc in d["secs"]:
            if dc["name"] == sc["name"] and dc["type"] == sc["type"]:
                out += matched_positions(dc, sc, path + (("s", i),))
                break
    return out


def node_at(d, s, path):
    """-> (dest node, src node) following a path of source indices."""
    for kind, i in path:
        if kind == "s":
            sc = s["secs"][i]
            d = next(dc for dc in d["secs"] if dc["name"] == sc["name"] and dc["type"] == sc["type"])
            s = sc
        else:
            sp = s["props"][i]
            d = next(dp for dp in d["props"] if dp["name"] == sp["name"])
            s = sp
    return d, s


def plant_conflict(rng, d, s, kind, path):
    """Copies of (d, s) with exactly one strict-mode conflict planted at the position."""
    d, s = copy.deepcopy(d), copy.deepcopy(s)
    dn, sn = node_at(d, s, path)
    if kind == "sec":
        attr = rng.choice(["def", "ref"])
        dn[attr], sn[attr] = "Def one", "another def"
        return d, s, "sec." + attr
    attr = rng.choice(["dtype", "unit", "unc", "def", "ref", "origin"])
    if attr == "dtype":
        if dn["dtype"] is None:
            dn["dtype"] = "string"
        other = "int" if dn["dtype"] != "int" else "float"
        sn["dtype"] = other
        sn["values"] = [v for v in sn["values"] if False]
        if rng.random() < 0.5:
            sn["values"] = [to_tag(POOL[other][0])]
            if dn["dtype"] not in ("string", "text", "url", "person", "int", "float"):
                sn["values"] = []
    elif attr == "unit":
        dn["unit"], sn["unit"] = "mV", "mv"
    elif attr == "unc":
        dn["unc"], sn["unc"] = 1, 3
    else:
        dn[attr], sn[attr] = "Def one", "def two"
    return d, s, "prop." + attr


# ----------------------------------------------------------------------------- oracle helpers
def norm(text):
    return "".join(text.split()).lower()


def text_conflict(a, b):
    return a is not None and b is not None and norm(a) != norm(b)


def exact_conflict(a, b):
    return a is not None and b is not None and a != b


def find_sec(secs, name, typ):
    for c in secs:
        if c["name"] == name and c["type"] == typ:
            return c
    return None


def find_prop(props, name):
    for p in props:
        if p["name"] == name:
            return p
    return None


def prop_conflict(dp, sp):
    return (exact_conflict(dp["dtype"], sp["dtype"]) or exact_conflict(dp["unit"], sp["unit"]) or
            exact_conflict(dp["unc"], sp["unc"]) or text_conflict(dp["def"], sp["def"]) or
            text_conflict(dp["ref"], sp["ref"]) or text_conflict(dp["origin"], sp["origin"]))


def tree_conflict(d, s):
    """A strict-mode conflict between corresponding objects anywhere in the two trees."""
    if text_conflict(d["def"], s["def"]) or text_conflict(d["ref"], s["ref"]):
        return True
    for sp in s["props"]:
        dp = find_prop(d["props"], sp["name"])
        if dp is not None and prop_conflict(dp, sp):
            return True
    for sc in s["secs"]:
        dc = find_sec(d["secs"], sc["name"], sc["type"])
        if dc is not None and tree_conflict(dc, sc):
            return True
    return False


def type_clash(d, s):
    """Python mirror of Merge.typeClash (cross-checked against the driver on every case)."""
    for sc in s["secs"]:
        dc = find_sec(d["secs"], sc["name"], sc["type"])
        if dc is not None:
            if type_clash(dc, sc):
                return True
        elif any(c["name"] == sc["name"] for c in d["secs"]):
            return True
    return False


def py_in(v, values):
    return any(v == w for w in values)


def check_prop_merged(dp, sp, rp, strict, where, out):
    """Clauses of the property for one merged Property (dp + sp -> rp)."""
    from odml import dtypes
    own = [from_tag(t) for t in dp["values"]]
    src = [from_tag(t) for t in sp["values"]]
    res = [from_tag(t) for t in rp["values"]]
    if [to_tag(v) for v in res[:len(own)]] != dp["values"]:
        out.append("%s: own values %s not kept (now %s)" % (where, dp["values"], rp["values"]))
    for v in src:
        if py_in(v, own):
            continue
        want = v
        if not strict:
            try:
                want = dtypes.get(v, rp["dtype"])
            except Exception:
                out.append("%s: value %r of the source is not convertible to %s but merge "
                           "succeeded" % (where, v, rp["dtype"]))
                continue
        if not any(to_tag(want) == to_tag(w) for w in res[len(own):]):
            out.append("%s: value %r of the source missing from %s" % (where, want, rp["values"]))
    for attr in ("unit", "unc", "def", "ref", "origin"):
        want = dp[attr] if dp[attr] is not None else sp[attr]
        if want == "":
            want = None
        if rp[attr] != want:
            out.append("%s: %s is %r, expected %r (own %r, source %r)"
                       % (where, attr, rp[attr], want, dp[attr], sp[attr]))


def check_merged(d, s, r, strict, where, out):
    """Clauses of the property for one merged Section pair (d + s -> r), recursively."""
    for attr in ("def", "ref"):
        want = d[attr] if d[attr] is not None else s[attr]
        if want == "":
            want = None
        if r[attr] != want:
            out.append("%s: section %s is %r, expected %r" % (where, attr, r[attr], want))
    if r["name"] != d["name"] or r["type"] != d["type"]:
        out.append("%s: name/type of the destination changed" % where)
    # complete + values + filled attributes
    for sp in s["props"]:
        rp = find_prop(r["props"], sp["name"])
        if rp is None:
            out.append("%s: no Property named %r after merge" % (where, sp["name"]))
            continue
        dp = find_prop(d["props"], sp["name"])
        if dp is not None:
            check_prop_merged(dp, sp, rp, strict, "%s:%s" % (where, sp["name"]), out)
        else:
            for t in sp["values"]:
                if t not in rp["values"]:
                    out.append("%s:%s copied Property lacks value %s" % (where, sp["name"], t))
    for sc in s["secs"]:
        rc = find_sec(r["secs"], sc["name"], sc["type"])
        if rc is None:
            out.append("%s: no Section %r/%r after merge" % (where, sc["name"], sc["type"]))
            continue
        dc = find_sec(d["secs"], sc["name"], sc["type"])
        if dc is not None:
            check_merged(dc, sc, rc, strict, "%s/%s" % (where, sc["name"]), out)
        else:
            check_complete(rc, sc, "%s/%s" % (where, sc["name"]), out)
    # conservative: children the source lacks are unchanged, in place
    for i, dp in enumerate(d["props"]):
        if find_prop(s["props"], dp["name"]) is None:
            if i >= len(r["props"]) or r["props"][i] != dp:
                out.append("%s: Property %r the source lacks was changed" % (where, dp["name"]))
    for i, dc in enumerate(d["secs"]):
        if find_sec(s["secs"], dc["name"], dc["type"]) is None:
            if i >= len(r["secs"]) or r["secs"][i] != dc:
                out.append("%s: Section %r the source lacks was changed" % (where, dc["name"]))


def check_complete(r, s, where, out):
    """r (a copy made for an unmatched child) has everything s has, recursively."""
    for sp in s["props"]:
        rp = find_prop(r["props"], sp["name"])
        if rp is None:
            out.append("%s: copied Section lacks Property %r" % (where, sp["name"]))
        elif any(t not in rp["values"] for t in sp["values"]):
            out.append("%s: copied Property %r lacks values" % (where, sp["name"]))
    for sc in s["secs"]:
        rc = find_sec(r["secs"], sc["name"], sc["type"])
        if rc is None:
            out.append("%s: copied Section lacks Section %r" % (where, sc["name"]))
        else:
            check_complete(rc, sc, "%s/%s" % (where, sc["name"]), out)


KEY_CLASH = "C13/section-name-clash-other-type"


# ----------------------------------------------------------------------------- the check
class C13(fw.Check):
    prop = "C13"
    lean_targets = ["OdmlModel.Props.C13"]
    obligations = ["C13." + t for t in [
        "merge_check_predicts",
        "merge_all_or_nothing_partial",
        "merge_raise_is_value_error",
        "clash_raises_key_error",
        "merge_all_or_nothing_counterexample",
        "strict_conflict_raises",
        "lenient_never_attr_conflict",
        "merge_complete",
        "merge_values_tree",
        "merge_values",
        "merge_dtype",
        "merge_attrs_fill_only",
        "merge_sec_attrs_fill_only",
        "merge_keeps_name_type",
        "merge_conservative_secs",
        "merge_conservative_props",
        "prop_merge_all_or_nothing",
        "extend_strict_refuses_newline"]]
    trusted_base = [
        "Lean 4.33.0 kernel; axioms propext, Classical.choice, Quot.sound only (audited per theorem)",
        "hand-written model lean/OdmlModel/Model/Merge.lean, tied to /repo by this correspondence run",
        "concrete value instance Merge.convC (dtypes.get / infer_dtype / ==), validated on the whole "
        "value pool by the conv/infer/eq streams",
        "Driver/C13.lean JSON glue; harness/framework.py, harness/c13.py",
    ]
    assumptions = [
        "values: str, int, half-integer floats, bool, date/time/datetime without microseconds; "
        "no n-tuples, no empty string values",
        "uncertainty is None or a number; dtype names are the canonical DType names",
        "text attributes are ASCII apart from whitespace (str.lower is modelled for ASCII)",
        "clone() is the identity on the observed attributes (checked by the snapshots of copies)",
    ]
    rule = ("pairs (dest, src) of Section trees of depth <= 3: src derived from dest with controlled "
            "overlap (same/other names, types, dtypes, units, text attributes equal up to "
            "case/whitespace or different, shared/new/convertible/unconvertible values) x strict "
            "on/off; a directed stream plants exactly one conflict at every matched position of a "
            "conflict-free pair; Property.merge and Section.merge_check are driven directly too; "
            "dtypes.get/infer_dtype/== on the full value pool x dtypes. Non-trivial = the two trees "
            "share at least one child; distinct = distinct canonical JSON.")

    # -- generation ----------------------------------------------------------
    def generate(self, tier, rng):
        cases = []
        n = 2000 if tier == "quick" else 30000
        for i in range(n):
            strict = bool(i % 2)
            mode = "safe" if rng.random() < 0.45 else "free"
            d = new_sec(rng, "dest", rng.choice([1, 2, 2, 3]))
            s = derive_sec(rng, d, mode, strict, 3, name="src")
            cases.append({"stream": "merge", "d": d, "s": s, "strict": strict})
        # one conflict at every position of a conflict-free pair
        m = 80 if tier == "quick" else 800
        for i in range(m):
            d = new_sec(rng, "dest", rng.choice([2, 3]), attrs=False)
            s = derive_sec(rng, d, "safe", True, 3, name="src")
            for kind, path in matched_positions(d, s):
                d2, s2, what = plant_conflict(rng, d, s, kind, path)
                for strict in (True, False):
                    cases.append({"stream": "merge", "d": d2, "s": s2, "strict": strict,
                                  "planted": what, "depth": len(path)})
        # Property.merge directly
        k = 1200 if tier == "quick" else 15000
        for i in range(k):
            strict = bool(i % 2)
            dp = new_prop(rng, "p")
            sp = derive_prop(rng, dp, "safe" if rng.random() < 0.4 else "free", strict)
            sp["name"] = rng.choice(["p", "q"])
            cases.append({"stream": "pmerge", "d": dp, "s": sp, "strict": strict})
        # merge_check alone
        for c in cases[: (500 if tier == "quick" else 6000)]:
            if c["stream"] == "merge":
                cases.append(dict(c, stream="check"))
        # the value functions on the whole pool
        allv = []
        for t in DTYPES:
            for v in POOL[t]:
                tag = to_tag(v)
                if tag not in allv:
                    allv.append(tag)
        for tag in allv:
            cases.append({"stream": "infer", "v": tag})
            for t in DTYPES + [None]:
                cases.append({"stream": "get", "dtype": t, "v": tag})
        for a in allv:
            for b in allv:
                cases.append({"stream": "eq", "a": a, "b": b})
        texts = [t for t in TEXTS if t] + ["A\x1cb", " x Y　", "", " ", "a\r\nB\x0b\x0cc",
                                            "Tab\tNew\nLine", "\x85q w ", "I"]
        for t in texts:
            cases.append({"stream": "norm", "s": t})
            for _ in range(3):
                cases.append({"stream": "norm", "s": variant(rng, t) if t else t})
        return cases

    # -- implementation ------------------------------------------------------
    def impl(self, case):
        st = case["stream"]
        if st in ("merge", "check"):
            d = build_sec(case["d"])
            s = build_sec(case["s"])
            before_d, before_s = snap_sec(d), snap_sec(s)
            try:
                if st == "merge":
                    d.merge(s, strict=case["strict"])
                else:
                    d.merge_check(s, case["strict"])
                outc = "ok"
            except Exception as exc:
                outc = fw.exc_name(exc)
            return {"outcome": outc, "before_d": before_d, "before_s": before_s,
                    "after_d": snap_sec(d), "after_s": snap_sec(s)}
        if st == "pmerge":
            d = build_prop(case["d"])
            s = build_prop(case["s"])
            before_d, before_s = snap_prop(d), snap_prop(s)
            try:
                d.merge(s, strict=case["strict"])
                outc = "ok"
            except Exception as exc:
                outc = fw.exc_name(exc)
            return {"outcome": outc, "before_d": before_d, "before_s": before_s,
                    "after_d": snap_prop(d), "after_s": snap_prop(s)}
        from odml import dtypes
        if st == "get":
            try:
                return {"r": to_tag(dtypes.get(from_tag(case["v"]), case["dtype"]))}
            except Exception as exc:
                return {"r": None, "raised": fw.exc_name(exc)}
        if st == "infer":
            return {"r": dtypes.infer_dtype(from_tag(case["v"]))}
        if st == "eq":
            a, b = from_tag(case["a"]), from_tag(case["b"])
            return {"r": bool(a in [b]), "r2": bool(b in [a])}
        if st == "norm":
            t = case["s"]
            return {"r": "".join(map(str.strip, t.split())).lower(),
                    "r2": "".join(map(str.strip, t.lower().split()))}
        raise ValueError(st)

    # -- model ---------------------------------------------------------------
    def model_requests(self, case, obs):
        st = case["stream"]
        if st in ("merge", "check", "pmerge"):
            if not (modelable(obs["before_d"]) and modelable(obs["before_s"])):
                return []
            op = {"merge": "merge", "check": "merge", "pmerge": "pmerge"}[st]
            return [{"op": op, "d": obs["before_d"], "s": obs["before_s"], "strict": case["strict"]}]
        if st == "get":
            return [{"op": "get", "dtype": case["dtype"], "v": case["v"]}]
        if st == "infer":
            return [{"op": "infer", "v": case["v"]}]
        if st == "eq":
            return [{"op": "eq", "a": case["a"], "b": case["b"]}]
        if st == "norm":
            return [{"op": "norm", "s": case["s"]}] if case["s"].isascii() or True else []
        return []

    def compare(self, case, obs, answers):
        st = case["stream"]
        out = []
        if st in ("merge", "check", "pmerge"):
            if not answers:
                return ["the implementation produced a state outside the modelled universe: %s"
                        % fw.canon(obs["before_d"])[:300]]
            a = answers[0]
            m_out = a["check"] if st == "check" else a["out"]
            if (m_out == "ok") != (obs["outcome"] == "ok"):
                out.append("model outcome %s, implementation outcome %s" % (m_out, obs["outcome"]))
            elif m_out != "ok" and m_out != obs["outcome"]:
                out.append("model raises %s, implementation raises %s" % (m_out, obs["outcome"]))
            want = obs["before_d"] if st == "check" else a["d"]
            if want != obs["after_d"]:
                out.append("destination after the call differs: model %s implementation %s"
                           % (fw.canon(want)[:600], fw.canon(obs["after_d"])[:600]))
            if st == "merge":
                if a["clash"] != type_clash(obs["before_d"], obs["before_s"]):
                    out.append("type-clash predicate: driver %s, harness mirror %s"
                               % (a["clash"], not a["clash"]))
                if a["conflict"] != tree_conflict(obs["before_d"], obs["before_s"]):
                    out.append("conflict predicate: driver (Merge.treeConflict) %s, oracle %s"
                               % (a["conflict"], not a["conflict"]))
                if not (a["wf"] and a["typed"]):
                    out.append("API-built trees outside the theorems' side conditions: "
                               "wfSec(src)=%s typedSec(dest)=%s" % (a["wf"], a["typed"]))
        elif st in ("get", "infer", "norm"):
            if answers[0] != obs["r"]:
                out.append("model %r, implementation %r" % (answers[0], obs["r"]))
            if st == "norm" and obs["r"] != obs["r2"]:
                out.append("the two normalisation spellings differ on %r" % case["s"])
        elif st == "eq":
            if answers[0] != obs["r"] or obs["r"] != obs["r2"]:
                out.append("model %r, implementation %r/%r" % (answers[0], obs["r"], obs["r2"]))
        return out

    # -- oracle --------------------------------------------------------------
    def oracle(self, case, obs):
        if "harness_exception" in obs:
            return []
        st = case["stream"]
        out = []
        if st not in ("merge", "check", "pmerge"):
            return out
        D, S, R = obs["before_d"], obs["before_s"], obs["after_d"]
        raised = obs["outcome"] != "ok"
        if obs["after_s"] != S:
            out.append("the source was changed by the call")
        if st == "check":
            if R != D:
                out.append("merge_check changed the destination")
            if case["strict"] and tree_conflict(D, S) and obs["outcome"] != "ValueError":
                out.append("conflict: strict merge_check of conflicting trees gave %s" % obs["outcome"])
            return out
        if raised and R != D:
            out.append("partial: merge raised %s but changed the destination" % obs["outcome"])
        if st == "merge":
            if case["strict"] and tree_conflict(D, S) and obs["outcome"] != "ValueError":
                out.append("conflict: strict merge of conflicting trees gave %s (planted %s)"
                           % (obs["outcome"], case.get("planted")))
            if not raised:
                check_merged(D, S, R, case["strict"], "", out)
        else:
            if case["strict"] and prop_conflict(D, S) and obs["outcome"] != "ValueError":
                out.append("conflict: strict merge of conflicting Properties gave %s" % obs["outcome"])
            if not raised:
                check_prop_merged(D, S, R, case["strict"], "prop", out)
                if R["name"] != D["name"]:
                    out.append("name of the destination Property changed")
        return out

    def finding_key(self, case, obs, failure):
        # known finding: a source sub-Section whose name is used in the destination by a Section
        # of another type -> KeyError from SmartList.append after earlier children were merged
        if case.get("stream") == "merge" and failure.startswith("partial:") and \
                obs.get("outcome") == "KeyError" and type_clash(obs["before_d"], obs["before_s"]):
            return KEY_CLASH
        return None

    def tag(self, case, obs):
        st = case["stream"]
        if st in ("merge", "check", "pmerge"):
            if "outcome" not in obs:
                return (st + ":broken", False)
            D, S = obs["before_d"], obs["before_s"]
            if st == "pmerge":
                shared = True
            else:
                shared = any(find_prop(D["props"], p["name"]) for p in S["props"]) or \
                    any(find_sec(D["secs"], c["name"], c["type"]) for c in S["secs"])
            name = "%s:%s:%s" % (st, "strict" if case["strict"] else "lenient", obs["outcome"])
            if "planted" in case:
                name += ":planted"
            return (name, bool(shared))
        return (st, True)


if __name__ == "__main__":
    sys.exit(fw.main(C13(), sys.argv[1:]))
