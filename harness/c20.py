# -*- coding: utf-8 -*-
"""
C20 - Searches over exported RDF return exactly the matching objects.

Tie between lean/OdmlModel/Model/Query.lean (+ Model/Rdf.lean for the export) and /repo:
  * the combinations FuzzyFinder executes (order, omissions) == `subsets`
  * the rows of every combination on the exported graph == `queryRows (exportRdf docs)`,
    and == `directEval docs` wherever the theorem `query_sound_complete` applies
  * `evalBGP` == rdflib `graph.query` on random small graphs (library contract of the evaluator)
Oracle: the property restated over the public API: an independent evaluation of every
non-empty combination of the given pairs on the odML objects themselves.
"""
import itertools
import re
import sys

import framework as fw
import c10

NS = c10.NS
KEYS = ["Doc", "Sec", "Prop"]
LABEL = {"Document": 0, "Section": 1, "Property": 2, "Bag URI": 3, "Value": 4}
STR_ATTRS = {"Doc": ["author", "version"],
             "Sec": ["name", "type", "definition", "reference"],
             "Prop": ["name", "definition", "dtype", "unit", "reference", "value_origin"]}
NAMES = ["a", "b", "ab"]
TYPES = ["t1", "t2"]
TEXTS = ["d1", "x y", "a\\b", "it's", u"é", "100%", "a\\qb", "tab\tx", "-", "D. N. Adams", "a;b", "[x]", "?s", "{y}"]
UNITS = ["mV", "s"]


# ----------------------------------------------------------------------------- helpers
def pick(rng, pool, p=0.6):
    return rng.choice(pool) if rng.random() < p else None


def gen_docs(rng):
    docs = []
    for _ in range(rng.choice([1, 1, 2, 3])):
        secs = []
        for si in range(rng.choice([0, 1, 2, 3])):
            subs = []
            for ti in range(rng.choice([0, 0, 1, 2])):
                subs.append(gen_sec(rng, NAMES[ti], []))
            secs.append(gen_sec(rng, NAMES[si], subs))
        docs.append({"author": pick(rng, ["me", "D. N. Adams", "a\\b"]), "version": pick(rng, ["1", "v2"]),
                     "date": pick(rng, ["2020-01-02"], 0.3), "repository": pick(rng, ["http://x.org/t.xml"], 0.15),
                     "origin": None, "secs": secs})
    return docs


def gen_sec(rng, name, subs):
    props = []
    for pi in range(rng.choice([0, 1, 2, 3])):
        kind = rng.choice(["int", "string", "float", "none"])
        vals = {"int": [{"i": "20"}, {"i": "25"}], "string": ["x", "y z"], "float": [{"f": "1.5"}], "none": []}[kind]
        props.append({"name": NAMES[pi], "dtype": None if kind == "none" else kind,
                      "values": vals[:rng.randrange(0, len(vals) + 1)] if vals else [],
                      "unit": pick(rng, UNITS, 0.5), "uncertainty": pick(rng, [{"f": "0.5"}], 0.25),
                      "definition": pick(rng, TEXTS, 0.4), "reference": pick(rng, TEXTS, 0.3),
                      "value_origin": pick(rng, TEXTS, 0.3)})
    return {"name": name, "type": rng.choice(TYPES), "definition": pick(rng, TEXTS, 0.4),
            "reference": pick(rng, TEXTS, 0.3), "repository": None, "props": props, "subs": subs}


def values_in_docs(docs):
    """(kind, attr, value) triples that occur, for generating hits."""
    out = []

    def sec(s):
        for a in STR_ATTRS["Sec"]:
            if s.get(a):
                out.append(("Sec", a, s[a]))
        for p in s["props"]:
            for a in STR_ATTRS["Prop"]:
                if p.get(a):
                    out.append(("Prop", a, p[a]))
        for c in s["subs"]:
            sec(c)
    for d in docs:
        for a in STR_ATTRS["Doc"]:
            if d.get(a):
                out.append(("Doc", a, d[a]))
        for s in d["secs"]:
            sec(s)
    return out


def render_match(pairs):
    """dictionary form -> the documented string form `doc(a:v, b:w) sec(...) prop(...)`"""
    parts = []
    for key, word in (("Doc", "doc"), ("Sec", "sec"), ("Prop", "prop")):
        mine = [p for p in pairs if p["k"] == key]
        if mine:
            parts.append("%s(%s)" % (word, ", ".join("%s:%s" % (p["a"], p["v"]) for p in mine)))
    return " ".join(parts)


def to_params(pairs):
    out = {}
    for p in pairs:
        val = list(p["vs"]) if p["a"] == "value" and p["k"] == "Prop" else p["v"]
        out.setdefault(p["k"], []).append((p["a"], val))
    return out


def string_safe(pairs):
    return all(not re.search(r"[,():\"]", p["v"]) and p["v"] == p["v"].strip() and p["v"] and p["a"] != "value"
               for p in pairs)


def parse_output(text):
    """the string find() returns -> [(query text, [row, ...])]; a row is [d, s, p] of IRIs/None"""
    blocks = []
    for chunk in text.split("SELECT * WHERE {")[1:]:
        head, _, rest = chunk.partition("}\n")
        query = "SELECT * WHERE {" + head + "}\n"
        rows, cur, last = [], None, 99
        for line in rest.split("\n"):
            m = re.match(r"(Document|Section|Property|Bag URI|Value): (.*)$", line)
            if not m:
                continue
            idx = LABEL[m.group(1)]
            if cur is None or idx <= last:
                cur = [None, None, None]
                rows.append(cur)
            if idx < 3:
                cur[idx] = m.group(2)
            last = idx
        blocks.append((query, rows))
    return blocks


def row_key(r):
    return [x if x is None else str(x) for x in r]


# ----------------------------------------------------------------------------- the check
class C20(fw.Check):
    prop = "C20"
    lean_targets = ["OdmlModel.Props.C20"]
    obligations = ["C20." + t for t in [
        "query_vocabulary_matches_writer", "query_never_fails", "evalBGP_sound", "evalBGP_complete",
        "combinations_exact", "combinations_most_specific_first", "hitless_omitted",
        "fuzzy_equals_match_on_pairs", "query_tables_ok", "query_sound_complete",
        "typed_literal_never_matches_counterexample",
        "value_query_never_matches_counterexample", "id_never_matches_counterexample",
        "query_sound_complete_counterexample"]]
    trusted_base = [
        "Lean 4.33.0 kernel; axioms propext, Classical.choice, Quot.sound only (audited per theorem)",
        "hand-written models lean/OdmlModel/Model/Query.lean and Model/Rdf.lean, tied to /repo by this run",
        "harness/extract_tables.py (format._rdf_map tables regenerated into Lean on every run)",
        "Driver/C20.lean, Driver/RdfCodec.lean JSON glue; harness/framework.py, harness/c20.py, harness/c10.py",
        "rdflib SPARQL engine: basic graph pattern matching with RDF term equality (validated against evalBGP per run)",
    ]
    assumptions = [
        "the regex front ends (QueryParser, QueryParserFuzzy) are not modelled; string form == dictionary form is checked per case",
        "documents are exported without Section sub-classing; repository URLs are not RDF class IRIs",
        "search values are free of , ( ) : and double quotes in the string form",
    ]
    rule = ("random small document sets x match/fuzzy x dictionary/string parameters; 1-3 pairs per kind "
            "with values drawn from the documents (hits) or not (misses); every non-empty combination is "
            "evaluated independently on the odML objects. Plus random small graphs x random basic graph "
            "patterns (evalBGP vs rdflib) and pure combination cases. Non-trivial = at least one combination "
            "with a hit; distinct = distinct canonical JSON of the case.")
    quick_n = 110
    case_timeout = 90
    thorough_n = 2500

    # -- generation ----------------------------------------------------------
    def gen_pairs(self, rng, docs, risky):
        present = values_in_docs(docs)
        pairs = []
        for key in KEYS:
            if rng.random() < 0.55:
                for _ in range(rng.choice([1, 1, 2, 3])):
                    mine = [t for t in present if t[0] == key]
                    if mine and rng.random() < 0.75:
                        _k, a, v = rng.choice(mine)
                    else:
                        a = rng.choice(STR_ATTRS[key])
                        v = rng.choice(NAMES + TYPES + TEXTS + UNITS)
                    pairs.append({"k": key, "a": a, "v": v, "vs": []})
        if risky:
            r = rng.choice(["uncertainty", "date", "id", "value", "repository", "sections"])
            if r == "uncertainty":
                pairs.append({"k": "Prop", "a": "uncertainty", "v": "0.5", "vs": []})
            elif r == "date":
                pairs.append({"k": "Doc", "a": "date", "v": "2020-01-02", "vs": []})
            elif r == "id":
                pairs.append({"k": rng.choice(KEYS), "a": "id", "v": "@first", "vs": []})
            elif r == "value":
                pairs.append({"k": "Prop", "a": "value", "v": "", "vs": rng.choice([["20"], ["x"], ["20", "25"]])})
            elif r == "repository":
                pairs.append({"k": "Doc", "a": "repository", "v": "http://x.org/t.xml", "vs": []})
            else:
                pairs.append({"k": "Sec", "a": "sections", "v": "x", "vs": []})
        if len(pairs) > 4:
            pairs = rng.sample(pairs, 4)
        if not pairs:
            pairs.append({"k": "Sec", "a": "name", "v": "a", "vs": []})
        return pairs

    def generate(self, tier, rng):
        n = self.quick_n if tier == "quick" else self.thorough_n
        cases = []
        for i in range(n):
            docs = gen_docs(rng)
            if i % 4 == 3:
                attrs = {}
                for key in KEYS:
                    if rng.random() < 0.6:
                        attrs[key] = rng.sample(STR_ATTRS[key], rng.choice([1, 1, 2]))
                if not attrs:
                    attrs["Sec"] = ["name"]
                # the finder runs one query per combination: keep the number of pairs small
                while sum(len(v) for v in attrs.values()) > 3:
                    k = rng.choice(sorted(attrs))
                    attrs[k] = attrs[k][:-1]
                    if not attrs[k]:
                        del attrs[k]
                present = [t[2] for t in values_in_docs(docs)]
                search = [rng.choice(present) if present and rng.random() < 0.7 else rng.choice(NAMES + TEXTS)
                          for _ in range(rng.choice([1, 2]))]
                cases.append({"stream": "fuzzy", "docs": docs, "attrs": attrs, "search": search,
                              "how": rng.choice(["dict", "str"])})
            else:
                cases.append({"stream": "match", "docs": docs, "pairs": self.gen_pairs(rng, docs, i % 8 == 1),
                              "how": rng.choice(["dict", "str"])})
        m = 150 if tier == "quick" else 3000
        terms = [["i", "ex:a"], ["i", "ex:b"], ["i", "ex:c"], ["l", "x", ""], ["l", "y", ""],
                 ["l", "1", c10.XSD + "integer"], ["l", "x", c10.XSD + "string"]]
        preds = [["i", "ex:p"], ["i", "ex:q"], ["i", c10.RDFNS + "type"]]
        for _ in range(m):
            triples = []
            for _t in range(rng.randrange(1, 9)):
                triples.append([rng.choice(terms[:3]), rng.choice(preds), rng.choice(terms)])
            pats = []
            for _p in range(rng.randrange(1, 4)):
                s = rng.choice(["?d", "?s", "?p", rng.choice(terms[:3])])
                p = rng.choice(preds + preds + ["?v"])
                o = rng.choice(["?d", "?s", "?p", "?v", rng.choice(terms), rng.choice(terms)])
                pats.append([s, p, o])
            if not any(isinstance(x, str) for pat in pats for x in pat):
                pats[0][0] = "?d"         # SELECT * needs a variable
            cases.append({"stream": "bgp", "triples": triples, "pats": pats})
        for _ in range(60 if tier == "quick" else 600):
            pairs = []
            for _p in range(rng.randrange(1, 6)):
                key = rng.choice(KEYS)
                pairs.append({"k": key, "a": rng.choice(["name", "type", "definition"]),
                              "v": rng.choice(["a", "b", "B", u"é", "ab", ""]), "vs": []})
            cases.append({"stream": "subsets", "pairs": pairs})
        return cases

    # -- implementation ------------------------------------------------------
    def impl(self, case):
        c10._quiet_terminology()
        st = case["stream"]
        if st == "bgp":
            return self.impl_bgp(case)
        if st == "subsets":
            return self.impl_subsets(case)
        return self.impl_find(case)

    @staticmethod
    def rdf_term(t):
        from rdflib import URIRef, Literal
        if t[0] == "i":
            return URIRef(t[1])
        return Literal(t[1], datatype=URIRef(t[2])) if t[2] else Literal(t[1])

    def impl_bgp(self, case):
        import rdflib
        g = rdflib.Graph()
        for s, p, o in case["triples"]:
            g.add((self.rdf_term(s), self.rdf_term(p), self.rdf_term(o)))

        def txt(x):
            if isinstance(x, str):
                return x
            return self.rdf_term(x).n3()
        query = "SELECT * WHERE {\n%s}" % "".join("%s %s %s .\n" % (txt(s), txt(p), txt(o))
                                                   for s, p, o in case["pats"])
        rows = []
        for row in g.query(query):
            d = row.asdict()
            rows.append([self.term_json(d.get(v)) for v in ("d", "s", "p", "v")])
        return {"rows": sorted(fw.canon(r) for r in rows),
                "triples": [list(t) for t in set(tuple(map(tuple, t)) for t in case["triples"])]}

    @staticmethod
    def term_json(x):
        from rdflib import Literal
        if x is None:
            return None
        if isinstance(x, Literal):
            return ["l", str(x), str(x.datatype) if x.datatype is not None else ""]
        return ["i", str(x)]

    def impl_subsets(self, case):
        from odml.rdf.fuzzy_finder import FuzzyFinder
        ff = FuzzyFinder()
        attrs = [(p["k"], (p["a"], p["v"])) for p in case["pairs"]]
        try:
            ff._generate_parameters_subsets(attrs)
            return {"subsets": [[{"k": a[0], "a": a[1][0], "v": a[1][1], "vs": []} for a in s] for s in ff._subsets]}
        except AttributeError:
            return {"skipped": "no _generate_parameters_subsets"}

    def resolve_pairs(self, case, docs_built):
        """replace the placeholder id value by the id of the first object of the kind"""
        pairs = []
        for p in case["pairs"]:
            p = dict(p)
            if p["v"] == "@first" and p["a"] == "id":
                obj = None
                d = docs_built[0]
                if p["k"] == "Doc":
                    obj = d
                elif d.sections:
                    obj = d.sections[0] if p["k"] == "Sec" else (d.sections[0].properties[0]
                                                                  if d.sections[0].properties else None)
                p["v"] = str(obj.id) if obj is not None else "none"
            pairs.append(p)
        return pairs

    def impl_find(self, case):
        import warnings
        from odml.tools.rdf_converter import RDFWriter
        from odml.rdf.fuzzy_finder import FuzzyFinder
        warnings.simplefilter("ignore")
        docs = [c10.build_doc(d) for d in case["docs"]]
        snap = [c10.snap_doc(d) for d in docs]
        graph = RDFWriter(docs, rdf_subclassing=False).convert_to_rdf()
        obs = {"docs": snap}
        if case["stream"] == "fuzzy":
            pairs = [{"k": k, "a": a, "v": v, "vs": []} for k in KEYS if k in case["attrs"]
                     for a in case["attrs"][k] for v in case["search"]]
            params = dict((k, list(v)) for k, v in case["attrs"].items())
            params["Search"] = list(case["search"])
            words = {"Doc": "doc", "Sec": "sec", "Prop": "prop"}
            q_str = "FIND %s HAVING %s" % (" ".join("%s(%s)" % (words[k], ", ".join(case["attrs"][k]))
                                                    for k in KEYS if k in case["attrs"]),
                                           ", ".join(case["search"]))
            str_ok = all(not re.search(r"[,():\"]", v) and v == v.strip() and v for v in case["search"])
            mode = "fuzzy"
        else:
            pairs = self.resolve_pairs(case, docs)
            params = to_params(pairs)
            q_str = render_match(pairs)
            str_ok = string_safe(pairs)
            mode = "match"
        obs["pairs"] = pairs
        use_str = case["how"] == "str" and str_ok
        obs["used"] = "str" if use_str else "dict"
        ff = FuzzyFinder()
        try:
            if use_str:
                text = ff.find(mode=mode, graph=graph, q_str=q_str)
            else:
                text = ff.find(mode=mode, graph=graph, q_params=params)
            obs["blocks"] = [[q, sorted(row_key(r) for r in rows)] for q, rows in parse_output(text)]
        except Exception as exc:
            obs["raised"] = fw.exc_name(exc)
            return obs
        # which combination does a block belong to (opportunistic use of the finder's own list)
        try:
            executed = []
            for sub in ff._subsets:
                creator = FuzzyFinder._prepare_query(sub)
                creator._prepare_query()
                executed.append([[{"k": a[0], "a": a[1][0], "v": "" if isinstance(a[1][1], list) else a[1][1],
                                   "vs": list(a[1][1]) if isinstance(a[1][1], list) else []} for a in sub],
                                 creator.query])
            obs["executed"] = executed
        except Exception:
            obs["executed"] = None
        # the other way of passing the same parameters must give the same answer
        if str_ok:
            try:
                other = FuzzyFinder().find(mode=mode, graph=graph, q_params=params) if use_str else \
                    FuzzyFinder().find(mode=mode, graph=graph, q_str=q_str)
                obs["other_blocks"] = [[q, sorted(row_key(r) for r in rows)] for q, rows in parse_output(other)]
            except Exception as exc:
                obs["other_raised"] = fw.exc_name(exc)
        if mode == "fuzzy":
            try:
                text2 = FuzzyFinder().find(mode="match", graph=graph, q_params=to_params(pairs))
                obs["as_match_blocks"] = [[q, sorted(row_key(r) for r in rows)] for q, rows in parse_output(text2)]
            except Exception as exc:
                obs["as_match_raised"] = fw.exc_name(exc)
        obs["expected"] = self.expected(docs, pairs)
        return obs

    # independent evaluation of every non-empty combination on the odML objects
    def expected(self, docs, pairs):
        uniq = []
        for p in sorted(pairs, key=lambda p: (p["k"], p["a"], p["v"], p["vs"])):
            uniq.append(p)
        combos = []
        for r in range(len(uniq), 0, -1):
            for combo in itertools.combinations(range(len(uniq)), r):
                sel = [uniq[i] for i in combo]
                keys = [(p["k"], p["a"]) for p in sel]
                if len(set(keys)) != len(keys):
                    continue          # two values for one attribute of one object: no object can carry both
                combos.append(sel)
        out = []
        for sel in combos:
            out.append({"pairs": sel, "rows": sorted(row_key(r) for r in self.direct(docs, sel))})
        return out

    @staticmethod
    def carries(obj, p):
        if p["a"] == "value":
            vals = [u"%s" % v for v in getattr(obj, "values", [])]
            return all(v in vals for v in p["vs"])
        got = getattr(obj, p["a"], None)
        if got is None:
            return False
        return (u"%s" % got) == p["v"]

    def direct(self, docs, sel):
        dq = [p for p in sel if p["k"] == "Doc"]
        sq = [p for p in sel if p["k"] == "Sec"]
        pq = [p for p in sel if p["k"] == "Prop"]
        node = lambda o: NS + str(o.id)
        all_secs = []          # (parent, section)

        def walk(parent, secs):
            for s in secs:
                all_secs.append((parent, s))
                walk(s, s.sections)
        for d in docs:
            walk(d, d.sections)
        mdocs = [d for d in docs if all(self.carries(d, p) for p in dq)]
        rows = []
        if sq:
            if dq:
                cand = [(d, s) for d in mdocs for s in d.sections]
            else:
                cand = all_secs
            for par, s in cand:
                if not all(self.carries(s, p) for p in sq):
                    continue
                if pq:
                    for pr in s.properties:
                        if all(self.carries(pr, p) for p in pq):
                            rows.append([node(par), node(s), node(pr)])
                else:
                    rows.append([node(par), node(s), None])
        else:
            dcol = [node(d) for d in mdocs] if dq else [None]
            spcol = [[None, None]]
            if pq:
                spcol = [[node(s), node(pr)] for _par, s in all_secs for pr in s.properties
                         if all(self.carries(pr, p) for p in pq)]
            rows = [[d, sp[0], sp[1]] for d in dcol for sp in spcol]
        return rows

    # -- model ---------------------------------------------------------------
    def model_requests(self, case, obs):
        st = case["stream"]
        if st == "bgp":
            return [{"op": "bgp", "triples": obs["triples"], "pats": case["pats"]}]
        if st == "subsets":
            return [] if "skipped" in obs else [{"op": "subsets", "pairs": case["pairs"]}]
        reqs = [{"op": "find", "docs": obs["docs"], "pairs": obs["pairs"]}]
        if st == "fuzzy":
            reqs.append({"op": "fuzzy", "doc": case["attrs"].get("Doc", []), "sec": case["attrs"].get("Sec", []),
                         "prop": case["attrs"].get("Prop", []), "search": case["search"]})
        return reqs

    @staticmethod
    def mrow(r):
        return [None if x is None else x[1] for x in r]

    @staticmethod
    def pkey(pairs):
        return sorted((p["k"], p["a"], p["v"], tuple(p.get("vs", []))) for p in pairs)

    def compare(self, case, obs, answers):
        st = case["stream"]
        out = []
        if st == "bgp":
            m = sorted(fw.canon(r) for r in answers[0])
            if m != obs["rows"]:
                out.append("evalBGP gives %s, rdflib gives %s" % (m[:4], obs["rows"][:4]))
            return out
        if st == "subsets":
            if answers and [self.pkey(s) for s in answers[0]] != [self.pkey(s) for s in obs["subsets"]]:
                out.append("combinations differ: model %s, implementation %s"
                           % ([self.pkey(s) for s in answers[0]][:4], [self.pkey(s) for s in obs["subsets"]][:4]))
            return out
        ans = answers[0]
        if "raised" in obs:
            if ans["found"] != "parse-error":
                out.append("implementation raised %s, model finds %d blocks" % (obs["raised"], len(ans["found"])))
            return out
        if ans["found"] == "parse-error":
            return ["model: query text is refused, implementation returned"]
        if obs.get("executed") is not None:
            mk = [self.pkey(e["q"]) for e in ans["all"]]
            ik = [self.pkey(e[0]) for e in obs["executed"]]
            if [len(k) for k in mk] != [len(k) for k in ik] or sorted(mk) != sorted(ik):
                out.append("executed combinations differ: model %s, implementation %s" % (mk[:5], ik[:5]))
            text_of = dict((fw.canon(self.pkey(e[0])), e[1]) for e in obs["executed"])
            blocks = dict((q, rows) for q, rows in obs["blocks"])
            for e in ans["all"]:
                text = text_of.get(fw.canon(self.pkey(e["q"])))
                if text is None:
                    continue
                irows = blocks.get(text, [])
                mrows = sorted(row_key(self.mrow(r)) for r in e["rows"])
                mrows = sorted(set(map(tuple, mrows)))
                if [list(r) for r in mrows] != [list(r) for r in sorted(set(map(tuple, irows)))]:
                    out.append("rows of %s differ: model %s, implementation %s" % (self.pkey(e["q"]), mrows[:3], irows[:3]))
            inside = ans.get("wf") and ans.get("repr") and ans.get("norepo")
            for e in ans["all"]:
                if inside and e.get("safe") and e["rows"] != "parse-error":
                    a = sorted(set(fw.canon(x) for x in e["rows"]))
                    b = sorted(set(fw.canon(x) for x in e["direct"]))
                    if a != b:
                        out.append("inside the hypotheses of query_sound_complete the model's query rows %s differ "
                                   "from its direct evaluation %s" % (a[:3], b[:3]))
            if len(ans["found"]) != len(obs["blocks"]):
                out.append("model reports %d combinations with hits, implementation %d"
                           % (len(ans["found"]), len(obs["blocks"])))
        if st == "fuzzy" and len(answers) > 1:
            f = answers[1]
            if self.pkey(f["pairs"]) != self.pkey(obs["pairs"]) or self.pkey(f["as_match"]) != self.pkey(obs["pairs"]):
                out.append("fuzzy pairs differ: model %s, implementation %s" % (self.pkey(f["pairs"]), self.pkey(obs["pairs"])))
        return out

    # -- oracle --------------------------------------------------------------
    MODEL_NAMES = {"Doc": ["id", "author", "date", "version", "repository", "sections"],
                   "Sec": ["id", "name", "definition", "type", "repository", "reference", "sections", "properties"],
                   "Prop": ["id", "name", "definition", "dtype", "unit", "uncertainty", "reference", "value",
                            "value_origin"]}

    def oracle(self, case, obs):
        if "harness_exception" in obs or case["stream"] in ("bgp", "subsets"):
            return []
        out = []
        pairs = obs["pairs"]
        in_model = all(p["a"] in self.MODEL_NAMES[p["k"]] for p in pairs)
        if "raised" in obs:
            if in_model:
                out.append("find raised %s for attribute names of the RDF model: %s" % (obs["raised"], self.pkey(pairs)))
            return out
        if "other_raised" in obs:
            out.append("string/dictionary form raised %s" % obs["other_raised"])
        elif "other_blocks" in obs and obs["other_blocks"] != obs["blocks"]:
            out.append("string and dictionary form of the query give different answers")
        if "as_match_raised" in obs:
            out.append("match search on the fuzzy pairs raised %s" % obs["as_match_raised"])
        elif "as_match_blocks" in obs and obs["as_match_blocks"] != obs["blocks"]:
            out.append("fuzzy search differs from the match search on the attribute=term pairs")
        # every non-empty combination, most specific first, hit-less omitted
        want = [e for e in obs["expected"] if e["rows"]]
        got = obs["blocks"]
        if any(not rows for _q, rows in got):
            out.append("a combination without a hit is reported")
        want_rows = sorted(fw.canon(sorted(set(map(tuple, e["rows"])))) for e in want)
        got_rows = sorted(fw.canon(sorted(set(map(tuple, rows)))) for _q, rows in got)
        if obs.get("executed") is not None:
            text_of = dict((fw.canon(self.pkey(e[0])), e[1]) for e in obs["executed"])
            blocks = dict((q, rows) for q, rows in got)
            sizes = []
            for e in obs["expected"]:
                text = text_of.get(fw.canon(self.pkey(e["pairs"])))
                rows = blocks.get(text, []) if text is not None else []
                a = sorted(set(map(tuple, e["rows"])))
                b = sorted(set(map(tuple, rows)))
                if a != b:
                    missing = [r for r in a if r not in b]
                    extra = [r for r in b if r not in a]
                    out.append("combination %s: missing %d rows, %d rows that do not carry the values"
                               % (fw.canon(self.pkey(e["pairs"])), len(missing), len(extra)))
            pos = dict((q, i) for i, (q, _r) in enumerate(got))
            order = []
            for e in obs["executed"]:
                if e[1] in pos:
                    order.append((pos[e[1]], len(e[0])))
            sizes = [n for _i, n in sorted(order)]
            if sizes != sorted(sizes, reverse=True):
                out.append("combinations are not reported most specific first: sizes %s" % sizes)
        elif want_rows != got_rows:
            out.append("reported row sets differ from the independent evaluation (%d vs %d combinations with hits)"
                       % (len(got_rows), len(want_rows)))
        return out

    def finding_key(self, case, obs, failure):
        m = re.match(r"combination (.*): missing (\d+) rows, (\d+) rows that do not carry the values$", failure)
        if m and m.group(3) == "0":
            import json
            keys = json.loads(m.group(1))
            attrs = set((k[0], k[1]) for k in keys)
            if ("Prop", "value") in attrs:
                return "value_query_bag_vs_seq"
            if ("Prop", "uncertainty") in attrs or ("Doc", "date") in attrs:
                return "typed_literal_never_matches"
            if any(a in ("id", "repository") for _k, a in attrs):
                return "id_repository_never_match"
        return None

    def tag(self, case, obs):
        st = case["stream"]
        if st in ("bgp", "subsets"):
            return (st, bool(obs.get("rows") or obs.get("subsets")))
        hit = bool(obs.get("blocks"))
        return ("%s:%s:%s" % (st, obs.get("used"), "hit" if hit else "miss"), hit)


if __name__ == "__main__":
    sys.exit(fw.main(C20(), sys.argv[1:]))
